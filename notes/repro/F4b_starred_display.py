import os
os.environ["FANDANGO_DISABLE_UPDATE_CHECK"]="1"
from fandango import Fandango
spec = """
a = [1, 2]
b = [*a, 3]
c = (*a, 4)
d = {*a, 5}
e = [x for x in (*a, 9)]
<start> ::= 'x'
"""
f = Fandango(spec)
import fandango
g,l = f.grammar.get_spec_env()
print(g.get('b'), g.get('c'), g.get('d'), g.get('e'))
