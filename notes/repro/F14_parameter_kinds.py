import os
os.environ["FANDANGO_DISABLE_UPDATE_CHECK"]="1"
from fandango import Fandango
import inspect
for src in ["def f(a, b=2):\n    return a + b\nr = f(1, 5)\n", "def g(a, /, b, c=3):\n    return 1\n", "def h(a, *args, d, e=5, **kw):\n    return 1\n", "def k(a, b):\n    return 1\n", "def m(a=1):\n    return a\n"]:
    spec = src + "<start> ::= 'x'\n"
    try:
        f = Fandango(spec)
        g,l = f.grammar.get_spec_env()
        fn=[v for k,v in g.items() if callable(v) and getattr(v,'__name__','') in 'fghkm' and len(getattr(v,'__name__',''))==1]
        print(repr(src.split(':')[0]), '->', [str(inspect.signature(x)) for x in fn], g.get('r'))
    except Exception as e:
        print(repr(src.split(':')[0]), 'ERR', type(e).__name__, str(e)[:100])
