#!/bin/bash
# F41 (C02): in the shell, constraints given with `fuzz -c` after `set -f` were silently ignored (before fix: values below 90 are printed).
# usage: PYTHONPATH=<tree>/src notes/repro/F41_shell_constraint_ignored.sh   (not part of any check)
d=$(mktemp -d); cd "$d" || exit 2
printf '<start> ::= <n>\n<n> ::= <d><d>\n<d> ::= "0"|"1"|"2"|"3"|"4"|"5"|"6"|"7"|"8"|"9"\n' > n.fan
out=$(printf 'set -f n.fan\nfuzz -n 8 --random-seed 1 -c "int(<n>) > 90"\nexit\n' | PATH=/venv/bin:$PATH FANDANGO_DISABLE_UPDATE_CHECK=1 /venv/bin/fandango shell 2>/dev/null | grep -E '^[0-9]{2}$')
echo "$out"; rm -rf "$d"
for v in $out; do [ "$((10#$v))" -gt 90 ] || { echo "VIOLATES the -c constraint: $v"; exit 1; }; done
