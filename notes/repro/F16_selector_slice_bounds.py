import os
os.environ["FANDANGO_DISABLE_UPDATE_CHECK"]="1"
from fandango import Fandango
spec = """
<start> ::= <n> <n> <n> <n>
<n> ::= 'a' | 'b'
where str(<start>[:2]) == 'ab'
"""
f = Fandango(spec)
for c in f.constraints:
    print(c.format_as_spec())
    for k,v in c.searches.items(): print('  ', k, v.format_as_spec(), getattr(getattr(v,'inner',v),'slices',None))
print([str(t) for t in f.parse("abba")], [str(t) for t in f.parse("baab")])
