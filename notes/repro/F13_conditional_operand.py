import os
os.environ["FANDANGO_DISABLE_UPDATE_CHECK"]="1"
from fandango import Fandango
from fandango.language.parse.parse import parse
spec = """
<start> ::= <a> <b>
<a> ::= 'x' | 'y'
<b> ::= 'p' | 'q'
where str(<a>) if str(<b>) == 'p' else 'zzz' == 'x'
"""
try:
    f = Fandango(spec)
    for c in f.constraints:
        print(type(c).__name__, c.format_as_spec())
        for k in ('_left','_right','expression'):
            if hasattr(c,k): print('  ',k,'=',getattr(c,k))
except Exception as e:
    print("ERR", type(e).__name__, e)
