"""F32 (C08): the literal text of f-strings in embedded Python was rebuilt from token texts.

Run with PYTHONPATH=<tree>/src FANDANGO_DISABLE_UPDATE_CHECK=1 /venv/bin/python notes/repro/F32_fstring_literal_text.py
Before fix 429f9c2e every line below printed DIFF (blanks dropped, '{{' doubled, '=' dropped, raw prefix ignored) and the word 'b 7' was
rejected by a constraint it satisfies; after the fix all lines print OK.  Not part of any check (checks never run fandango).
"""
import fandango.language.parse.spec as S
from fandango import Fandango
from fandango.language.parse.parse import parse

BODY = '''
c = 7
s1 = f"a b {c} c d"
s2 = f"{c=}" + f"{c = }"
s3 = f"a{{b}}c{{"
s4 = rf"a\\n {c} \\d"
s5 = f"{c: >5}|{c:*^{c}}"
s6 = "x" f"{c} \\n" "y{{"
'''
orig = S.FandangoSpec.run_code
bad = 0


def run(self, *a, **k):
    global bad
    r = orig(self, *a, **k)
    exp: dict = {}
    exec(BODY, exp)
    for name in ("s1", "s2", "s3", "s4", "s5", "s6"):
        ok = self.global_vars.get(name) == exp[name]
        bad += not ok
        print(name, repr(self.global_vars.get(name)), repr(exp[name]), "OK" if ok else "DIFF")
    return r


S.FandangoSpec.run_code = run
parse(BODY + '<start> ::= "a"\n', use_stdlib=False, use_cache=False)
S.FandangoSpec.run_code = orig
f = Fandango('<start> ::= <a> " " <b>\n<a> ::= r"[a-c]"\n<b> ::= r"[0-9]"\nwhere f"<{<a>}  {<b>}>" == "<b  7>"\n')
n = len(list(f.parse("b 7")))
print("'b 7' parses:", n)
raise SystemExit(1 if bad or n != 1 else 0)
