import random, re
from fandango import Fandango
spec = '''
<start> ::= <n> ":" "a"{int(<n>)}
<n> ::= "1" | "2" | "3" | "4" | "5"
'''
bad = 0; tot = 0
for seed in range(1, 4):
    random.seed(seed)
    f = Fandango(spec)
    for t in f.fuzz(desired_solutions=30, population_size=30, max_generations=50):
        s = str(t); tot += 1
        m = re.fullmatch(r'([1-5]):(a*)', s)
        if not m or len(m.group(2)) != int(m.group(1)):
            bad += 1; print("BAD", s)
print(bad, tot)
