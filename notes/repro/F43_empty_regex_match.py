"""F43 (C05): a regex terminal that matches the empty string at its position is never advanced over.

scan_regex discards a full match when `match_length <= prev_match_length`; for a fresh item prev_match_length is 0, so a match of
length 0 is discarded.  The words below belong to the language (and the generator produces them: exrex.getone('a*') may return ''),
yet parse() yields no tree.

Run:  FANDANGO_DISABLE_UPDATE_CHECK=1 PYTHONPATH=/repo/src /venv/bin/python notes/repro/F43_empty_regex_match.py
Exit status 1 while the defect is present.

Why it is recorded and not repaired: the obvious repair (`if match and state.is_incomplete and match_length <= prev_match_length`)
makes these words parse, but a nullable regex under `+` / `*` (`<start> ::= <a>+ <c>`, `<a> ::= r'a*'`) then runs into the recorded
non-termination F3 (ParseState.__hash__ includes the children), and `(<a> 'x')* <a>` with `<a> ::= r'[ab]*'` still rejects 'xx'.
"""
import os
import re
import sys

os.environ["FANDANGO_DISABLE_UPDATE_CHECK"] = "1"
from fandango import Fandango  # noqa: E402

CASES = [
    ("<start> ::= <a> 'b'\n<a> ::= r'a*'\n", r"a*b", ["b", "ab"]),
    ("<start> ::= <a> <c>\n<a> ::= r'a*'\n<c> ::= r'b?'\n", r"a*b?", ["", "a", "b", "ab"]),
    ("<start> ::= <n> <s>\n<n> ::= r'[0-9]*'\n<s> ::= 'z'\n", r"[0-9]*z", ["z", "1z"]),
]
bad = 0
for spec, rx, words in CASES:
    f = Fandango(spec)
    for w in words:
        assert re.fullmatch(rx, w)
        got = next(iter(f.parse(w)), None) is not None
        print(f"{rx!r:12} {w!r:6} parsed={got}")
        bad += not got
sys.exit(1 if bad else 0)
