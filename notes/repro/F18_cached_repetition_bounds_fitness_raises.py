import random
from fandango.language.parse.parse import parse
spec = '''
<start> ::= <n> ":" <x>{int(<n>)}
<n> ::= "1" | "2" | "3" | "4" | "5"
<x> ::= "a" | "b"
'''
random.seed(1)
grammar, constraints = parse(spec, use_stdlib=False, use_cache=False)
c = constraints[0]
for i in range(50):
    t = grammar.fuzz()
    if not c.fitness(t).success:
        break
c.cache.clear()
print("tree", t)
f1 = c.fitness(t)
print("fresh:", f1, f1.success)
try:
    f2 = c.fitness(t)
    print("cached:", f2, f2.success)
except Exception as e:
    print("cached evaluation raised:", type(e).__name__, e)
import re, sys
ok = True
for name, fit in (("fresh", f1), ("cached", f2)):
    reps = fit.suggestion.get_replacements(t, grammar)
    new = t.replace_multiple(grammar=grammar, replacements=reps)
    s = str(new)
    m = re.fullmatch(r"([1-5]):([ab]*)", s)
    good = bool(m) and len(m.group(2)) == int(m.group(1))
    print(name, "repair ->", s, "ok" if good else "WRONG")
    ok = ok and good
sys.exit(0 if ok else 1)
