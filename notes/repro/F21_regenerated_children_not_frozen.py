import random, sys
from fandango.language.parse.parse import parse
spec = '''
<start> ::= <card>
<card> ::= <digit><digit><digit><digit> := add_check(str(<number>))
<number> ::= <digit><digit><digit> := strip_check(str(<card>))
<digit> ::= "0" | "1" | "2" | "3" | "4" | "5" | "6" | "7" | "8" | "9"

def strip_check(s):
    return s[:-1]

def add_check(s):
    return s + str(sum(int(c) for c in s) % 10)
'''
random.seed(1)
grammar, _ = parse(spec, use_stdlib=False, use_cache=False)
t = grammar.fuzz()
card = t.children[0]
print("fuzzed:", str(t), "children frozen:", [c.read_only for c in card.children], "source:", str(card.sources[0]))
src = card.sources[0]
while True:
    rep = grammar.fuzz("<number>")
    if str(rep) != str(src):
        break
new_t = t.replace_multiple(grammar, [(src, rep)])
ncard = new_t.children[0]
print("after source replaced:", str(new_t), "children frozen:", [c.read_only for c in ncard.children], "source:", str(ncard.sources[0]))
ok = all(c.read_only for c in ncard.children)
# a later edit of a regenerated digit must be refused
victim = ncard.children[-1]
other = grammar.fuzz("<digit>")
while str(other) == str(victim):
    other = grammar.fuzz("<digit>")
t3 = new_t.replace_multiple(grammar, [(victim, other)])
s = str(t3)
good = s[-1] == str(sum(int(c) for c in s[:-1]) % 10)
print("after editing the check digit directly:", s, "consistent" if good else "NOT generator output")
sys.exit(0 if ok and good else 1)
