"""F33 (C07, C08): placeholders were passed to eval() as *locals*; generator expressions and lambdas of the expression cannot see those.

Run with PYTHONPATH=<tree>/src FANDANGO_DISABLE_UPDATE_CHECK=1 /venv/bin/python notes/repro/F33_nested_scope_placeholders.py
Before the fix: '77' is rejected by `where all(int(str(<start>)[i]) > 5 for i in range(2))` (NameError printed, counted as failure) although the
expression is true for it; after the fix '77' is accepted and '17' rejected.  Not part of any check.
"""
from fandango import Fandango

bad = 0
for where in ("where all(int(str(<start>)[i]) > 5 for i in range(2))", "where (lambda: int(<start>) > 50)()"):
    f = Fandango('<start> ::= <d> <d>\n<d> ::= r"[0-9]"\n' + where + "\n")
    got = {w: len(list(f.parse(w))) for w in ("77", "17")}
    print(where, got)
    bad += got != {"77": 1, "17": 0}
raise SystemExit(1 if bad else 0)
