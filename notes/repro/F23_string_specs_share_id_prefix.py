import sys, re
from fandango import Fandango
s1 = "<start> ::= <a> <b>\n<a> ::= 'x'*\n"
s2 = "<b> ::= 'y'+ 'z'*\n"
f = Fandango([s1, s2])
ok = True
for w, member in (("xxy", True), ("yy", True), ("xxyz", True), ("yx", False)):
    trees = list(f.parse(w))
    got = bool(trees)
    good = got == member and all(str(t) == w and [str(c.symbol) for c in t.children] == ["<a>", "<b>"] for t in trees)
    print(repr(w), "expected", member, "parsed", got, [t.to_tree() if hasattr(t,'to_tree') else repr(t) for t in trees][:1], "ok" if good else "WRONG")
    ok = ok and good
import random
random.seed(1)
for t in f.fuzz(desired_solutions=10, population_size=10):
    s = str(t)
    good = re.fullmatch(r"x*y+z*", s) is not None
    if not good:
        print("fuzzed", repr(s), "is not in x*y+z*"); ok = False
sys.exit(0 if ok else 1)
