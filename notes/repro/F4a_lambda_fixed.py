import sys
from fandango.language.parse.parse import parse
CODE = '''
h = lambda: 5
inc = lambda x, by=2, *rest, scale=1, **kw: (x + by + len(rest)) * scale
pick = lambda a, b=3: a if a > b else b
R = (h(), inc(1), inc(1, 5, 7, 8, scale=2), pick(1), pick(9))
'''
g, cs = parse('<start> ::= "x"\n' + CODE, use_stdlib=False, use_cache=False)
env, _ = g.get_spec_env()
exp = {}
exec(CODE, exp)
print(env.get("R"), exp["R"])
sys.exit(0 if env.get("R") == exp["R"] else 1)
