from fandango.io.navigation.packetforecaster import PacketForecaster
from fandango.language.grammar import ParsingMode
from fandango.api import Fandango
spec='''
<start> ::= (<A:a> <B:b>)* <A:c>
<a> ::= "a"
<b> ::= "b"
<c> ::= "c"
'''
g = Fandango(spec, use_stdlib=False, use_cache=False).grammar
import sys
bad=0
for h, want in (("", {"<a>","<c>"}), ("a", {"<b>"}), ("ab", {"<a>","<c>"}), ("aba", {"<b>"})):
    fc = PacketForecaster(g)
    from fandango.language.tree import DerivationTree
    from fandango.language.symbols import NonTerminal
    tree = DerivationTree(NonTerminal("<start>")) if h=="" else g.parse(h, mode=ParsingMode.INCOMPLETE)
    pred = fc.predict(tree)
    got = {str(nt) for p in pred.get_msg_parties() for nt in pred.parties_to_packets[p].nt_to_packet}
    print(repr(h), sorted(got), sorted(want), "" if got==want else "  <-- differs")
    bad += got!=want
sys.exit(1 if bad else 0)
