import os, sys, signal
os.environ.pop("FANDANGO_RAISE_ALL_EXCEPTIONS", None)
os.environ["FANDANGO_DISABLE_UPDATE_CHECK"]="1"
from fandango.language.parse.parse import parse
def alarm(*a): raise TimeoutError()
signal.signal(signal.SIGALRM, alarm)
for spec, word in [("<start> ::= <a>*\n<a> ::= 'x'?\n", "xx"),
                   ("<start> ::= ('x'?)* \n", "x"),
                   ("<start> ::= ('x'?)+ 'y'\n", "xy"),
                   ("<start> ::= <a>+\n<a> ::= 'x'*\n", "xx"),
                   ("<start> ::= <a>{1,3}\n<a> ::= 'x'?\n", "xx"),
                   ]:
    g, c = parse(spec, use_cache=False, use_stdlib=False)
    signal.alarm(10)
    try:
        n = 0
        for t in g.parse_forest(word):
            n += 1
            if n > 50: break
        print(repr(spec), word, "trees:", n)
    except TimeoutError:
        print(repr(spec), word, "TIMEOUT (>10s)")
    finally:
        signal.alarm(0)
    signal.alarm(10)
    try:
        t = g.parse(word + "z")
        print("   reject:", t)
    except TimeoutError:
        print("   reject: TIMEOUT")
    finally:
        signal.alarm(0)
