import sys
from fandango.language.parse.parse import parse
spec = '''
<start> ::= <d>
<d> ::= "0"|"1"|"2"|"3"|"4"|"5"|"6"|"7"|"8"|"9"
where 2 < int(<d>) < 5
'''
g, cs = parse(spec, use_stdlib=False, use_cache=False)
c = cs[0]
print(type(c).__name__, getattr(c, "format_as_spec", lambda: "")())
bad = 0
for ch in "0123456789":
    t = g.parse(ch)
    got = c.check(t)
    want = 2 < int(ch) < 5
    print(ch, got, want, "" if got == want else "  <-- differs")
    bad += got != want
sys.exit(1 if bad else 0)
