"""F34-F39 (C15): printed constraints, selections, generators and bytes regexes could not be read back.

Run with PYTHONPATH=<tree>/src FANDANGO_DISABLE_UPDATE_CHECK=1 /venv/bin/python notes/repro/F34_F39_constraint_printing.py
Each case prints a spec (`str(FandangoSpec)`, what `fandango convert` emits), reads the text back and prints it again.
Before the fixes (tree 7b889b95): forall / exists -> REREAD-ERROR (F34), len(*<d>) -> `|*<d>|` REREAD-ERROR (F35), soft value -> `where minimizing`
REREAD-ERROR (F36), generator -> `str(int(...) * 2)` (F37: read back with the Ellipsis), `{*<d>}` -> printing raises, `(<s>[0])[1]` -> `<s>[0][1]`
REREAD-ERROR (F38), rb'[\\'"a]+' -> rb'[\\\\'"a]+' REREAD-ERROR (F39).  After the fixes every case prints `same text`.  Not part of any check.
"""
import os

os.environ["FANDANGO_DISABLE_UPDATE_CHECK"] = "1"
from fandango.language.parse.parse_spec import parse_content  # noqa: E402

G = '<start> ::= <d>+ <e>\n<d> ::= r"[0-9]"\n<e> ::= "x"\n'
CASES = {
    "F34 forall": G + "where forall <x> in <d>: int(<x>) > 3\n",
    "F34 exists": G + "where exists <x> in <start>.<d>: int(<x>) > 3\n",
    "F35 len(*)": G + "where len(*<d>) > 2\n",
    "F36 soft": G + "minimizing int(<start>.<d>)\n",
    "F37 generator": '<start> ::= <a> <b>\n<a> ::= r"[0-9]"\n<b> ::= r"[0-9]+" := str(int(<a>) * 2)\n',
    "F38 selective": G + "where str(<start>{*<d>: 0, *<e>}) != ''\n",
    "F38 item of item": G + "where str((<start>[0:2])[1]) != ''\n",
    "F39 rb both quotes": "<start> ::= rb'[\\'\"a]+'\n",
    "F39 rb backslashes": "<start> ::= rb'x\"\\\\\\'y'\n",
}
bad = 0
for name, spec in CASES.items():
    try:
        printed = str(parse_content(spec, filename="r.fan", use_cache=False))
    except Exception as e:  # noqa: BLE001
        print(f"{name}: PRINT-ERROR {type(e).__name__}: {e}")
        bad += 1
        continue
    last = printed.strip().splitlines()[-1]
    try:
        again = str(parse_content(printed, filename="r.fan", use_cache=False))
        ok = again == printed and "..." not in last
        print(f"{name}: {'same text' if ok else 'DIFFERENT'} | {last}")
        bad += not ok
    except Exception as e:  # noqa: BLE001
        print(f"{name}: REREAD-ERROR {type(e).__name__} | {last}")
        bad += 1
raise SystemExit(1 if bad else 0)
