"""F42 (C19/C20, also C15): PacketTruncator removed grammar nodes with list.remove() although NonTerminalNode.__eq__ compares the symbol only.

Run with PYTHONPATH=<tree>/src.  Before the fix the slice for Server is `<start> ::= <Client:Server:ping>` (its own ping removed, the client's kept);
after it `<start> ::= <Server:Client:ping>`.  Not part of any check.
"""
import os
os.environ["FANDANGO_DISABLE_UPDATE_CHECK"] = "1"
from fandango.language.parse.parse_spec import parse_content
SPEC = r"""
<start> ::= <Server:Client:ping> <Client:Server:ping> <Client:Server:bye>
<ping> ::= 'PING\n'
<bye> ::= 'BYE\n'
"""
for parties in (["Server"], ["Client"]):
    s = parse_content(SPEC, filename="t.fan", use_cache=False, parties=parties)
    print(parties, "=>", str(s).strip().splitlines()[0])
