import random, re
from fandango import Fandango
spec = '''
<start> ::= <n> ":" (<k> "=" <v> ";"){int(<n>)}
<n> ::= <digit>
<digit> ::= "1" | "2" | "3" | "4" | "5"
<k> ::= "a" | "b"
<v> ::= "x" | "y"
'''
bad = 0; tot = 0
for seed in range(1, 6):
    random.seed(seed)
    f = Fandango(spec)
    for t in f.fuzz(desired_solutions=30, population_size=30, max_generations=50) if hasattr(f,'fuzz') else []:
        s = str(t); tot += 1
        m = re.fullmatch(r'([1-5]):((?:[ab]=[xy];)*)', s)
        if not m or len(m.group(2)) != 4*int(m.group(1)):
            bad += 1; print("BAD", s)
print(bad, tot)
