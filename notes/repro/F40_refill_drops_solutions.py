#!/usr/bin/env python
"""
F40 (C03) - adapted from the demonstration a seeding agent wrote for its change C03-E: the only difference is the one-digit <c>, which makes
repaired candidates collide with population members.  Before fix 9c7923f1 the unchanged tree lost 73 of 150 satisfying trees.  Not part of any check.

C03 demo (A): every tree the search evaluates that satisfies all constraints must be
reported as a solution the first time it is seen.

The spec has ONE hard constraint, a disjunction with an equality in each branch:

    where <a> == "x" or <b> == "y"

A tree such as "x-r-123456" satisfies it (first branch), although its second branch
fails -- and the failing branch still contributes a repair suggestion (<b> := "y").

The demo builds the initial population through the public API and records every tree
that is handed to the evaluator.  It then checks, with a plain-Python oracle on the
produced string, that each evaluated tree that satisfies the constraint was reported.

Exit status 0: property holds.  Non-zero: a satisfying tree was evaluated, but never
reported.
"""
import os
import sys

os.environ.setdefault("FANDANGO_DISABLE_UPDATE_CHECK", "1")

from fandango import Fandango  # noqa: E402

SPEC = """
<start> ::= <a> "-" <b> "-" <c>
<a> ::= "x" | "q"
<b> ::= "y" | "r"
<c> ::= <digit>
<digit> ::= "0" | "1" | "2" | "3" | "4" | "5" | "6" | "7" | "8" | "9"

where <a> == "x" or <b> == "y"
"""


def satisfies(text: str) -> bool:
    """Oracle, independent of fandango's constraint machinery."""
    a, b, _c = text.split("-")
    return a == "x" or b == "y"


def run(seed: int) -> list[str]:
    fan = Fandango(SPEC, use_stdlib=False, use_cache=False)
    fan.init_population(population_size=20, random_seed=seed)
    strategy = fan.fandango
    assert strategy is not None
    evaluator = strategy.evaluator

    # record, in order, every tree the search evaluates
    evaluated: list = []
    original = evaluator.evaluate_individual

    def recording(individual):
        evaluated.append(individual)
        return (yield from original(individual))

    evaluator.evaluate_individual = recording  # type: ignore[method-assign]

    # max_generations=0: only the initial population is built (and evaluated)
    reported = {str(tree) for tree in fan.generate_solutions(max_generations=0)}

    # sanity: fandango's own verdict agrees with the oracle for every evaluated tree
    for tree in evaluated:
        verdict = all(c.check(tree) for c in fan.constraints)
        assert verdict == satisfies(str(tree)), (str(tree), verdict)

    seen_and_satisfying = {str(t) for t in evaluated if satisfies(str(t))}
    for text in sorted(reported):
        assert satisfies(text), f"reported a non-solution: {text}"
    missing = sorted(seen_and_satisfying - reported)
    print(
        f"seed {seed}: evaluated {len(evaluated)} trees, "
        f"{len(seen_and_satisfying)} satisfy the constraint, "
        f"{len(reported)} reported, {len(missing)} lost"
    )
    return missing


def main() -> int:
    lost: list[str] = []
    for seed in range(5):
        lost.extend(run(seed))
    if lost:
        print(
            "C03 VIOLATED: these trees satisfy every constraint, were evaluated by "
            "the search, and were never reported as solutions:"
        )
        for text in lost[:10]:
            print("   ", text)
        if len(lost) > 10:
            print(f"    ... and {len(lost) - 10} more")
        return 1
    print("C03 holds: every evaluated tree that satisfies the constraint was reported")
    return 0


if __name__ == "__main__":
    sys.exit(main())
