import sys
from fandango.language.parse.parse import parse
spec_tpl = '''
<start> ::= <item> ";" <item>
<item> ::= <d> <d>
<d> ::= "0"|"1"|"2"|"3"|"4"|"5"|"6"|"7"|"8"|"9"
where forall <x> in <item>: exists <d> in <x>..<d>: int(<d>) > 5
'''
def verdicts(lazy):
    g, cs = parse(spec_tpl, use_stdlib=False, use_cache=False, lazy=lazy)
    c = cs[0]
    out = {}
    for w in ("19;28", "19;22", "11;28", "91;82", "11;11"):
        t = g.parse(w)
        out[w] = c.check(t)
    return out
e, l = verdicts(False), verdicts(True)
bad = 0
for w in e:
    want = all(any(int(ch) > 5 for ch in item) for item in w.split(";"))
    print(w, "eager", e[w], "lazy", l[w], "expected", want, "" if e[w] == l[w] == want else "  <-- differs")
    bad += not (e[w] == l[w] == want)
sys.exit(1 if bad else 0)
