import sys
from fandango.language.parse.parse import parse
CODE = '''
def first(seq):
    a, = seq
    return a

class D:
    def __getitem__(self, k):
        return repr(k)

KEY = D()[1,]
t = 1,
FIRST = first([41])
'''
spec = '<start> ::= "x"\n' + CODE
g, cs = parse(spec, use_stdlib=False, use_cache=False)
env, _ = g.get_spec_env()
exp = {}
exec(CODE, exp)
bad = 0
for k in ("KEY", "t", "FIRST"):
    print(k, repr(env.get(k)), repr(exp[k]), "" if env.get(k) == exp[k] else "  <-- differs")
    bad += env.get(k) != exp[k]
sys.exit(1 if bad else 0)
