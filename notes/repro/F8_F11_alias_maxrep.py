import os, sys
os.environ.pop("FANDANGO_RAISE_ALL_EXCEPTIONS", None)
os.environ["FANDANGO_DISABLE_UPDATE_CHECK"]="1"
import logging
from fandango import Fandango
import fandango.language.grammar.nodes as nodes
from fandango.language.parse.parse import parse
print("MAX before", nodes.MAX_REPETITIONS)
A = Fandango("<start> ::= <d>*\n<d> ::= 'a' | 'b'\nwhere len(str(<start>)) > 40\n")
sols = A.fuzz(desired_solutions=2, max_generations=8, population_size=10)
print("A sols", len(sols), "MAX after A", nodes.MAX_REPETITIONS)

# aliasing of origin_repetitions through parse cache miss
spec = "<start> ::= <a>{2}\n<a> ::= <d>+ := '12'\n<d> ::= '1' | '2'\n"
g, c = parse(spec, use_cache=False, use_stdlib=False)
for i in range(3):
    t = g.fuzz()
    print([ (str(ch), ch.origin_repetitions) for ch in t.children])
