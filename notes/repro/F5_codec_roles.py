import os
os.environ["FANDANGO_DISABLE_UPDATE_CHECK"]="1"
from fandango.language.parse.parse import parse
g, c = parse("<start> ::= 'é' <b>{8}\n<b> ::= 0 | 1\n", use_cache=False, use_stdlib=False)
t = g.fuzz()
print(repr(t.to_bits()))
b = bytes(t); print("bytes:", b, "latin1-decoded:", repr(b.decode('latin-1')))
s = str(t); print("str  :", repr(s))
v = t.value(); s1 = str(v); b1 = bytes(v); print("same value object: str then bytes:", repr(s1), b1)
v = t.value(); b2 = bytes(v); s2 = str(v); print("same value object: bytes then str:", b2, repr(s2))
