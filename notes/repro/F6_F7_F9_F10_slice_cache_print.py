import os
os.environ.pop("FANDANGO_RAISE_ALL_EXCEPTIONS", None)
os.environ["FANDANGO_DISABLE_UPDATE_CHECK"]="1"
from fandango import Fandango
from fandango.language.parse.parse import parse
import fandango.language.grammar.nodes as nodes

# C10 slice re-parenting
g, c = parse("<start> ::= <a> <b> <c>\n<a> ::= 'a'\n<b> ::= 'b'\n<c> ::= 'c'\n", use_cache=False, use_stdlib=False)
t = g.parse("abc")
kids = list(t.children)
print("parents ok before:", all(k.parent is t for k in kids))
s = t[0:2]
print("parents ok after slice:", all(k.parent is t for k in kids), type(kids[0].parent).__name__)

# C12 truncated forest cache
g, c = parse("<start> ::= <a> | <b>\n<a> ::= 'x'\n<b> ::= 'x'\n", use_cache=False, use_stdlib=False)
first = g.parse("x")
print("forest after parse():", len(list(g.parse_forest("x"))))
g2, c = parse("<start> ::= <a> | <b>\n<a> ::= 'x'\n<b> ::= 'x'\n", use_cache=False, use_stdlib=False)
print("forest fresh:", len(list(g2.parse_forest("x"))))

# C15 printing
g, c = parse("<start> ::= ('a' 'b')* 'c'{2,} ('d' | 'e')+ ('f' 'g'){3}\n", use_cache=False, use_stdlib=False)
print(repr(g))
