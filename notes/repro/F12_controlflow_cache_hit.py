from fandango import Fandango
f = Fandango("<start> ::= <a>*\n<a> ::= 'x'\n")
g = f.grammar
a = list(g.parse_forest("xx", include_controlflow=True))
b = list(g.parse_forest("xx", include_controlflow=True))
print(len(a), len(b))
c = list(g.parse_forest("xxx"))
d = list(g.parse_forest("xxx"))
print(len(c), len(d))
