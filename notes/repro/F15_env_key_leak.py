import os
os.environ["FANDANGO_DISABLE_UPDATE_CHECK"]="1"
from fandango import Fandango
TEMPLATE = """
<start> ::= <{P}:msg>
<msg> ::= '{w}'
class {P}(FandangoParty):
    def __init__(self):
        super().__init__(connection_mode=ConnectionMode.OPEN)
    def send(self, message, recipient):
        pass
"""
def parties(f):
    g,_ = f.grammar.get_spec_env()
    return sorted(g["FandangoIO"].instance().parties.keys())
fa = Fandango(TEMPLATE.format(P="Alice", w="hello"))
print("A alone, as seen through A's environment:", parties(fa))
fb = Fandango(TEMPLATE.format(P="Bob", w="world"))
print("after loading B, A's environment sees   :", parties(fa))
print("B's environment sees                    :", parties(fb))
