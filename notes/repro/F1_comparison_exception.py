import os
os.environ.pop("FANDANGO_RAISE_ALL_EXCEPTIONS", None)
os.environ["FANDANGO_DISABLE_UPDATE_CHECK"]="1"
from fandango import Fandango
spec = """
<start> ::= <x>
<x> ::= 'abc' | 'de'
where int(<x>) == 5
"""
f = Fandango(spec)
sols = f.fuzz(desired_solutions=3, population_size=5, max_generations=5)
print("solutions:", [str(s) for s in sols])
for t in f.parse("abc"):
    print("parse accepted:", str(t))
spec2 = """
<start> ::= <x>
<x> ::= 'abc' | 'de'
where int(<x>) + 0 == 5 or False
"""
