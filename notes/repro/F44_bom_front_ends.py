"""F44 (C14, fixed in 287d3d3f): a spec starting with U+FEFF was accepted by the C++ front end and rejected by the Python one.
Run: PYTHONPATH=/repo/src /venv/bin/python notes/repro/F44_bom_front_ends.py  (prints accepted / rejected per front end)"""
import os, logging
os.environ["FANDANGO_DISABLE_UPDATE_CHECK"]="1"
import fandango
from fandango.language.parse.parse import parse
from fandango.logger import LOGGER
LOGGER.setLevel(logging.CRITICAL)
for name, spec in {"bom": '﻿<start> ::= "a"\n', "plain": '<start> ::= "a"\n'}.items():
    for fe in ("cpp", "python"):
        fandango.Fandango.parser = fe
        try:
            g, c = parse(spec, use_stdlib=False, use_cache=False)
            print(name, fe, "accepted", str(g).strip()[:60])
        except Exception as e:
            print(name, fe, "rejected", type(e).__name__, str(e)[:80])
