from fandango.language.parse.parse import parse
from fandango.language.grammar import ParsingMode
spec = '''
<start> ::= <bit>{4} | <bit>{8}
<bit> ::= 0 | 1
'''
grammar, _ = parse(spec, use_stdlib=False, use_cache=False)
def fresh():
    g, _ = parse(spec, use_stdlib=False, use_cache=False)
    return g
t4 = None; t8 = None
import random
random.seed(0)
for i in range(20000):
    t = grammar.fuzz()
    bits = t.to_bits()
    if len(bits) == 4 and bits == "0101": t4 = t
    if len(bits) == 8 and bits == "00000101": t8 = t
    if t4 is not None and t8 is not None: break
print(t4.to_bits(), t8.to_bits())
def forest(g, w):
    return [x.to_bits() for x in g.parse_forest(w)]
print("fresh t4:", forest(fresh(), t4))
print("fresh t8:", forest(fresh(), t8))
g = fresh()
print("same grammar t4 then t8:", forest(g, t4), forest(g, t8))
g = fresh()
print("same grammar t8 then t4:", forest(g, t8), forest(g, t4))
