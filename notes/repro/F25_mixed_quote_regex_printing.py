import sys
from fandango.language.parse.parse import parse
import re as _re
# regexes that contain both quote kinds; the single quote is bare, escaped (\') or preceded by an escaped backslash (\\')
cases = {
    "bare":      (r"""[a'"]+""",      ["a'", '"', "aa"], ["\\", "x"]),
    "escaped":   (r"""[a\'"]+""",     ["a'", '"', "'"], ["\\", "x", "2", "7"]),
    "backslash": (r"""[a\\'"]+""",    ["a'", "\\", '"'], ["x", "2", "7"]),
}
ok = True
for name, (rx, members, non_members) in cases.items():
    spec = "<start> ::= r'''" + rx + "'''\n"
    g1, _ = parse(spec, use_stdlib=False, use_cache=False)
    printed = "\n".join(f"{k.format_as_spec()} ::= {v.format_as_spec()}" for k, v in g1.rules.items() if not k.name().startswith("<_")) + "\n"
    g2, _ = parse(printed, use_stdlib=False, use_cache=False)
    for w in members + non_members:
        a, b = g1.parse(w) is not None, g2.parse(w) is not None
        if a != b:
            ok = False
            print(f"{name}: regex {rx!r} printed as {printed.strip()!r}: word {w!r} original={a} reread={b}")
print("round trip ok" if ok else "ROUND TRIP CHANGED THE LANGUAGE")
sys.exit(0 if ok else 1)
