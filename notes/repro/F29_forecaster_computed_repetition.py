from fandango.io.navigation.packetforecaster import PacketForecaster
from fandango.language.grammar import ParsingMode
from fandango.api import Fandango
spec='''
<start> ::= <A:cnt> <B:item>{int(<cnt>.<digit>)} <A:fin>
<cnt> ::= <digit>
<digit> ::= "1" | "2" | "3"
<item> ::= "i"
<fin> ::= "f"
'''
g = Fandango(spec, use_stdlib=False, use_cache=False).grammar
for h in ("2", "2i", "2ii"):
    try:
        tree = g.parse(h, mode=ParsingMode.INCOMPLETE)
        pred = PacketForecaster(g).predict(tree)
        print(repr(h), sorted(str(nt) for p in pred.get_msg_parties() for nt in pred.parties_to_packets[p].nt_to_packet))
    except Exception as e:
        print(repr(h), "raised", type(e).__name__, e)
