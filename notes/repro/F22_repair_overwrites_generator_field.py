import random, sys
from fandango import Fandango
spec = '''
<start> ::= <a> ";" <b>
<a> ::= <digit>+ := new_id()
<b> ::= <digit>
<digit> ::= "0" | "1" | "2" | "3" | "4" | "5" | "6" | "7" | "8" | "9"
where <a> == "42"

import random
ISSUED = set()
def new_id():
    v = str(random.randint(100, 999))
    ISSUED.add(v)
    return v
'''
random.seed(2)
f = Fandango(spec)
sols = f.fuzz(desired_solutions=5, population_size=10, max_generations=30)
issued = f.grammar._global_variables["ISSUED"] if hasattr(f.grammar, "_global_variables") else None
bad = 0
for t in sols:
    a = str(t.children[0])
    ok = a in issued
    print(str(t), "<a> =", a, "issued by the generator" if ok else "NEVER returned by the generator")
    bad += not ok
sys.exit(1 if bad else 0)
