import sys
from fandango.language.parse.parse import parse
spec = '''
<start> ::= <bit> b"a" <bit>{7}
<bit> ::= 0 | 1
'''
grammar, _ = parse(spec, use_stdlib=False, use_cache=False)
bad = 0
for w in (b"aX", b"a", b"aa", b"\xb0\xd8"):
    trees = list(grammar.parse_forest(w))
    for t in trees:
        try:
            out = t.to_bytes()
        except Exception as e:
            out = f"<cannot serialise: {type(e).__name__}: {e}>"
        print(w, "->", repr(out), "ok" if out == w else "NOT the input")
        bad += out != w
    if not trees:
        print(w, "-> rejected")
sys.exit(1 if bad else 0)
