import random, sys
from fandango import Fandango
from fandango.errors import FandangoParseError
spec = '''
<start> ::= "S" <item>
<item> ::= <digit><digit>
<digit> ::= "0" | "1" | "2" | "3" | "4" | "5" | "6" | "7" | "8" | "9"
where int(str(<item>)) % 7 == 0
'''
ok = True
# 1. individuals of the requested start symbol are accepted and only <item> trees are emitted
random.seed(3)
f = Fandango(spec, start_symbol="<item>")
try:
    sols = f.fuzz(desired_solutions=5, population_size=10, max_generations=20, initial_population=["21", "35"])
    print([(str(t.symbol), str(t)) for t in sols])
    ok = ok and all(str(t.symbol) == "<item>" for t in sols)
except FandangoParseError as e:
    print("valid <item> individuals rejected:", e); ok = False
# 2. words of <start> are not words of <item>: they must be rejected, not emitted
random.seed(3)
f = Fandango(spec, start_symbol="<item>")
try:
    sols = f.fuzz(desired_solutions=5, population_size=10, max_generations=20, initial_population=["S21", "S35"])
    print("accepted <start> words:", [(str(t.symbol), str(t)) for t in sols]); ok = False
except FandangoParseError as e:
    print("rejected as expected:", e)
sys.exit(0 if ok else 1)
