import os, ast
os.environ["FANDANGO_DISABLE_UPDATE_CHECK"]="1"
from fandango.language.parse.parse_tree import parse_tree
from fandango.language.parse.splitter import FandangoSplitter
from fandango.language.parse.convert import PythonProcessor
for spec in ["a=[1]\nx = [*a, 2]\n", "a=[1]\ny = (*a, 2)\n", "a=[1]\nz = {*a, 2}\n", "def f(a, b, /, c): return a\n", "d = {**{1:2}, 3:4}\n", "a=[1,2]\ndel (a[0], a[1])\n", "m = [[1,2],[3,4]]\nv = m[0][1:2]\n", "w = {1:2}[1,]\n" ]:
    tree = parse_tree("<t>", spec)
    sp = FandangoSplitter(filename="<t>", used_symbols=set())
    sp.visit(tree)
    code = PythonProcessor().get_code(sp.python_code)
    ast.fix_missing_locations(code)
    try:
        print(repr(spec), "->", repr(ast.unparse(code)))
    except Exception as e:
        print(repr(spec), "unparse error", type(e).__name__, e, ast.dump(code)[:300])
