import sys
from fandango.io.navigation.packetforecaster import PacketForecaster
from fandango.language.grammar import ParsingMode
from fandango.api import Fandango
spec='''
<start> ::= <A:cnt> <B:item>{1,int(<cnt>.<digit>)} <A:fin>
<cnt> ::= <digit>
<digit> ::= "1" | "2" | "3"
<item> ::= "i"
<fin> ::= "f"
'''
g = Fandango(spec, use_stdlib=False, use_cache=False).grammar
bad = 0
for h, want in (("1", ["<item>"]), ("1i", ["<fin>"]), ("2i", ["<fin>", "<item>"]), ("2ii", ["<fin>"])):
    tree = g.parse(h, mode=ParsingMode.INCOMPLETE)
    pred = PacketForecaster(g).predict(tree)
    got = sorted(str(nt) for p in pred.get_msg_parties() for nt in pred.parties_to_packets[p].nt_to_packet)
    print(repr(h), got, want, "" if got == want else "  <-- differs")
    bad += got != want
sys.exit(1 if bad else 0)
