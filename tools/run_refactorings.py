#!/venv/bin/python -S -I
"""False-alarm test: runs every check against behaviour-preserving refactorings stored under /verif/refactorings/<set>/NN.diff.

Each patch is applied alone to a scratch git worktree of /repo's HEAD (outside /repo and /verif, removed at the end); all checks are run
with --repo <scratch> --no-evidence.  A check that exits 1 on a refactoring raises a false alarm; one that exits 2 can no longer answer
(an anchor it needs was restructured).  Both are listed in refactorings/RESULTS.md.
"""

import concurrent.futures as cf
import json
import os
import subprocess
import sys
import tempfile

VERIF = os.path.dirname(os.path.dirname(os.path.abspath(__file__)))
PY = ["/venv/bin/python", "-S", "-I", os.path.join(VERIF, "tools/fdg_static/check.py")]


def run_check(pid: str, repo: str):
    p = subprocess.run(PY + [pid, "--repo", repo, "--no-evidence"], capture_output=True, text=True, cwd=VERIF)
    lines = [ln.strip() for ln in p.stdout.splitlines() if (ln.startswith("  R") and " in " in ln) or "ANALYSIS-ERROR" in ln]
    return pid, p.returncode, lines


def main() -> int:
    man = json.load(open(os.path.join(VERIF, "MANIFEST.json")))
    pids = [c["property_id"] for c in man["checks"]]
    base = os.path.join(VERIF, "refactorings")
    patches = []
    only = sys.argv[1:]
    for s in sorted(os.listdir(base), key=lambda x: (len(x), x)):
        d = os.path.join(base, s)
        if os.path.isdir(d) and (not only or s in only):
            patches += [(s, f) for f in sorted(os.listdir(d)) if f.endswith(".diff")]
    scratch = tempfile.mkdtemp(prefix="refcheck_")
    wt = scratch + "/wt"
    subprocess.run(["git", "-C", "/repo", "worktree", "add", "-q", "--detach", wt, "HEAD"], check=True)
    rows = []
    try:
        for s, f in patches:
            subprocess.run(["git", "-C", wt, "checkout", "-q", "--", "."], check=True)
            ap = subprocess.run(["git", "-C", wt, "apply", os.path.join(base, s, f)], capture_output=True, text=True)
            if ap.returncode != 0:
                ap = subprocess.run(["git", "-C", wt, "apply", "-3", os.path.join(base, s, f)], capture_output=True, text=True)
                subprocess.run(["git", "-C", wt, "reset", "-q"])
            if ap.returncode != 0:
                rows.append((s, f, "does not apply", "", ""))
                continue
            with cf.ThreadPoolExecutor(max_workers=16) as ex:
                res = list(ex.map(lambda p: run_check(p, wt), pids))
            alarms = [r for r in res if r[1] == 1]
            errors = [r for r in res if r[1] == 2]
            rows.append((s, f, "silent" if not alarms and not errors else "ALARM" if alarms else "cannot answer",
                         ",".join(r[0] for r in alarms) + (" exit 2: " + ",".join(r[0] for r in errors) if errors else ""),
                         "; ".join(x[:200] for r in alarms + errors for x in r[2][:1])))
            print(s, f, rows[-1][2], rows[-1][3], flush=True)
    finally:
        subprocess.run(["git", "-C", "/repo", "worktree", "remove", "--force", wt])
        subprocess.run(["rm", "-rf", scratch])
    if only and os.path.exists(os.path.join(base, "RESULTS.md")):
        # a partial run replaces the rows of the sets it was given and keeps the others
        keep = []
        for line in open(os.path.join(base, "RESULTS.md")):
            cells = [c.strip() for c in line.rstrip().strip("|").split(" | ")] if line.startswith("| RF") else []
            if len(cells) >= 3 and cells[0] not in only:
                keep.append(tuple((cells + ["", ""])[:5]))
        rows = sorted(keep + rows, key=lambda r: (len(r[0]), r[0], r[1]))
    with open(os.path.join(base, "RESULTS.md"), "w") as fh:
        fh.write("# Behaviour-preserving refactorings vs. checks (written by tools/run_refactorings.py)\n\n")
        fh.write("| set | patch | verdict | checks | first line |\n|---|---|---|---|---|\n")
        for r in rows:
            fh.write("| " + " | ".join(str(x).replace("|", "\\|") for x in r) + " |\n")
        n = len(rows)
        fh.write(f"\n{sum(1 for r in rows if r[2] == 'silent')} of {n} silent, {sum(1 for r in rows if r[2] == 'ALARM')} false alarm(s), "
                 f"{sum(1 for r in rows if r[2] == 'cannot answer')} where a check could not answer (exit 2).\n")
    return 0


if __name__ == "__main__":
    sys.exit(main())
