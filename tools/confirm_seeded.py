#!/venv/bin/python -S -I
"""Confirms a seeded change delivered by a sub-agent and stores it under /verif/seeded/<id>/.

usage: confirm_seeded.py <delivery dir with patch.diff, demo.py, meta.json> <id> [--suite]

In a scratch git worktree of /repo's HEAD (outside /repo and /verif; removed at the end):
  1. demo on the clean tree           -> must exit 0
  2. `git apply patch.diff`           -> must apply
  3. every module under src/ compiles and `import fandango` works
  4. demo on the patched tree         -> must exit non-zero
  5. (--suite) the project's test suite on the patched tree -> must pass (flaky tests re-run alone)
The result is written into meta.json under "confirmation".
"""

import json
import os
import re
import shutil
import subprocess
import sys
import tempfile

VERIF = os.path.dirname(os.path.dirname(os.path.abspath(__file__)))
SO = "/venv/lib/python3.12/site-packages/fandango/language/parser/sa_fandango_cpp_parser.so"
FLAKY = ["test_io_smtp_inputs", "test_soliloquy"]


def env_for(wt):
    e = dict(os.environ)
    e.update({"FANDANGO_DISABLE_UPDATE_CHECK": "1", "PYTHONHASHSEED": "0", "PATH": "/venv/bin:" + e.get("PATH", ""), "PYTHONPATH": wt + "/src"})
    return e


def run_demo(wt, demo_rel):
    if demo_rel.endswith("_test.py"):
        cmd = ["/venv/bin/python", "-m", "pytest", "-q", "-p", "no:cacheprovider", demo_rel]
    else:
        cmd = ["/venv/bin/python", demo_rel]
    try:
        p = subprocess.run(cmd, cwd=wt, env=env_for(wt), capture_output=True, text=True, timeout=900)
        return p.returncode, (p.stdout + p.stderr)[-1500:]
    except subprocess.TimeoutExpired:
        return 124, "timeout after 900 s"


def main() -> int:
    src, sid = sys.argv[1], sys.argv[2]
    suite = "--suite" in sys.argv
    meta = json.load(open(os.path.join(src, "meta.json")))
    demo = "demo.py" if os.path.exists(os.path.join(src, "demo.py")) else "demo_test.py"
    scratch = tempfile.mkdtemp(prefix="seedconfirm_")
    wt = scratch + "/wt"
    subprocess.run(["git", "-C", "/repo", "worktree", "add", "-q", "--detach", wt, "HEAD"], check=True)
    conf = {"repo_head": subprocess.run(["git", "-C", "/repo", "rev-parse", "HEAD"], capture_output=True, text=True).stdout.strip()}
    ok = False
    try:
        shutil.copy(SO, wt + "/src/fandango/language/parser/")
        sub = sid.split("-")[-1]
        os.makedirs(f"{wt}/SEEDED/{sub}")
        for f in os.listdir(src):
            if os.path.isfile(os.path.join(src, f)) and not f.endswith(".log"):
                shutil.copy(os.path.join(src, f), f"{wt}/SEEDED/{sub}/{f}")
        # helper files shared by both demos of one agent live next to the A/ B/ directories (or, once stored, in _shared/)
        for shared in (os.path.dirname(os.path.abspath(src)), os.path.join(src, "_shared")):
            if os.path.isdir(shared) and os.path.basename(shared) in ("SEEDED", "_shared"):
                for f in os.listdir(shared):
                    if os.path.isfile(os.path.join(shared, f)) and f.endswith((".py", ".fan", ".txt", ".json")):
                        shutil.copy(os.path.join(shared, f), f"{wt}/SEEDED/{f}")
        demo_rel = f"SEEDED/{sub}/{demo}"
        rc0, out0 = run_demo(wt, demo_rel)
        conf["demo_clean_exit"] = rc0
        ap = subprocess.run(["git", "-C", wt, "apply", os.path.join(src, "patch.diff")], capture_output=True, text=True)
        conf["patch_applies"] = ap.returncode == 0
        if ap.returncode != 0:
            conf["error"] = ap.stderr[-400:]
        else:
            cp = subprocess.run(["/venv/bin/python", "-m", "compileall", "-q", "src/fandango"], cwd=wt, env=env_for(wt), capture_output=True, text=True)
            im = subprocess.run(["/venv/bin/python", "-c", "import fandango, fandango.api, fandango.evolution.algorithm, fandango.io.navigation.packetforecaster; print(fandango.__file__)"],
                                cwd=wt, env=env_for(wt), capture_output=True, text=True)
            conf["compiles"] = cp.returncode == 0 and im.returncode == 0 and wt in im.stdout
            rc1, out1 = run_demo(wt, demo_rel)
            conf["demo_patched_exit"] = rc1
            conf["demo_patched_tail"] = out1[-600:]
            if suite:
                p = subprocess.run(["/venv/bin/python", "-m", "pytest", "-q", "-p", "no:cacheprovider", "-n", "10", "--timeout=900", "tests"],
                                   cwd=wt, env=env_for(wt), capture_output=True, text=True)
                tail = p.stdout.strip().splitlines()[-1] if p.stdout.strip() else ""
                failed = re.findall(r"^(?:FAILED|ERROR) (\S+)", p.stdout, re.M)
                conf["suite"] = tail
                conf["suite_failed"] = failed
                if failed and len(failed) <= 8:
                    # timing-dependent tests fail under load whatever the patch: a failed test counts only if it also fails when run alone (two attempts)
                    still = failed
                    for attempt in (1, 2):
                        p2 = subprocess.run(["/venv/bin/python", "-m", "pytest", "-q", "-p", "no:cacheprovider", "--timeout=900"] + still,
                                            cwd=wt, env=env_for(wt), capture_output=True, text=True)
                        conf[f"rerun_alone_{attempt}"] = p2.stdout.strip().splitlines()[-1] if p2.stdout.strip() else ""
                        still = re.findall(r"^(?:FAILED|ERROR) (\S+)", p2.stdout, re.M)
                        if p2.returncode == 0 or not still:
                            break
                    conf["still_failing_alone"] = still
                    if still and all(any(fl in f for fl in FLAKY) for f in still):
                        # socket-timeout tests: compare with the clean tree under the same load
                        subprocess.run(["git", "-C", wt, "apply", "-R", os.path.join(src, "patch.diff")], check=True)
                        p3 = subprocess.run(["/venv/bin/python", "-m", "pytest", "-q", "-p", "no:cacheprovider", "--timeout=900"] + still,
                                            cwd=wt, env=env_for(wt), capture_output=True, text=True)
                        clean_fail = re.findall(r"^(?:FAILED|ERROR) (\S+)", p3.stdout, re.M)
                        conf["same_tests_on_clean_tree_now"] = p3.stdout.strip().splitlines()[-1] if p3.stdout.strip() else ""
                        subprocess.run(["git", "-C", wt, "apply", os.path.join(src, "patch.diff")], check=True)
                        still = [t for t in still if t not in clean_fail]
                        conf["failing_only_with_patch"] = still
                    conf["suite_ok"] = not still
                else:
                    conf["suite_ok"] = p.returncode == 0
            ok = rc0 == 0 and rc1 != 0 and conf["compiles"] and (not suite or conf["suite_ok"])
    finally:
        subprocess.run(["git", "-C", "/repo", "worktree", "remove", "--force", wt])
        shutil.rmtree(scratch, ignore_errors=True)
    conf["confirmed"] = ok
    print(sid, json.dumps(conf, indent=1))
    if ok or "--keep" in sys.argv:
        dst = os.path.join(VERIF, "seeded", sid)
        os.makedirs(dst, exist_ok=True)
        for f in os.listdir(src):
            if os.path.isfile(os.path.join(src, f)) and not f.endswith(".log") and f != "meta.json" and os.path.abspath(src) != os.path.abspath(dst):
                shutil.copy(os.path.join(src, f), dst)
        parent = os.path.dirname(os.path.abspath(src))
        if os.path.basename(parent) == "SEEDED":
            extra = [f for f in os.listdir(parent) if os.path.isfile(os.path.join(parent, f)) and f.endswith((".py", ".fan", ".txt"))]
            if extra:
                os.makedirs(os.path.join(dst, "_shared"), exist_ok=True)
                for f in extra:
                    shutil.copy(os.path.join(parent, f), os.path.join(dst, "_shared"))
        old = {}
        if os.path.exists(os.path.join(dst, "meta.json")):
            old = json.load(open(os.path.join(dst, "meta.json"))).get("confirmation", {})
        if not suite and "suite" in old:  # keep an earlier suite result for the same patch
            for k in ("suite", "suite_failed", "suite_ok", "rerun_alone_1", "rerun_alone_2", "still_failing_alone"):
                if k in old:
                    conf[k] = old[k]
        meta["confirmation"] = conf
        meta["demo_cmd_generic"] = f"cd <worktree with patch applied> && FANDANGO_DISABLE_UPDATE_CHECK=1 PYTHONHASHSEED=0 PATH=/venv/bin:$PATH PYTHONPATH=$PWD/src /venv/bin/python <this dir>/{demo}"
        with open(os.path.join(dst, "meta.json"), "w") as fh:
            json.dump(meta, fh, indent=1)
            fh.write("\n")
    return 0 if ok else 1


if __name__ == "__main__":
    sys.exit(main())
