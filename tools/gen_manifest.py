#!/venv/bin/python -S -I
"""Writes /verif/MANIFEST.json from the table below (one place to keep it consistent)."""

import json
import os
import sys

VERIF = os.path.dirname(os.path.dirname(os.path.abspath(__file__)))
PY = "/venv/bin/python -S -I"

CLAIMED = {
    "C01": ("partial: structural necessary conditions of 'every generated tree is a derivation from the requested start symbol' - substitution guard "
            "(path, same symbol, target not read-only), default-off grammar-deviating generation, repetition-count provenance, repair under the target's symbol, "
            "nodes located by reference, repetition tags read for the same nodes they are written for, no parse/fuzz under the default start symbol, no caller swallows exceptions raised inside the unprotected surgery bracket of the repetition repair, a generator's subtree is the parse result of its value, a node installed by replace_multiple inherits parent link and repetition tags",
            "CFG dominance + def-use provenance + settings-table cross-check + writer/reader domain agreement + who-passes-what at call sites", "§3/C01, §9.2"),
    "C02": ("error/emission discipline behind 'emitted solutions satisfy every hard constraint': every evaluator yield lies behind the "
            "acceptance test, raising evaluations record failures on all handler paths (evaluator and constraint level) and cannot shrink the divisor, every value the "
            "COMPLETE-mode pipeline yields originates from an evaluator yield, padding only under best_effort; in exact rational arithmetic the "
            "threshold operand is a convex combination of the class means with positive weights; a comparison that does not hold never scores 1.0 in float arithmetic; quantifier bindings (scope, local variables) are forwarded to every constraint / search method that takes them, replaced nodes keep their repetition tags, selector errors are never turned into 'no match', cli commands consume the constraint options with and without -f, constraints are evaluated in one namespace in which the variables bound for the evaluation override the spec's globals",
            "CFG path queries (must-pass-through, handler-to-backedge), accumulator classification, emission-provenance fixpoint over generators, "
            "rational and closed-interval abstract interpretation", "§3/C02, §9.2"),
    "C03": ("decides the property's arithmetic clause for all (h, r) at once: under 'every per-constraint fitness is 1.0' the value compared "
            "with the acceptance threshold is exactly 1.0 and the comparison accepts equality; a holding comparison scores exactly 1.0; a tree is marked as reported only together with its yield, and every caller of the search pipeline forwards the evaluator's yields on every path (no drop, no overwrite, stored yields flushed unconditionally)",
            "abstract interpretation in an exactness domain {ONE, INT(linear form), ROUNDED} with loop and call summaries; interval interpretation of the scoring helper", "§3/C03, §9.2"),
    "C04": ("partial: API filter, helper-symbol containment, error discipline, visitor exhaustiveness, scanner leaves = input slices with a "
            "column advance that matches the consumed length, complete mode accepts only complete matches, the forest memo key covers mode/start/word, "
            "helper-rule ids are unique across merged specs, byte scanners run at byte-aligned columns only, the memo behind the API filter's verdicts distinguishes bindings, no decorator memo on the matching path misses an input, helpers do not write into the session defaults (start symbol) they are lent",
            "control dependence of yields, writer/reader prefix tables, who-may-call, sibling cross-check, key-construction tracing, chain-of-custody of the id prefix", "§3/C04, §9.2"),
    "C05": ("partial: two necessary conditions of the round trip only - (a) every byte-aligned scanner of the incremental parser advances a fresh item over a successful full match of "
            "length 0 (the generator can instantiate r'a*' with the empty string), (b) a bytes regex is expanded through one bijective single-byte codec, the same for decoding the "
            "pattern and encoding the instance; that every word of the language is accepted (agreement of exrex with re/regex, completeness of the Earley closure) is not decided",
            "constant propagation over the scanner's statements from the abstract entry state {fresh item, full match, length 0} with forking on unknown tests; "
            "constant resolution of the codec arguments of the sibling decode / encode calls", "§3/C05, §5, §9.2"),
    "C06": ("the state-identity argument of Earley termination plus two progress clauses: items admitted to a column have a finite, hash/eq-consistent identity, the "
            "de-duplication cannot be bypassed, the column index strictly advances, a completed scan must have consumed input (unconditional no-progress rejection), "
            "the upward walk of construct_incomplete_tree takes the earliest waiting item, every item is completed in its own turn of the column loop (armed while the item identity is not finite)",
            "field-set derivation from __hash__/__eq__ + annotation domains, who-may-write, CFG loop-variant query, guard-conjunct check, first-match idiom recognition", "§3/C06, §9.2"),
    "C07": ("partial: operator tables, raising combination = failure, vacuous truth, lazy == eager, inversion duality, selector dispatch, memo keys distinguish bindings, "
            "constant-index grammar accessors only where the slot is fixed, a failing comparison never scores as satisfied, quantifier bindings are forwarded and written only into dictionaries the quantifier built itself, expressions are evaluated in one namespace (matches visible in generator expressions / lambdas), node values handed to constraints are not memoised mutable objects",
            "three-way table agreement (lexer literals / converter / Comparison), accumulator obligations on CFG paths, sibling cross-checks, grammar-alternative analysis of ctx.X(k)", "§3/C07, §9.2"),
    "C08": ("'never silently altered or dropped': every parser rule that can reach the translator's default child-aggregator is transparent, "
            "every operator token maps to CPython's own operator class through the handler's own branch, literals are decoded by Python's evaluator, parameter kinds feed the right ast.arguments field, "
            "ordinal accessors are slot-safe, comparison chains absorbed by an operand are re-joined, a trailing comma makes a tuple, executed text inherits no __future__ flag of the executing module, "
            "f-string text is read from the input stream, optional keyword / operator tokens are consulted, spec text is evaluated in one namespace",
            "dispatch-coverage analysis over the ANTLR grammar and the visitor classes; operator table vs ast._Unparser", "§3/C08, §9.2"),
    "C09": ("partial: codec roles never cross (so str/bytes/bits views agree and do not depend on request order), value payloads are never "
            "mutated behind shared references, value() is an in-order left fold without caching, the bit view has exactly eight characters per byte for every length, TreeValue.append never drops the left operand's pending bits",
            "role-typed flow check over call sites, who-may-write, return-freshness, fold-shape check, length-domain evaluation of the bit rendering", "§3/C09, §9.2"),
    "C10": ("purity of read-only accessors and of operators w.r.t. their input trees (every witness chain), invalidation completeness and writer discipline for memoised fields, identity "
            "fields, copy completeness, positions looked up by reference, symbol hashes carry the symbol kind, decorator memos on tree accessors are keyed by everything they read",
            "interprocedural ownership/effect analysis (regions, links, dispatch, save/restore brackets) + CFG post-dominance", "§3/C10, §9.2"),
    "C11": ("partial: memo keys cover every input of the miss path and distinguish bindings, are computed before scopes are mutated, hit paths return copies, what a hit deep-copies is copyable "
            "(type closure clear of spec globals), lists extended in place come from per-call builders, node-level memos handed out by reference are immutable, quantifiers bind only into dictionaries they own, memoised fitness methods read no re-bindable module state, symbol hashes carry the kind, decorator memos reachable from an evaluation are keyed by everything they read, the evaluator asks every constraint on every evaluation, no constraint is duplicated by a shallow copy",
            "memo-idiom recognition, def-use key slicing, CFG ordering, field-type-graph reachability, return-freshness", "§3/C11, §9.2"),
    "C12": ("the cache protocol behind history-independent parsing: publish after completion, served trees share nothing with the memo, "
            "hit path == miss path, per-parse state reset, the key covers every input of the producer (recognised through helper methods as well), values memoised on symbols / grammar nodes / converters do not depend on inputs their slot or key does not cover (decorator memos, key objects compared by fewer fields than the value reads, state set from outside), the clean-up of an abandoned parse generator writes no shared state",
            "CFG reachability incl. generator-abandonment edges, reaching definitions, effect summaries, partial evaluation on boolean parameters, key-construction tracing", "§3/C12, §9.2"),
    "C14": ("partial: both front ends embed the same serialized automaton and token tables and agree with the .g4 sources; every lexer hook "
            "exists on both sides with the same state update; the hand-written layout algorithm (NEWLINE/INDENT/DEDENT decisions, indentation arithmetic) agrees between "
            "FandangoLexerBase.cpp and FandangoLexerBase.py, and so does the end-of-input block of nextToken() (position, condition, emitted tokens); what the C++ input stream removes from the text (a leading byte order mark) is removed before the front ends part",
            "table extraction from generated .py (ast) and .cpp (tokenizer) + grammar reader + a reader for the C++ subset of the lexer base class with a canonical form shared with Python's ast", "§3/C14, §9.2"),
    "C15": ("grouping and bounds survive printing: postfix operands print at symbol level for every class that can occupy the field, "
            "printers read no re-bindable module state, literals are printed by repr / read by eval, regex source is rewritten only escape-aware, no printer is memoised by a key that misses what it reads, "
            "what the printers of searches and constraints emit is derivable from the reader's grammar for every class the reader can put into each field, expression text is printed through its placeholder map",
            "abstract interpretation of format_as_spec over string shapes against the precedence read from FandangoParser.g4; purity closure; structure of substitution patterns (re._parser); "
            "symbolic evaluation of printers to token templates + abstract interpretation of the reader over class sets + Earley recognition of sentential forms of the g4 grammar", "§3/C15, §9.2"),
    "C16": ("partial: generator output is sealed at every Grammar.generate site before it is attached or returned, a misfit raises, regeneration or source clearing on every replaced-source "
            "path (a swallowed failure of the regeneration counts as a skipped one), operators pick only writable targets, the substitution guard protects the replaced node, the read-only mark is removed only from fresh trees, parsed text is not installed "
            "into generator symbols (known finding), generator output is never memoised",
            "CFG must-pass-through, guard conjunct check, provenance of candidate lists, freshness of unsealed receivers", "§3/C16, §9.2"),
    "C17": ("inventory of non-reproducible sources (time, uuid, id(), os.urandom, unordered iteration over elements whose hash depends on identity - directly or through a hashed attribute) reachable "
            "from the public API; each frozen with its reason, seed dominates first draw, the seed is tested for presence and never for truth (if / or / not / conditional expression) on its way from the command line",
            "call-graph reachability + taint to control decisions + class-table hash classification + guard-shape check", "§3/C17, §9.2"),
    "C18": ("inventory of state that outlives an instance (module globals re-bound from functions, class-level containers, mutable defaults, default arguments that are objects with written fields) "
            "with writer and reader both reachable from the public API; helpers of the command layer do not write into the module-level defaults they are lent",
            "who-writes/who-reads over the call graph", "§3/C18, §9.2"),
    "C19": ("partial: discipline of the walk that computes the options - every node kind handled, position stacks balanced on all paths and restored when an alternative is abandoned, "
            "all alternatives explored, repetition rounds offered exactly while count < max and left exactly when count >= min, message nonterminals offered only while exploring, "
            "forecasts of all partial derivations united, completion only for complete derivations, the repetition decision executed over small integers against its specification, "
            "no index into a sequence proved empty, computed bounds linked to their repetition node, converter memos keyed by all inputs, no removal from a list while iterating it; "
            "the equivalence with the message language itself is not decided",
            "visitor exhaustiveness + stack-depth dataflow over the CFG + canonical-form comparison of bound tests + branch/return shape checks", "§5, §9.2"),
    "C20": ("partial: lock discipline on the receive buffer, thread-side effects append-only, atomic in-order queuing, acceptance discipline "
            "of _generate_io, the recorded history is sealed before a packet is mounted on it, the buffer is trimmed to the accepted parse's own fragment index, the fragment scanner is given the receive buffer position by position and returns positions of it, a re-parsed history is adopted only if type, sender and recipient of every message agree, per-message state of the protocol evaluator is emptied on every path when the next message starts, grammar nodes are removed by identity when the protocol is cut down to parties",
            "AST region check + call-graph reachability from thread entries + CFG path queries + def-use provenance", "§3/C20, §9.2"),
}

NOT_APPLICABLE = {
    "C13": "equality of parse sets across all fragmentations is arithmetic on runtime offsets of incomplete terminals; only constant-equality proxies would be checkable and those are brittle; a rule set about the state carried between fragments was built and rejected because 6 of its 7 breaking variants leave the parse sets of all fragmentations unchanged, i.e. the clauses are not necessary conditions (DESIGN §5, notes/rejected/)",
}

NOT_BUILT_YET = "rules designed in DESIGN.md §3 but the check is not built yet; not claimed until it exists and is silent on the repaired tree"


def main() -> int:
    built = sorted(f[:-3].upper() for f in os.listdir(os.path.join(VERIF, "tools", "fdg_static", "rules")) if f.startswith("c") and f[1:3].isdigit() and f.endswith(".py"))
    checks = []
    for pid in built:
        if pid not in CLAIMED:
            continue
        text, tech, ref = CLAIMED[pid]
        checks.append({
            "property_id": pid,
            "quick_cmd": f"{PY} tools/fdg_static/check.py {pid} --tier quick",
            "thorough_cmd": f"{PY} tools/fdg_static/check.py {pid} --tier thorough",
            "evidence_file": f"evidence/{pid}.json",
            "replay_cmd_template": f"{PY} tools/fdg_static/check.py {pid} --tier quick  # the finding is re-derived from source; {{path}} holds its description",
            "engine": "fdg_static",
            "level_claimed": {
                "category": "other",
                "text": "static necessary-condition rules over all code paths of the anchored functions: " + text,
                "design_ref": ref,
            },
            "level_note": "decides the structural clause(s) named above, not the whole behavioural property; trusted base: CPython's ast, the engine's "
                          "CFG/call-graph/effect models of Python semantics (dynamic features modelled by explicit tables), the .g4 files as the reader's definition",
            "technique": "static analysis: " + tech,
        })
    na = [{"property_id": k, "reason": v} for k, v in sorted(NOT_APPLICABLE.items())]
    for pid in sorted(CLAIMED):
        if pid not in built:
            na.append({"property_id": pid, "reason": NOT_BUILT_YET})
    na.sort(key=lambda d: d["property_id"])
    manifest = {
        "version": 1,
        "setup_cmd": f"{PY} tools/fdg_static/setup_check.py",
        "hooks": {
            "guard": "FANDANGO_FUZZER_FANDANGO_VERIF",
            "enable": "none needed: the checks read /repo's working tree as source text and never import or run it; no hook commits exist",
            "baseline_off_cmd": "cd /repo && /venv/bin/python -m pytest -ra -q -p no:cacheprovider --timeout=900 --continue-on-collection-errors",
            "source_commits": [],
            "add_only": True,
        },
        "engines": [{
            "name": "fdg_static",
            "path": "tools/fdg_static",
            "serves_properties": [c["property_id"] for c in checks],
            "kind_free_text": "repository-specific static analysis: source index + class table + annotation-driven types + call graph + statement CFG "
                              "with exception/abandonment edges + reaching definitions + ownership/effect summaries + small abstract interpretations + ANTLR grammar reader",
        }],
        "checks": checks,
        "not_applicable": na,
        "notes": "All checks run as `/venv/bin/python -S -I` (stdlib only, site-packages off) and analyse /repo's current working tree. exit 0 = held "
                 "(KNOWN-FINDING lines for entries of known_findings.json), exit 1 = VIOLATION, exit 2 = ANALYSIS-ERROR (anchor vanished / vacuity guard). "
                 "Fix commits in /repo are listed in known_findings.json under `fixed`. The thorough tier adds the mutant self-test.",
    }
    with open(os.path.join(VERIF, "MANIFEST.json"), "w") as fh:
        json.dump(manifest, fh, indent=1)
        fh.write("\n")
    print(f"MANIFEST.json: {len(checks)} checks, {len(na)} not applicable / not built")
    return 0


if __name__ == "__main__":
    sys.exit(main())
