#!/venv/bin/python -S -I
"""Runs the quick checks against every confirmed seeded change under /verif/seeded/<id>/.

Each patch is applied to a scratch git worktree of /repo's HEAD (outside /repo and /verif, removed at
the end); all checks are run with --repo <scratch> --no-evidence; the result table is written to
/verif/seeded/RESULTS.md.  A seeded change counts as caught when the check of the property it breaks
exits 1 with a VIOLATION that the unpatched tree does not produce.
"""

import concurrent.futures as cf
import json
import os
import subprocess
import sys
import tempfile

VERIF = os.path.dirname(os.path.dirname(os.path.abspath(__file__)))
PY = ["/venv/bin/python", "-S", "-I", os.path.join(VERIF, "tools/fdg_static/check.py")]


def run_check(pid: str, repo: str):
    p = subprocess.run(PY + [pid, "--repo", repo, "--no-evidence"], capture_output=True, text=True, cwd=VERIF)
    viol = [ln for ln in p.stdout.splitlines() if ln.startswith("  R") and ":" in ln and " in " in ln]
    return pid, p.returncode, viol, [ln for ln in p.stdout.splitlines() if "ANALYSIS-ERROR" in ln]


def main() -> int:
    only = sys.argv[1:]
    man = json.load(open(os.path.join(VERIF, "MANIFEST.json")))
    pids = [c["property_id"] for c in man["checks"]]
    seeded = os.path.join(VERIF, "seeded")
    dirs = sorted(d for d in os.listdir(seeded) if os.path.isfile(os.path.join(seeded, d, "patch.diff")) and (not only or d in only))
    scratch = tempfile.mkdtemp(prefix="seedcheck_")
    subprocess.run(["git", "-C", "/repo", "worktree", "add", "-q", "--detach", scratch + "/wt", "HEAD"], check=True)
    wt = scratch + "/wt"
    rows = []
    try:
        for d in dirs:
            meta = json.load(open(os.path.join(seeded, d, "meta.json")))
            prop = meta["property"]
            subprocess.run(["git", "-C", wt, "checkout", "-q", "--", "."], check=True)
            ap = subprocess.run(["git", "-C", wt, "apply", os.path.join(seeded, d, "patch.diff")], capture_output=True, text=True)
            if ap.returncode != 0:
                rows.append((d, prop, "PATCH DOES NOT APPLY", "", ap.stderr.strip()[:200]))
                continue
            with cf.ThreadPoolExecutor(max_workers=16) as ex:
                res = list(ex.map(lambda p: run_check(p, wt), pids))
            own = [r for r in res if r[0] == prop]
            caught_by = [r[0] for r in res if r[1] == 1]
            errors = [r[0] for r in res if r[1] == 2]
            own_status = "not claimed" if not own else {0: "MISSED", 1: "caught", 2: "analysis-error"}[own[0][1]]
            detail = "; ".join(v.strip()[:160] for r in res if r[1] == 1 for v in r[2][:2])
            rows.append((d, prop, own_status, ",".join(caught_by) + (" (exit 2: " + ",".join(errors) + ")" if errors else ""), detail))
            print(d, prop, own_status, caught_by, errors, flush=True)
    finally:
        subprocess.run(["git", "-C", "/repo", "worktree", "remove", "--force", wt])
        subprocess.run(["rm", "-rf", scratch])
    if only and os.path.exists(os.path.join(seeded, "RESULTS.md")):
        # a partial run replaces the rows of the ids it was given and keeps the others
        import re

        keep = []
        mine = {r[0] for r in rows}
        for line in open(os.path.join(seeded, "RESULTS.md")):
            m = re.match(r"\| (C\d\d-[A-Z]) \| (C\d\d) \| ([^|]+) \| ([^|]*) \| (.*) \|$", line.rstrip())
            if m and m.group(1) not in mine:
                keep.append(tuple((x.strip() if i < 4 else x).replace("\\|", "|") for i, x in enumerate(m.groups())))
        rows = sorted(keep + rows, key=lambda r: r[0])
    with open(os.path.join(seeded, "RESULTS.md"), "w") as fh:
        fh.write("# Seeded changes vs. checks (written by tools/run_seeded.py)\n\n")
        fh.write("| seeded change | breaks | own check | checks that exit 1 | first reports |\n|---|---|---|---|---|\n")
        for r in rows:
            fh.write("| " + " | ".join(str(x).replace("|", "\\|") for x in r) + " |\n")
    return 0


if __name__ == "__main__":
    sys.exit(main())
