"""Mutant self-test (thorough tier).

Every rule module may define
    MUTANTS = [M(name, file, old, new, expect="R0x-y"), ...]      breaking variants
    TWINS   = [M(name, file, old, new), ...]                      behaviour-preserving variants
where `old` is a snippet that occurs exactly once in `file` of the current working tree and `new`
its replacement.  The edits are applied in memory (an overlay over the source index - no scratch
copy on disk), the property's rules are re-run, and

  * a breaking variant must produce at least one violation of rule `expect` that the unmodified
    tree does not produce,
  * a twin must produce no new violation and no analysis error.

A snippet that no longer occurs (the repository moved on) makes the variant "not applicable"; it is
reported, and the self-test fails only if fewer than half of the planted variants are applicable.
"""

from __future__ import annotations

import concurrent.futures as cf
import os
import traceback
from dataclasses import dataclass
from typing import Optional


@dataclass
class M:
    name: str
    file: str
    old: str
    new: str
    expect: Optional[str] = None  # rule id; None = twin (must stay silent)
    count: int = 1  # how many occurrences of `old` are expected (all are replaced)
    more: tuple = ()  # further (old, new) replacements in the same file (each must occur exactly once)


def _run_one(args):
    pid, repo, m_name, file, old, new, expect, count, baseline_keys, more = args
    import importlib
    import sys

    here = os.path.dirname(os.path.abspath(__file__))
    if os.path.dirname(here) not in sys.path:
        sys.path.insert(0, os.path.dirname(here))
    from fdg_static.core import AnalysisError
    from fdg_static.engine import Engine
    from fdg_static.report import Check

    path = os.path.join(repo, file)
    try:
        with open(path, encoding="utf-8") as fh:
            src = fh.read()
    except OSError:
        return (m_name, "n/a", "file missing")
    if src.count(old) != count:
        return (m_name, "n/a", f"anchor occurs {src.count(old)}x (expected {count})")
    mutated = src.replace(old, new)
    for o2, n2 in more:
        if mutated.count(o2) != 1:
            return (m_name, "n/a", f"secondary anchor occurs {mutated.count(o2)}x")
        mutated = mutated.replace(o2, n2)
    mod = importlib.import_module(f"fdg_static.rules.{pid.lower()}")
    try:
        eng = Engine(repo, overlay={file: mutated})
        chk = Check(pid, "thorough")
        mod.run(chk, eng)
    except AnalysisError as e:
        return (m_name, "analysis-error", str(e)[:200])
    except SyntaxError as e:
        return (m_name, "n/a", f"mutant does not parse: {e}")
    except Exception:
        return (m_name, "internal-error", traceback.format_exc()[-300:])
    new_v = [v for v in chk.violations if v.key not in baseline_keys]
    under = [rid for rid, fl in chk.floors.items() if chk.count(rid) < fl]
    if expect is None:
        if new_v or under:
            return (m_name, "twin-alarm", "; ".join(f"{v.rule}: {v.construct[:80]}" for v in new_v[:3]) + (" floors:" + ",".join(under) if under else ""))
        return (m_name, "twin-silent", "")
    hit = [v for v in new_v if v.rule == expect]
    if hit:
        return (m_name, "detected", f"{hit[0].rule} {hit[0].function}: {hit[0].construct[:100]}")
    if new_v:
        return (m_name, "detected-other-rule", "; ".join(f"{v.rule}: {v.construct[:60]}" for v in new_v[:3]))
    return (m_name, "missed", "")


def _run_reformatted(args):
    """A behaviour-preserving variant of the whole package: every hand-written module re-printed by ast.unparse (comments gone,
    layout, parenthesisation and quoting normalised).  The check must say exactly what it says about the tree itself."""
    pid, repo, baseline_keys = args
    import ast
    import importlib
    import sys

    here = os.path.dirname(os.path.abspath(__file__))
    if os.path.dirname(here) not in sys.path:
        sys.path.insert(0, os.path.dirname(here))
    from fdg_static.core import AnalysisError, GENERATED
    from fdg_static.engine import Engine
    from fdg_static.report import Check

    overlay = {}
    base = os.path.join(repo, "src", "fandango")
    for root, _dirs, files in os.walk(base):
        for f in files:
            if not f.endswith(".py"):
                continue
            path = os.path.join(root, f)
            rel = os.path.relpath(path, repo)
            modname = rel[len("src/"):-3].replace(os.sep, ".")
            if modname in GENERATED:
                continue
            try:
                with open(path, encoding="utf-8") as fh:
                    overlay[rel] = ast.unparse(ast.parse(fh.read())) + "\n"
            except SyntaxError:
                continue
    mod = importlib.import_module(f"fdg_static.rules.{pid.lower()}")
    try:
        eng = Engine(repo, overlay=overlay)
        chk = Check(pid, "thorough")
        mod.run(chk, eng)
    except AnalysisError as e:
        return ("twin-reformatted-package", "analysis-error", str(e)[:200])
    except Exception:
        return ("twin-reformatted-package", "internal-error", traceback.format_exc()[-300:])
    new_v = [v for v in chk.violations if v.key not in baseline_keys]
    gone = [k for k in baseline_keys if k not in {v.key for v in chk.violations}]
    under = [rid for rid, fl in chk.floors.items() if chk.count(rid) < fl]
    if new_v or under or gone:
        return ("twin-reformatted-package", "twin-alarm", "; ".join(f"{v.rule}: {v.construct[:80]}" for v in new_v[:3]) + (" floors:" + ",".join(under) if under else "") +
                (" vanished:" + ",".join(gone) if gone else ""))
    return ("twin-reformatted-package", "twin-silent", f"{len(overlay)} modules re-printed")


def run_mutants(chk, mod, repo: str, jobs: int = 16) -> None:
    muts = list(getattr(mod, "MUTANTS", [])) + list(getattr(mod, "TWINS", []))
    if not muts:
        return
    baseline = frozenset(v.key for v in chk.violations)
    tasks = [(chk.pid, repo, m.name, m.file, m.old, m.new, m.expect, m.count, baseline, tuple(m.more)) for m in muts]
    results = []
    with cf.ProcessPoolExecutor(max_workers=max(1, min(jobs, len(tasks)))) as ex:
        for r in ex.map(_run_one, tasks):
            results.append(r)
    results.append(_run_reformatted((chk.pid, repo, baseline)))
    planted = [m for m in muts if m.expect is not None]
    twins = [m for m in muts if m.expect is None] + [M("twin-reformatted-package", "src/fandango/**", "", "", None)]
    muts = muts + [twins[-1]]
    by = {r[0]: r for r in results}
    det = [n for n, s, _ in results if s == "detected"]
    other = [n for n, s, _ in results if s == "detected-other-rule"]
    missed = [n for n, s, _ in results if s == "missed"]
    na = [n for n, s, _ in results if s == "n/a"]
    err = [(n, s, d) for n, s, d in results if s in ("analysis-error", "internal-error")]
    tsil = [n for n, s, _ in results if s == "twin-silent"]
    talarm = [(n, d) for n, s, d in results if s == "twin-alarm"]
    summary = {
        "mutants_planted": len(planted), "mutants_detected": len(det), "detected_by_another_rule": other, "missed": missed,
        "not_applicable": na, "twins": len(twins), "twins_silent": len(tsil), "twin_alarms": [f"{n}: {d}" for n, d in talarm],
        "errors": [f"{n}: {s} {d}" for n, s, d in err],
        "details": {n: f"{s} {d}".strip() for n, s, d in results},
    }
    chk.selftests.append(summary)
    # a self-test failure is an analysis error of the framework, not a violation of the repository
    problems = []
    if missed:
        problems.append(f"missed mutants: {missed}")
    if talarm:
        problems.append(f"twin alarms: {[n for n, _ in talarm]}")
    # an analysis error on a *breaking* variant still means the variant did not pass silently; on a twin it is a defect of the check
    twin_names = {m.name for m in twins}
    terr = [n for n, s, d in err if n in twin_names or s == "internal-error"]
    if terr:
        problems.append(f"errors: {terr}")
    if len(na) * 2 > len(muts):
        problems.append(f"{len(na)} of {len(muts)} variants not applicable")
    if problems:
        from .core import AnalysisError

        raise AnalysisError("mutant self-test failed: " + "; ".join(problems))
