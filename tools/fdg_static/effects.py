"""Ownership / effect analysis for derivation trees (rules R09-b, R10-a/b, R12, R16).

Regions.  For every root rho in {self, p:<param>} there are two abstract regions: `rho` (the
object itself) and `rho*` (everything navigable from it: .parent/.children/[i]/iteration, at any
depth).  An abstract value is a pair (B, R): B = regions the object may *be in*, R = regions
that became *reachable from it* through field stores performed in this function (links).
FRESH objects (constructor results, copies, non-tree values) have B = {}.

  effects(f)  = {(region, field)}   structure fields of borrowed regions f may write
  returns(f)  = (B, R) of the returned object in terms of f's own regions
  links(f)    = {(holder region, held region)}  stores that make `held` reachable from `holder`

Summaries are composed over resolved callees (dynamic dispatch = union over overriders),
specialised by boolean literal arguments (`split_end(copy_tree=True)` copies, `False` does not),
and iterated to a fixpoint over recursion.  Save/restore brackets
(`old = t.children; t.set_children([]); ...; t.set_children(old)`) are recognised: effects on
t's regions between the two calls are dropped when the restoring call post-dominates the first
write on all normal paths.
"""

from __future__ import annotations

import ast
from dataclasses import dataclass, field
from typing import Optional

from .cfg import CFG
from .core import CallGraph, ClassInfo, FuncInfo, call_name, norm, short
from .dataflow import head_exprs, target_names
from .engine import Engine

TREE_MOD = "fandango.language.tree"

STRUCT_FIELDS = {"_parent", "_children", "_symbol", "_sender", "_recipient", "_sources", "read_only", "origin_repetitions"}
MEMO_FIELDS = {"hash_cache", "_size"}
PROP_TO_FIELD = {"symbol": "_symbol", "sender": "_sender", "recipient": "_recipient", "sources": "_sources"}
LIST_FIELDS = {"_children": "_children", "children": "_children", "_sources": "_sources", "sources": "_sources",
               "origin_repetitions": "origin_repetitions"}
MUTATORS = {"append", "extend", "insert", "remove", "pop", "clear", "sort", "reverse"}
FRESH_FUNCS = {"deepcopy"}
FRESH_METHODS = {"deepcopy", "__deepcopy__"}
E: frozenset = frozenset()


def split_region(r: str) -> tuple[str, str]:
    """'self' -> ('self',''), 'self|v' -> ('self','v')  (v = below, ^ = above, * = anywhere)"""
    if "|" in r:
        b, k = r.rsplit("|", 1)
        return b, k
    return r, ""


def nav_region(r: str, d: str) -> str:
    """d in {'v','^','*'}: the region reached from r by navigating downwards / upwards / anyhow."""
    b, k = split_region(r)
    if k == "" or k == d:
        return f"{b}|{d}"
    return f"{b}|*"


def star(rs: frozenset, d: str = "*") -> frozenset:
    return frozenset(nav_region(r, d) for r in rs)


def base_of(r: str) -> str:
    return split_region(r)[0]


KID_ATTRS = {"children", "_children", "sources", "_sources"}
UP_ATTRS = {"parent", "_parent"}


@dataclass(frozen=True)
class Val:
    B: frozenset = E
    R: frozenset = E  # {(tag, region)}: tag k = held in children/sources, u = parent pointer, any = unknown field

    def __or__(self, o: "Val") -> "Val":
        return Val(self.B | o.B, self.R | o.R)

    def nav(self, attr: Optional[str] = None) -> "Val":
        """The value of x.attr / x[i] / an element of x (attr None = subscript / iteration)."""
        if attr is None or attr in KID_ATTRS:
            sel = frozenset(r for (t, r) in self.R if t in ("k", "any"))
            return Val(star(self.B, "v") | sel, frozenset(("any", r) for r in sel))
        if attr in UP_ATTRS:
            sel = frozenset(r for (t, r) in self.R if t in ("u", "any"))
            return Val(star(self.B, "^") | sel, frozenset(("any", r) for r in sel))
        if attr == "?":  # result of an unknown call on the value
            sel = frozenset(r for (t, r) in self.R)
            return Val(self.B | star(self.B, "*") | sel, frozenset(("any", r) for r in sel))
        return Val(star(self.B, "*"), E)  # other attributes (symbol, sender ...): not tree-valued, kept conservative

    def down(self) -> frozenset:
        """Regions of the object and of everything it holds downwards (children/sources)."""
        return self.B | frozenset(r for (t, r) in self.R if t in ("k", "any"))

    def all(self) -> frozenset:
        return self.B | frozenset(r for (t, r) in self.R)

    def __bool__(self) -> bool:
        return bool(self.B or self.R)

    def le(self, o: "Val") -> bool:
        return self.B <= o.B and self.R <= o.R


FRESH = Val()


def _origin_key(desc: str) -> str:
    """Two witness chains describe the same cause when their last two hops coincide (the write and the call that
    handed the borrowed object to it)."""
    hops = [h.strip() for h in desc.split("->")]
    return " -> ".join(hops[-2:])


@dataclass
class Summary:
    effects: set = field(default_factory=set)  # {(region, field)}
    ret: Val = FRESH
    links: set = field(default_factory=set)  # {(holder region, held region)}
    witness: dict = field(default_factory=dict)  # (region, field) -> first description
    witnesses: dict = field(default_factory=dict)  # (region, field) -> list of distinct descriptions (all origins, bounded)

    def same(self, o: "Summary") -> bool:
        return self.effects == o.effects and self.ret == o.ret and self.links == o.links


class EffectAnalysis:
    def __init__(self, eng: Engine) -> None:
        self.eng = eng
        self.cg = eng.cg
        self.tree_cls = eng.cls(TREE_MOD, "DerivationTree")
        self.tree_family = {c.fq for c in self.tree_cls.family()}
        self.summaries: dict[tuple, Summary] = {}
        self.in_progress: set[tuple] = set()
        self.changed = False
        self._done_round: set = set()
        self._final: set = set()
        self.dropped_brackets: set[str] = set()
        self._cur_links: set = set()
        self.n_analysed = 0

    # --------------------------------------------------------------- public
    def summary(self, fn: FuncInfo, selfcls: Optional[ClassInfo] = None, consts: Optional[dict] = None) -> Summary:
        key = self._key(fn, selfcls, consts)
        if key in self._final:
            return self.summaries[key]
        for _ in range(10):
            self.changed = False
            self._done_round = set()
            self._compute(fn, selfcls, consts or {})
            if not self.changed:
                break
        # everything computed in the last (stable) round is a fixpoint and need not be recomputed
        self._final |= self._done_round
        return self.summaries[key]

    def _key(self, fn: FuncInfo, selfcls: Optional[ClassInfo], consts: Optional[dict]) -> tuple:
        return (fn.fq, selfcls.fq if selfcls is not None else None, tuple(sorted((consts or {}).items())))

    def _compute(self, fn: FuncInfo, selfcls: Optional[ClassInfo], consts: dict) -> Summary:
        key = self._key(fn, selfcls, consts)
        if key in self.in_progress:
            return self.summaries.setdefault(key, Summary())
        if key in self.summaries and (key in self._done_round or key in self._final):
            return self.summaries[key]
        self.in_progress.add(key)
        self._done_round.add(key)
        try:
            new = self._analyse(fn, selfcls, consts)
        finally:
            self.in_progress.discard(key)
        old = self.summaries.get(key)
        if old is not None:
            new.effects |= old.effects
            new.ret = new.ret | old.ret
            new.links |= old.links
            for k, v in old.witness.items():
                new.witness.setdefault(k, v)
            for k, vs in old.witnesses.items():
                cur = new.witnesses.setdefault(k, [])
                for v in vs:
                    origin = _origin_key(v)
                    if len(cur) < 8 and all(_origin_key(w) != origin for w in cur):
                        cur.append(v)
        if old is None or not old.same(new):
            self.summaries[key] = new
            self.changed = True
        return self.summaries[key]

    # ------------------------------------------------------------- analysis
    def _is_tree_type(self, fqs: set) -> Optional[bool]:
        if not fqs:
            return None
        return bool(fqs & self.tree_family)

    def _analyse(self, fn: FuncInfo, selfcls: Optional[ClassInfo], consts: dict) -> Summary:
        self.n_analysed += 1
        eng = self.eng
        cfg = eng.cfg(fn)
        tenv = self.cg.env(fn)
        summ = Summary()
        saved_links = self._cur_links
        self._cur_links = set()
        init_env: dict[str, Val] = {}
        for i, p in enumerate(fn.params()):
            if i == 0 and fn.cls is not None and p == "self":
                init_env[p] = Val(frozenset(["self"]))
            elif i == 0 and fn.cls is not None and p == "cls":
                init_env[p] = FRESH
            else:
                init_env[p] = Val(frozenset([f"p:{p}"]))
        pruned: set[tuple[int, str]] = set()
        for n in cfg.nodes:
            if n.kind == "if":
                t = n.ast.test  # type: ignore[union-attr]
                neg = False
                if isinstance(t, ast.UnaryOp) and isinstance(t.op, ast.Not):
                    t, neg = t.operand, True
                if isinstance(t, ast.Name) and t.id in consts and isinstance(consts[t.id], bool):
                    val = consts[t.id] != neg
                    pruned.add((n.id, "false" if val else "true"))
        IN: dict[int, dict[str, Val]] = {cfg.entry: init_env}
        work = [cfg.entry]
        guard = 0
        node_effects: dict[int, list] = {}
        rets: list[Val] = []
        cenv = dict(consts)
        while work and guard < 20000:
            guard += 1
            nid = work.pop(0)
            env = dict(IN.get(nid, {}))
            n = cfg.nodes[nid]
            effs: list = []
            self._transfer(fn, selfcls, n, env, effs, tenv, cenv, rets)
            node_effects[nid] = effs
            for b, lab in cfg.succ[nid]:
                if (nid, lab) in pruned or lab in ("exc-out", "raise-out", "abandon"):
                    continue
                cur = IN.get(b)
                if cur is None:
                    IN[b] = dict(env)
                    work.append(b)
                else:
                    ch = False
                    for k, v in env.items():
                        o = cur.get(k)
                        if o is None:
                            cur[k] = v
                            ch = True
                        elif not v.le(o):
                            cur[k] = o | v
                            ch = True
                    if ch and b not in work:
                        work.append(b)
        summ.links = self._cur_links
        self._cur_links = saved_links
        for r in rets:
            summ.ret = summ.ret | r
        dropped = self._brackets(fn, cfg, IN)
        for nid, effs in node_effects.items():
            drop = {base_of(d) for d in dropped.get(nid, set())}
            for region, fld, why in effs:
                if base_of(region) in drop:
                    continue
                desc = f"{fn.qualname}:{cfg.nodes[nid].line}: {why}"
                ws = summ.witnesses.setdefault((region, fld), [])
                origin = _origin_key(desc)
                if len(ws) < 8 and all(_origin_key(w) != origin for w in ws):
                    ws.append(desc)
                if (region, fld) not in summ.effects:
                    summ.effects.add((region, fld))
                    summ.witness[(region, fld)] = desc
        return summ

    def _brackets(self, fn: FuncInfo, cfg: CFG, IN: dict) -> dict[int, set]:
        out: dict[int, set] = {}
        calls = []
        for n in cfg.nodes:
            if n.kind == "stmt" and isinstance(n.ast, ast.Expr) and isinstance(n.ast.value, ast.Call):
                c = n.ast.value
                if isinstance(c.func, ast.Attribute) and c.func.attr == "set_children" and isinstance(c.func.value, ast.Name) and len(c.args) == 1:
                    calls.append((n, c.func.value.id, c.args[0]))
        for n2, recv, arg in calls:
            if not isinstance(arg, ast.Name):
                continue
            saves = [m for m in cfg.nodes if m.kind == "stmt" and isinstance(m.ast, ast.Assign) and len(m.ast.targets) == 1
                     and isinstance(m.ast.targets[0], ast.Name) and m.ast.targets[0].id == arg.id
                     and isinstance(m.ast.value, ast.Attribute) and m.ast.value.attr in ("children", "_children")
                     and isinstance(m.ast.value.value, ast.Name) and m.ast.value.value.id == recv]
            if not saves:
                continue
            sv = saves[0]
            firsts = [n1 for n1, r1, a1 in calls if r1 == recv and n1.id != n2.id and cfg.dominated_by(n1.id, sv.id) and cfg.dominated_by(n2.id, n1.id)]
            if not firsts:
                continue
            n1 = firsts[0]
            if cfg.find_path(n1.id, [cfg.exit], avoid=[n2.id]) is not None:
                continue
            v = IN.get(n1.id, {}).get(recv, FRESH)
            regions = set(v.B)
            between = ({n1.id} | cfg.reach([n1.id], avoid=[n2.id])) | {n2.id}
            for b in between:
                out.setdefault(b, set()).update(regions)
            self.dropped_brackets.add(f"{fn.fq}: `{recv}.set_children(...)` at line {n1.line} is restored at line {n2.line} (saved at line {sv.line})")
        return out

    # -------------------------------------------------------------- origins
    def _val(self, fn, selfcls, e: Optional[ast.AST], env: dict, tenv, cenv: dict, effs: Optional[list]) -> Val:
        V = lambda x: self._val(fn, selfcls, x, env, tenv, cenv, effs)  # noqa: E731
        if e is None:
            return FRESH
        if isinstance(e, ast.Name):
            return env.get(e.id, FRESH)
        if isinstance(e, ast.Attribute):
            return V(e.value).nav(e.attr)
        if isinstance(e, ast.Subscript):
            return V(e.value).nav()
        if isinstance(e, ast.Starred):
            return V(e.value)
        if isinstance(e, (ast.List, ast.Tuple, ast.Set)):
            out = FRESH
            for x in e.elts:
                out = out | V(x)
            return out
        if isinstance(e, ast.Dict):
            out = FRESH
            for x in e.values:
                out = out | V(x)
            return out
        if isinstance(e, ast.BinOp):
            return V(e.left) | V(e.right)
        if isinstance(e, ast.BoolOp):
            out = FRESH
            for x in e.values:
                out = out | V(x)
            return out
        if isinstance(e, ast.IfExp):
            return V(e.body) | V(e.orelse)
        if isinstance(e, (ast.Await, ast.YieldFrom, ast.Yield)):
            return V(e.value) if e.value is not None else FRESH
        if isinstance(e, ast.NamedExpr):
            o = V(e.value)
            if isinstance(e.target, ast.Name):
                env[e.target.id] = o
            return o
        if isinstance(e, (ast.ListComp, ast.SetComp, ast.GeneratorExp, ast.DictComp)):
            env2 = dict(env)
            for g in e.generators:
                o = self._val(fn, selfcls, g.iter, env2, tenv, cenv, effs).nav()
                for nm in target_names(g.target):
                    env2[nm] = o
            elt = e.value if isinstance(e, ast.DictComp) else e.elt
            return self._val(fn, selfcls, elt, env2, tenv, cenv, effs)
        if isinstance(e, ast.Lambda):
            out = FRESH
            for x in ast.walk(e.body):
                if isinstance(x, ast.Name) and x.id in env:
                    out = out | env[x.id]
            return out
        if isinstance(e, ast.Call):
            return self._call(fn, selfcls, e, env, tenv, cenv, effs)
        return FRESH

    def _const_of(self, e: ast.AST, cenv: dict):
        if isinstance(e, ast.Constant) and isinstance(e.value, bool):
            return e.value
        if isinstance(e, ast.Name) and e.id in cenv:
            return cenv[e.id]
        return None

    def _callee_consts(self, callee: FuncInfo, call: ast.Call, cenv: dict) -> dict:
        out = {}
        a = callee.node.args  # type: ignore[attr-defined]
        allp = a.posonlyargs + a.args
        pos = [x.arg for x in allp]
        if callee.cls is not None and pos and pos[0] in ("self", "cls"):
            pos = pos[1:]
        defaults = {}
        for p, d in zip(allp[len(allp) - len(a.defaults):], a.defaults):
            defaults[p.arg] = d
        for p, d in zip(a.kwonlyargs, a.kw_defaults):
            if d is not None:
                defaults[p.arg] = d
        bound = {}
        for p, v in zip(pos, call.args):
            bound[p] = v
        for k in call.keywords:
            if k.arg:
                bound[k.arg] = k.value
        for p in pos + [x.arg for x in a.kwonlyargs]:
            if p in bound:
                c = self._const_of(bound[p], cenv)
            elif p in defaults:
                c = self._const_of(defaults[p], {})
            else:
                continue
            if isinstance(c, bool):
                out[p] = c
        return out

    def _link(self, holder_expr: ast.AST, holder: Val, held: Val, env: dict, tag: str = "any") -> None:
        hs = held.down() if tag != "u" else held.B
        if not hs:
            return
        for h in holder.B:
            for v in hs:
                if h != v:
                    self._cur_links.add((h, tag, v))
        if isinstance(holder_expr, ast.Name):
            cur = env.get(holder_expr.id, FRESH)
            env[holder_expr.id] = Val(cur.B, cur.R | frozenset((tag, v) for v in hs))

    def _resolve(self, fn: FuncInfo, selfcls, c: ast.Call, tenv) -> tuple[list, str]:
        name = call_name(c)
        targets: list[tuple[FuncInfo, Optional[ClassInfo]]] = []
        mod = self.eng.ix.modules[fn.module]
        f = c.func
        if isinstance(f, ast.Attribute) and isinstance(f.value, ast.Name) and f.value.id == "self" and selfcls is not None:
            m = selfcls.lookup(name)
            if m is not None and not any("property" in d for d in m.decorators()):
                targets.append((m, selfcls))
                for sc in selfcls.all_subclasses():
                    if name in sc.methods:
                        targets.append((sc.methods[name], sc))
                return targets, "exact"
            return [], "external"
        if isinstance(f, ast.Attribute) and isinstance(f.value, ast.Call) and norm(f.value.func) == "super" and fn.cls is not None:
            for b in fn.cls.mro()[1:]:
                if name in b.methods:
                    return [(b.methods[name], selfcls)], "super"
            return [], "external"
        r = self.eng.ix.resolve_dotted(mod, f) if isinstance(f, (ast.Name, ast.Attribute)) else None
        if isinstance(r, ClassInfo):
            init = r.lookup("__init__")
            return ([(init, r)] if init is not None else []), "ctor"
        if isinstance(r, FuncInfo):
            return [(r, r.cls)], "exact"
        if isinstance(f, ast.Attribute):
            ty = tenv.type_of(f.value)
            if ty:
                for fq in sorted(ty):
                    mn, cn = fq.split(":")
                    cl = self.eng.ix.modules[mn].classes.get(cn)
                    if cl is None:
                        continue
                    m = cl.lookup(name)
                    if m is not None and not any("property" in d for d in m.decorators()):
                        targets.append((m, cl))
                    for sc in cl.all_subclasses():
                        if name in sc.methods:
                            targets.append((sc.methods[name], sc))
                return targets, ("exact" if targets else "external")
            # receiver of unknown static type: by-name resolution only when every definition of
            # that method name lives in the tree family (anything wider yields meaningless regions)
            if name not in CallGraph.NO_FALLBACK and not name.startswith("__"):
                owners = self.eng.ix.methods_by_name.get(name, [])
                if owners and all(mm.cls is not None and mm.cls.fq in self.tree_family for mm in owners):
                    m = self.tree_cls.lookup(name)
                    if m is not None:
                        out = [(m, self.tree_cls)]
                        for sc in self.tree_cls.all_subclasses():
                            if name in sc.methods:
                                out.append((sc.methods[name], sc))
                        return out, "exact"
        return [], "external"

    def _call(self, fn: FuncInfo, selfcls, c: ast.Call, env, tenv, cenv, effs: Optional[list]) -> Val:
        name = call_name(c)
        V = lambda x: self._val(fn, selfcls, x, env, tenv, cenv, effs)  # noqa: E731
        arg_v = [V(a) for a in c.args]
        kw_v = {k.arg: V(k.value) for k in c.keywords}
        recv_v = FRESH
        if isinstance(c.func, ast.Attribute):
            if isinstance(c.func.value, ast.Call) and norm(c.func.value.func) == "super":
                recv_v = env.get("self", FRESH)
            else:
                recv_v = V(c.func.value)
        elif not isinstance(c.func, ast.Name):
            V(c.func)
        all_v = recv_v
        for o in arg_v:
            all_v = all_v | o
        for o in kw_v.values():
            all_v = all_v | o
        # copies
        if isinstance(c.func, ast.Name) and name in FRESH_FUNCS:
            return FRESH
        if isinstance(c.func, ast.Attribute) and name in FRESH_FUNCS and norm(c.func.value) == "copy":
            return FRESH
        if isinstance(c.func, ast.Attribute) and name in FRESH_METHODS:
            return FRESH
        # in-place mutators on list-valued structure fields
        if isinstance(c.func, ast.Attribute) and name in MUTATORS and isinstance(c.func.value, ast.Attribute) and c.func.value.attr in LIST_FIELDS:
            owner = c.func.value.value
            ty = tenv.type_of(owner)
            if self._is_tree_type(ty) is not False:
                ov = self._val(fn, selfcls, owner, env, tenv, cenv, None)
                if effs is not None:
                    for r in ov.B:
                        effs.append((r, LIST_FIELDS[c.func.value.attr], f"`{short(c, 70)}` mutates the list in place"))
                if name in ("append", "extend", "insert"):
                    held = FRESH
                    for o in arg_v:
                        held = held | o
                    self._link(owner, ov, held, env, tag="k")
            return FRESH
        targets, how = self._resolve(fn, selfcls, c, tenv)
        if not targets and isinstance(c.func, ast.Attribute) and name in ("append", "extend", "insert", "add", "appendleft") and isinstance(c.func.value, ast.Name):
            # a local container now holds the arguments
            held: frozenset = E
            for o in arg_v:
                held |= o.down()
            if held:
                cur = env.get(c.func.value.id, FRESH)
                env[c.func.value.id] = Val(cur.B, cur.R | frozenset(("any", r) for r in held))
            return FRESH
        if not targets:
            # unknown callee: the result may be (an element of) anything passed in
            return all_v.nav("?")
        is_ctor = how == "ctor"
        ret = FRESH
        for callee, cls_for in targets:
            consts = self._callee_consts(callee, c, cenv)
            s = self._compute(callee, cls_for, consts)
            ps = list(callee.params())
            has_self = callee.cls is not None and ps and ps[0] in ("self", "cls")
            if has_self:
                ps = ps[1:]
            bind: dict[str, Val] = {}
            a = callee.node.args  # type: ignore[attr-defined]
            npos = len(a.posonlyargs + a.args) - (1 if has_self else 0)
            for i, o in enumerate(arg_v):
                if i < npos and i < len(ps):
                    bind[ps[i]] = bind.get(ps[i], FRESH) | o
                elif a.vararg is not None:
                    bind[a.vararg.arg] = bind.get(a.vararg.arg, FRESH) | o
            for k, o in kw_v.items():
                if k is not None:
                    bind[k] = o
                else:
                    for p in ps:
                        bind[p] = bind.get(p, FRESH) | o

            def subst(region: str, _recv=recv_v, _bind=bind) -> frozenset:
                base, kind = split_region(region)
                if base == "self":
                    v = FRESH if is_ctor else _recv
                elif base.startswith("p:"):
                    v = _bind.get(base[2:], FRESH)
                else:
                    return frozenset([region])
                if kind == "":
                    return v.B
                if kind == "v":
                    return star(v.B, "v") | frozenset(r for (t, r) in v.R if t in ("k", "any"))
                if kind == "^":
                    return star(v.B, "^") | frozenset(r for (t, r) in v.R if t in ("u", "any"))
                return star(v.B, "*") | frozenset(r for (t, r) in v.R)

            if effs is not None:
                for (region, fld) in s.effects:
                    for r in subst(region):
                        for w in (s.witnesses.get((region, fld)) or [s.witness.get((region, fld), callee.qualname)]):
                            effs.append((r, fld, f"call `{short(c, 60)}` -> {w}"))
            if not is_ctor:
                rb: frozenset = E
                for region in s.ret.B:
                    rb |= subst(region)
                rr: frozenset = E
                for (t, region) in s.ret.R:
                    rr |= frozenset((t, x) for x in subst(region))
                ret = ret | Val(rb, rr)
            for (h, tag, v) in s.links:
                if split_region(h)[1] != "":
                    continue  # a store into something navigable from the holder: already inside its region
                Vs = subst(v) | (subst(nav_region(v, "v")) if tag != "u" else E)
                if not Vs:
                    continue
                hb = h
                if hb == "self":
                    if is_ctor:
                        ret = Val(ret.B, ret.R | frozenset((tag, x) for x in Vs))
                    elif how == "super":
                        self._link(ast.Name(id="self", ctx=ast.Load()), env.get("self", FRESH), Val(Vs), env, tag)
                    elif isinstance(c.func, ast.Attribute):
                        self._link(c.func.value, recv_v, Val(Vs), env, tag)
                elif hb.startswith("p:"):
                    pn = hb[2:]
                    ae = None
                    if pn in ps and ps.index(pn) < len(c.args):
                        ae = c.args[ps.index(pn)]
                    for k in c.keywords:
                        if k.arg == pn:
                            ae = k.value
                    if ae is not None:
                        self._link(ae, bind.get(pn, FRESH), Val(Vs), env, tag)
        return ret

    # ------------------------------------------------------------- transfer
    def _transfer(self, fn: FuncInfo, selfcls, n, env: dict, effs: list, tenv, cenv: dict, rets: list) -> None:
        a = n.ast
        if a is None or n.kind in ("join", "try", "entry", "exit"):
            return
        V = lambda e: self._val(fn, selfcls, e, env, tenv, cenv, effs)  # noqa: E731
        if n.kind in ("if", "while", "match"):
            for e in head_exprs(n):
                V(e)
                self._subscript_effects(fn, selfcls, e, env, tenv, cenv, effs)
            return
        if n.kind == "for":
            o = V(a.iter).nav()  # type: ignore[attr-defined]
            self._subscript_effects(fn, selfcls, a.iter, env, tenv, cenv, effs)  # type: ignore[attr-defined]
            for nm in target_names(a.target):  # type: ignore[attr-defined]
                env[nm] = o
            return
        if n.kind == "with":
            for it in a.items:  # type: ignore[attr-defined]
                o = V(it.context_expr)
                if it.optional_vars is not None:
                    for nm in target_names(it.optional_vars):
                        env[nm] = o
            return
        if n.kind == "handler":
            if a.name:  # type: ignore[attr-defined]
                env[a.name] = FRESH  # type: ignore[attr-defined]
            return
        if n.note == "def":
            return
        self._subscript_effects(fn, selfcls, a, env, tenv, cenv, effs)
        if isinstance(a, (ast.Assign, ast.AnnAssign, ast.AugAssign)):
            vo = V(a.value) if a.value is not None else FRESH
            targets = a.targets if isinstance(a, ast.Assign) else [a.target]
            for t in targets:
                tv = vo
                if isinstance(t, (ast.Tuple, ast.List)) and not isinstance(a.value, (ast.Tuple, ast.List)):
                    tv = vo.nav()
                self._store(fn, selfcls, t, tv, env, tenv, cenv, effs, aug=isinstance(a, ast.AugAssign), stmt=a)
            if isinstance(a, ast.Assign) and len(a.targets) == 1 and isinstance(a.targets[0], ast.Name):
                cv = self._const_of(a.value, cenv)
                if isinstance(cv, bool):
                    cenv[a.targets[0].id] = cv
                else:
                    cenv.pop(a.targets[0].id, None)
            return
        if isinstance(a, ast.Return):
            if a.value is not None:
                rets.append(V(a.value))
            return
        if isinstance(a, ast.Expr):
            V(a.value)
            return
        if isinstance(a, ast.Delete):
            for t in a.targets:
                if isinstance(t, ast.Subscript) and isinstance(t.value, ast.Attribute) and t.value.attr in LIST_FIELDS:
                    for r in V(t.value.value).B:
                        effs.append((r, LIST_FIELDS[t.value.attr], f"`{short(a)}`"))
            return
        if isinstance(a, (ast.Assert, ast.Raise)):
            for ch in ast.iter_child_nodes(a):
                V(ch)
            return

    def _subscript_effects(self, fn, selfcls, root: ast.AST, env, tenv, cenv, effs: list) -> None:
        """x[i] on a tree-typed x is a call of __getitem__ (slices build SliceTree nodes)."""
        gi = self.tree_cls.lookup("__getitem__")
        if gi is None or fn.fq == gi.fq:
            return
        for e in ast.walk(root):
            if isinstance(e, ast.Subscript) and isinstance(e.ctx, ast.Load):
                ty = tenv.type_of(e.value)
                if ty and (ty & self.tree_family):
                    s = self._compute(gi, self.tree_cls, {})
                    rv = self._val(fn, selfcls, e.value, env, tenv, cenv, None)
                    for (region, fld) in s.effects:
                        base, kind = split_region(region)
                        if base == "self":
                            tgt = rv.B if kind == "" else (star(rv.B, kind) | frozenset(x for (t, x) in rv.R if kind == "*" or t == "any" or (t == "k") == (kind == "v")))
                            for r in tgt:
                                effs.append((r, fld, f"`{short(e, 50)}` calls __getitem__ -> {s.witness.get((region, fld), '')}"))

    def _store(self, fn, selfcls, t: ast.AST, vo: Val, env, tenv, cenv, effs: list, aug: bool, stmt: ast.AST) -> None:
        if isinstance(t, ast.Name):
            env[t.id] = (env.get(t.id, FRESH) | vo) if aug else vo
            return
        if isinstance(t, (ast.Tuple, ast.List)):
            for x in t.elts:
                self._store(fn, selfcls, x, vo, env, tenv, cenv, effs, aug, stmt)
            return
        if isinstance(t, ast.Starred):
            self._store(fn, selfcls, t.value, vo, env, tenv, cenv, effs, aug, stmt)
            return
        if isinstance(t, ast.Attribute):
            fld = t.attr
            owner = self._val(fn, selfcls, t.value, env, tenv, cenv, None)
            ty = tenv.type_of(t.value)
            is_tree = self._is_tree_type(ty)
            if is_tree is False:
                return
            if vo and (fld in KID_ATTRS or fld in UP_ATTRS):
                self._link(t.value, owner, vo, env, "k" if fld in KID_ATTRS else "u")
            if fld in STRUCT_FIELDS:
                for r in owner.B:
                    effs.append((r, fld, f"`{short(stmt, 70)}`"))
            elif fld in PROP_TO_FIELD and (is_tree or fld == "sources"):
                for r in owner.B:
                    effs.append((r, PROP_TO_FIELD[fld], f"`{short(stmt, 70)}` (property setter)"))
                if fld == "sources":
                    for r in star(vo.B, "v") | frozenset(x for (t, x) in vo.R if t in ("k", "any")):
                        effs.append((r, "_parent", f"`{short(stmt, 70)}` re-parents the assigned sources"))
            return
        if isinstance(t, ast.Subscript):
            base = t.value
            if isinstance(base, ast.Attribute) and base.attr in LIST_FIELDS:
                ty = tenv.type_of(base.value)
                if self._is_tree_type(ty) is not False:
                    ov = self._val(fn, selfcls, base.value, env, tenv, cenv, None)
                    for r in ov.B:
                        effs.append((r, LIST_FIELDS[base.attr], f"`{short(stmt, 70)}`"))
                    self._link(base.value, ov, vo, env, "k")
            elif isinstance(base, ast.Name):
                cur = env.get(base.id, FRESH)
                env[base.id] = Val(cur.B, cur.R | frozenset(("any", x) for x in vo.all()))
            return
