"""Facade that rules use: anchors, cached CFGs, the call graph, consulted-file bookkeeping."""

from __future__ import annotations

import ast
from typing import Optional

from .cfg import CFG
from .core import AnalysisError, CallGraph, ClassInfo, FuncInfo, ModuleInfo, SourceIndex, TypeEnv


class Engine:
    def __init__(self, repo: str = "/repo", overlay: Optional[dict[str, str]] = None) -> None:
        self.repo = repo
        self.ix = SourceIndex(repo, overlay)
        self._cg: Optional[CallGraph] = None
        self._cfgs: dict[int, CFG] = {}
        self._consulted: set[str] = set()
        self._other_files: dict[str, str] = {}

    # anchors -----------------------------------------------------------------
    def module(self, name: str) -> ModuleInfo:
        self._consulted.add(name)
        return self.ix.module(name)

    def cls(self, module: str, name: str) -> ClassInfo:
        c = self.ix.cls(module, name)
        self._consulted.add(c.module)
        return c

    def func(self, module: str, qualname: str) -> FuncInfo:
        f = self.ix.func(module, qualname)
        self._consulted.add(f.module)
        return f

    def method(self, cls: ClassInfo, name: str, inherited: bool = True) -> FuncInfo:
        f = self.ix.method(cls, name, inherited)
        self._consulted.add(f.module)
        return f

    def opt_method(self, cls: ClassInfo, name: str, inherited: bool = True) -> Optional[FuncInfo]:
        f = cls.lookup(name) if inherited else cls.methods.get(name)
        if f is not None:
            self._consulted.add(f.module)
        return f

    def consult(self, *modules: str) -> None:
        self._consulted.update(modules)

    def read_text(self, rel: str) -> str:
        import hashlib

        t = self.ix.read_text(rel)
        self._other_files[rel] = hashlib.sha256(t.encode("utf-8", errors="replace")).hexdigest()
        return t

    # analyses ----------------------------------------------------------------
    NO_RETURN = ()

    def cfg(self, f: FuncInfo) -> CFG:
        c = self._cfgs.get(id(f.node))
        if c is None:
            c = CFG(f.node, self.NO_RETURN)
            self._cfgs[id(f.node)] = c
        return c

    @property
    def cg(self) -> CallGraph:
        if self._cg is None:
            self._cg = CallGraph(self.ix)
            self._consulted.update(m.name for m in self.ix.hand_written())
        return self._cg

    def env(self, f: FuncInfo) -> TypeEnv:
        return self.cg.env(f) if self._cg is not None else TypeEnv(self.ix, f)

    def files_consulted(self) -> dict[str, str]:
        out = self.ix.digest_of(sorted(self._consulted))
        out.update(self._other_files)
        return out

    def where(self, f: FuncInfo) -> str:
        return f.fq

    def relfile(self, f: FuncInfo) -> str:
        return self.ix.modules[f.module].relpath
