"""Source index, class table, light-weight type environment and call resolution.

Nothing in here imports or executes repository code: every fact is read from `ast` trees of the
files under /repo/src/fandango in the *current working tree*.
"""

from __future__ import annotations

import ast
import hashlib
import os
from dataclasses import dataclass, field
from typing import Iterable, Iterator, Optional

REPO = os.environ.get("FDG_REPO", "/repo")
PKG_ROOT_REL = "src"
PKG = "fandango"

# generated ANTLR modules: indexed by name, parsed only on request (53 k lines)
GENERATED = {
    "fandango.language.parser.FandangoParser",
    "fandango.language.parser.FandangoLexer",
    "fandango.converters.antlr.ANTLRv4Parser",
    "fandango.converters.antlr.ANTLRv4Lexer",
}


class AnalysisError(Exception):
    """The analysis itself cannot proceed (anchor vanished, unparsable file, unknown idiom).

    Mapped to exit status 2 by check.py - never to a pass and never to a VIOLATION."""


@dataclass
class FuncInfo:
    module: str
    qualname: str  # "Class.method" or "function" (nested: "outer.<locals>.inner")
    node: ast.AST  # FunctionDef | AsyncFunctionDef
    cls: Optional["ClassInfo"] = None

    @property
    def name(self) -> str:
        return self.node.name  # type: ignore[attr-defined]

    @property
    def fq(self) -> str:
        return f"{self.module}:{self.qualname}"

    @property
    def file(self) -> str:
        return INDEX_SINGLETON.modules[self.module].relpath  # type: ignore[union-attr]

    @property
    def line(self) -> int:
        return self.node.lineno  # type: ignore[attr-defined]

    def params(self) -> list[str]:
        a = self.node.args  # type: ignore[attr-defined]
        return [x.arg for x in a.posonlyargs + a.args + a.kwonlyargs] + (
            [a.vararg.arg] if a.vararg else []
        ) + ([a.kwarg.arg] if a.kwarg else [])

    def is_generator(self) -> bool:
        for n in walk_local(self.node):
            if isinstance(n, (ast.Yield, ast.YieldFrom)):
                return True
        return False

    def decorators(self) -> list[str]:
        return [ast.unparse(d) for d in self.node.decorator_list]  # type: ignore[attr-defined]


@dataclass
class ClassInfo:
    module: str
    name: str
    node: ast.ClassDef
    base_exprs: list[str] = field(default_factory=list)
    bases: list["ClassInfo"] = field(default_factory=list)
    methods: dict[str, FuncInfo] = field(default_factory=dict)
    class_attrs: dict[str, ast.AST] = field(default_factory=dict)  # name -> value expr
    class_ann: dict[str, ast.AST] = field(default_factory=dict)  # name -> annotation
    subclasses: list["ClassInfo"] = field(default_factory=list)

    @property
    def fq(self) -> str:
        return f"{self.module}:{self.name}"

    def mro(self) -> list["ClassInfo"]:
        # linearisation good enough for single/mixin inheritance used in this repository
        out: list[ClassInfo] = []
        seen: set[str] = set()

        def rec(c: "ClassInfo") -> None:
            if c.fq in seen:
                return
            seen.add(c.fq)
            out.append(c)
            for b in c.bases:
                rec(b)

        rec(self)
        return out

    def lookup(self, name: str) -> Optional[FuncInfo]:
        for c in self.mro():
            if name in c.methods:
                return c.methods[name]
        return None

    def all_subclasses(self) -> list["ClassInfo"]:
        out: list[ClassInfo] = []
        seen: set[str] = set()
        todo = list(self.subclasses)
        while todo:
            c = todo.pop()
            if c.fq in seen:
                continue
            seen.add(c.fq)
            out.append(c)
            todo.extend(c.subclasses)
        return out

    def family(self) -> list["ClassInfo"]:
        return [self] + self.all_subclasses()

    def is_subclass_of(self, other: "ClassInfo") -> bool:
        return any(c.fq == other.fq for c in self.mro())

    def instance_attr_annotations(self) -> dict[str, ast.AST]:
        """`self.x: T = ...` annotations found in any method of the MRO (first wins)."""
        cached = getattr(self, "_iaa", None)
        if cached is not None:
            return cached
        out: dict[str, ast.AST] = {}
        inferred: dict[str, ast.AST] = {}
        for c in self.mro():
            for m in c.methods.values():
                for n in ast.walk(m.node):
                    if (
                        isinstance(n, ast.AnnAssign)
                        and isinstance(n.target, ast.Attribute)
                        and isinstance(n.target.value, ast.Name)
                        and n.target.value.id == "self"
                    ):
                        out.setdefault(n.target.attr, n.annotation)
                    elif (
                        isinstance(n, ast.Assign)
                        and len(n.targets) == 1
                        and isinstance(n.targets[0], ast.Attribute)
                        and isinstance(n.targets[0].value, ast.Name)
                        and n.targets[0].value.id == "self"
                    ):
                        v = n.value
                        # self.x = ClassName(...)  /  self.x = <annotated parameter>
                        if isinstance(v, ast.Call) and isinstance(v.func, ast.Name) and v.func.id[:1].isupper():
                            inferred.setdefault(n.targets[0].attr, ast.Name(id=v.func.id, ctx=ast.Load()))
                        if isinstance(v, ast.BoolOp) and isinstance(v.op, ast.Or) and isinstance(v.values[0], ast.Name):
                            v = v.values[0]  # self.x = param or <default>
                        if isinstance(v, ast.Name):
                            for a in m.node.args.args + m.node.args.kwonlyargs:  # type: ignore[attr-defined]
                                if a.arg == v.id and a.annotation is not None:
                                    inferred.setdefault(n.targets[0].attr, a.annotation)
            for k, v in c.class_ann.items():
                out.setdefault(k, v)
        for k, v in inferred.items():
            out.setdefault(k, v)
        object.__setattr__(self, "_iaa", out)
        return out


@dataclass
class ModuleInfo:
    name: str
    path: str
    relpath: str
    sha256: str
    tree: Optional[ast.Module]
    source: str
    is_pkg: bool
    imports: dict[str, tuple[str, Optional[str]]] = field(default_factory=dict)
    # local name -> (module, attr or None)
    functions: dict[str, FuncInfo] = field(default_factory=dict)
    classes: dict[str, ClassInfo] = field(default_factory=dict)
    globals_assigned: dict[str, list[ast.AST]] = field(default_factory=dict)


INDEX_SINGLETON: Optional["SourceIndex"] = None
_AST_CACHE: dict[tuple[str, str], ast.Module] = {}


def walk_local(fn: ast.AST) -> Iterator[ast.AST]:
    """ast.walk that does not descend into nested function/class definitions or lambdas'
    *definitions* (lambda bodies are included: they run in the enclosing scope's frame chain
    and matter for effects)."""
    todo = list(ast.iter_child_nodes(fn))
    while todo:
        n = todo.pop()
        yield n
        if isinstance(n, (ast.FunctionDef, ast.AsyncFunctionDef, ast.ClassDef)):
            continue
        todo.extend(ast.iter_child_nodes(n))


def norm(node: ast.AST) -> str:
    """Normalised text of a construct (layout- and comment-independent)."""
    try:
        return ast.unparse(node)
    except Exception:  # pragma: no cover
        return ast.dump(node)


def short(node: ast.AST, n: int = 110) -> str:
    s = " ".join(norm(node).split())
    return s if len(s) <= n else s[: n - 3] + "..."


class SourceIndex:
    def __init__(self, repo: str = REPO, overlay: Optional[dict[str, str]] = None) -> None:
        global INDEX_SINGLETON
        self.repo = repo
        self.overlay = overlay or {}  # repo-relative path -> replacement text (mutant self-test)
        self.src = os.path.join(repo, PKG_ROOT_REL)
        self.modules: dict[str, ModuleInfo] = {}
        self.classes_by_name: dict[str, list[ClassInfo]] = {}
        self.methods_by_name: dict[str, list[FuncInfo]] = {}
        self.all_functions: list[FuncInfo] = []
        self.unparsed: list[str] = []
        self._load()
        self._link()
        INDEX_SINGLETON = self

    # ------------------------------------------------------------------ loading
    def _load(self) -> None:
        root = os.path.join(self.src, PKG)
        if not os.path.isdir(root):
            raise AnalysisError(f"package directory {root} not found")
        for dirpath, dirnames, filenames in os.walk(root):
            dirnames[:] = sorted(
                d for d in dirnames if d not in ("__pycache__", "antlr4-cpp-runtime")
            )
            for fnm in sorted(filenames):
                if not fnm.endswith(".py"):
                    continue
                path = os.path.join(dirpath, fnm)
                rel = os.path.relpath(path, self.repo)
                modparts = os.path.relpath(path, self.src)[:-3].split(os.sep)
                is_pkg = modparts[-1] == "__init__"
                if is_pkg:
                    modparts = modparts[:-1]
                name = ".".join(modparts)
                if rel in self.overlay:
                    raw = self.overlay[rel].encode("utf-8")
                else:
                    with open(path, "rb") as fh:
                        raw = fh.read()
                sha = hashlib.sha256(raw).hexdigest()
                tree = None
                src = ""
                if name not in GENERATED:
                    src = raw.decode("utf-8")
                    ck = (rel, sha)
                    tree = _AST_CACHE.get(ck)
                    if tree is None:
                        try:
                            tree = ast.parse(src, filename=path)
                        except SyntaxError as e:
                            raise AnalysisError(f"{rel} does not parse: {e}")
                        _AST_CACHE[ck] = tree
                self.modules[name] = ModuleInfo(name, path, rel, sha, tree, src, is_pkg)

    def read_text(self, rel: str) -> str:
        """Text of any file of the working tree (repo-relative), overlay first."""
        if rel in self.overlay:
            return self.overlay[rel]
        p = os.path.join(self.repo, rel)
        if not os.path.exists(p):
            raise AnalysisError(f"anchor file {rel} not found in the working tree")
        with open(p, "rb") as fh:
            return fh.read().decode("utf-8", errors="replace")

    def parse_generated(self, name: str) -> ast.Module:
        m = self.modules.get(name)
        if m is None:
            raise AnalysisError(f"generated module {name} not found")
        if m.tree is None:
            with open(m.path, "rb") as fh:
                raw = fh.read()
            m.source = raw.decode("utf-8")
            m.tree = ast.parse(m.source, filename=m.path)
        return m.tree

    def _abs_module(self, mod: ModuleInfo, level: int, name: Optional[str]) -> str:
        if level == 0:
            return name or ""
        parts = mod.name.split(".")
        if not mod.is_pkg:
            parts = parts[:-1]
        if level > 1:
            parts = parts[: len(parts) - (level - 1)]
        if name:
            parts = parts + name.split(".")
        return ".".join(parts)

    def _link(self) -> None:
        for mod in self.modules.values():
            if mod.tree is None:
                continue
            self._index_module(mod)
        # resolve bases
        for mod in self.modules.values():
            for ci in mod.classes.values():
                for b in ci.node.bases:
                    ci.base_exprs.append(norm(b))
                    target = self.resolve_class_expr(mod, b)
                    if target is not None:
                        ci.bases.append(target)
                        target.subclasses.append(ci)

    def _index_module(self, mod: ModuleInfo) -> None:
        assert mod.tree is not None

        def handle_imports(stmts: Iterable[ast.stmt]) -> None:
            for st in stmts:
                if isinstance(st, ast.Import):
                    for a in st.names:
                        if a.asname:
                            mod.imports[a.asname] = (a.name, None)
                        else:
                            top = a.name.split(".")[0]
                            mod.imports[top] = (top, None)
                elif isinstance(st, ast.ImportFrom):
                    base = self._abs_module(mod, st.level, st.module)
                    for a in st.names:
                        mod.imports[a.asname or a.name] = (base, a.name)
                elif isinstance(st, (ast.If, ast.Try)):
                    for sub in ast.iter_child_nodes(st):
                        if isinstance(sub, ast.stmt):
                            handle_imports([sub])
                        elif isinstance(sub, ast.ExceptHandler):
                            handle_imports(sub.body)

        handle_imports(mod.tree.body)
        # function-level imports are also recorded (lowest priority) so that call
        # resolution inside functions sees them
        for n in ast.walk(mod.tree):
            if isinstance(n, ast.ImportFrom):
                base = self._abs_module(mod, n.level, n.module)
                for a in n.names:
                    mod.imports.setdefault(a.asname or a.name, (base, a.name))
            elif isinstance(n, ast.Import):
                for a in n.names:
                    if a.asname:
                        mod.imports.setdefault(a.asname, (a.name, None))
                    else:
                        top = a.name.split(".")[0]
                        mod.imports.setdefault(top, (top, None))

        def index_body(body: list[ast.stmt], prefix: str, cls: Optional[ClassInfo]) -> None:
            for st in body:
                if isinstance(st, (ast.FunctionDef, ast.AsyncFunctionDef)):
                    q = f"{prefix}{st.name}"
                    fi = FuncInfo(mod.name, q, st, cls)
                    if cls is not None:
                        # keep the first definition unless a later one is a setter etc.
                        decos = [norm(d) for d in st.decorator_list]
                        if any(d.endswith(".setter") for d in decos):
                            cls.methods[st.name + ".setter"] = fi
                        elif any(d.endswith(".deleter") for d in decos):
                            cls.methods[st.name + ".deleter"] = fi
                        elif any("overload" in d for d in decos):
                            pass
                        else:
                            cls.methods[st.name] = fi
                        self.methods_by_name.setdefault(st.name, []).append(fi)
                    else:
                        if not any("overload" in norm(d) for d in st.decorator_list):
                            mod.functions[q] = fi
                    self.all_functions.append(fi)
                    # nested functions
                    for sub in walk_local(st):
                        if isinstance(sub, (ast.FunctionDef, ast.AsyncFunctionDef)):
                            nfi = FuncInfo(mod.name, f"{q}.<locals>.{sub.name}", sub, cls)
                            self.all_functions.append(nfi)
                elif isinstance(st, ast.ClassDef):
                    ci = ClassInfo(mod.name, st.name, st)
                    mod.classes[st.name] = ci
                    self.classes_by_name.setdefault(st.name, []).append(ci)
                    index_body(st.body, f"{st.name}.", ci)
                elif isinstance(st, ast.Assign) and cls is not None:
                    for t in st.targets:
                        if isinstance(t, ast.Name):
                            cls.class_attrs[t.id] = st.value
                elif isinstance(st, ast.AnnAssign) and cls is not None:
                    if isinstance(st.target, ast.Name):
                        cls.class_ann[st.target.id] = st.annotation
                        if st.value is not None:
                            cls.class_attrs[st.target.id] = st.value
                elif isinstance(st, (ast.Assign, ast.AnnAssign, ast.AugAssign)) and cls is None:
                    targets = st.targets if isinstance(st, ast.Assign) else [st.target]
                    for t in targets:
                        for nm in ast.walk(t):
                            if isinstance(nm, ast.Name):
                                mod.globals_assigned.setdefault(nm.id, []).append(st)
                elif isinstance(st, (ast.If, ast.Try)) and cls is None:
                    subs: list[ast.stmt] = []
                    for sub in ast.iter_child_nodes(st):
                        if isinstance(sub, ast.stmt):
                            subs.append(sub)
                        elif isinstance(sub, ast.ExceptHandler):
                            subs.extend(sub.body)
                    index_body(subs, prefix, cls)

        index_body(mod.tree.body, "", None)

    # --------------------------------------------------------------- resolution
    def resolve_name(self, mod: ModuleInfo, name: str, _depth: int = 0):
        """Resolve a module-level name to ClassInfo | FuncInfo | ModuleInfo | None."""
        if _depth > 8:
            return None
        if name in mod.classes:
            return mod.classes[name]
        if name in mod.functions:
            return mod.functions[name]
        if name in mod.imports:
            base, attr = mod.imports[name]
            if attr is None:
                return self.modules.get(base)
            target = self.modules.get(base)
            sub = self.modules.get(f"{base}.{attr}")
            if target is not None and target.tree is not None:
                r = self.resolve_name(target, attr, _depth + 1)
                if r is not None:
                    return r
            if sub is not None:
                return sub
        return None

    def resolve_class_expr(self, mod: ModuleInfo, expr: ast.AST) -> Optional[ClassInfo]:
        if isinstance(expr, ast.Name):
            r = self.resolve_name(mod, expr.id)
            return r if isinstance(r, ClassInfo) else None
        if isinstance(expr, ast.Attribute):
            base = self.resolve_dotted(mod, expr.value)
            if isinstance(base, ModuleInfo):
                r = self.resolve_name(base, expr.attr) if base.tree is not None else None
                if r is None:
                    r = self.modules.get(f"{base.name}.{expr.attr}")
                return r if isinstance(r, ClassInfo) else None
        if isinstance(expr, ast.Subscript):  # Generic[T] etc.
            return self.resolve_class_expr(mod, expr.value)
        if isinstance(expr, ast.Constant) and isinstance(expr.value, str):
            try:
                return self.resolve_class_expr(mod, ast.parse(expr.value, mode="eval").body)
            except SyntaxError:
                return None
        return None

    def resolve_dotted(self, mod: ModuleInfo, expr: ast.AST):
        if isinstance(expr, ast.Name):
            return self.resolve_name(mod, expr.id)
        if isinstance(expr, ast.Attribute):
            base = self.resolve_dotted(mod, expr.value)
            if isinstance(base, ModuleInfo):
                if base.tree is not None:
                    r = self.resolve_name(base, expr.attr)
                    if r is not None:
                        return r
                return self.modules.get(f"{base.name}.{expr.attr}")
            if isinstance(base, ClassInfo):
                return base.lookup(expr.attr)
        return None

    # ------------------------------------------------------------------ anchors
    def module(self, name: str) -> ModuleInfo:
        m = self.modules.get(name)
        if m is None or m.tree is None:
            raise AnalysisError(f"anchor module {name} not found in the working tree")
        return m

    def cls(self, module: str, name: str) -> ClassInfo:
        m = self.module(module)
        c = m.classes.get(name)
        if c is None:
            # follow a move: unique class of that name anywhere in the package
            cands = self.classes_by_name.get(name, [])
            if len(cands) == 1:
                return cands[0]
            raise AnalysisError(f"anchor class {module}:{name} not found")
        return c

    def func(self, module: str, qualname: str) -> FuncInfo:
        if "." in qualname:
            cname, mname = qualname.split(".", 1)
            c = self.cls(module, cname)
            f = c.methods.get(mname)
            if f is None:
                raise AnalysisError(f"anchor method {c.fq}.{mname} not found")
            return f
        m = self.module(module)
        f = m.functions.get(qualname)
        if f is None:
            raise AnalysisError(f"anchor function {module}:{qualname} not found")
        return f

    def method(self, cls: ClassInfo, name: str, inherited: bool = True) -> FuncInfo:
        f = cls.lookup(name) if inherited else cls.methods.get(name)
        if f is None:
            raise AnalysisError(f"anchor method {cls.fq}.{name} not found")
        return f

    def hand_written(self) -> list[ModuleInfo]:
        return [m for m in self.modules.values() if m.tree is not None and m.name not in GENERATED]

    def digest_of(self, modules: Iterable[str]) -> dict[str, str]:
        return {self.modules[m].relpath: self.modules[m].sha256 for m in modules if m in self.modules}


# ---------------------------------------------------------------------- typing


def ann_class_names(ann: Optional[ast.AST]) -> list[str]:
    """Class names mentioned by an annotation, container element types and Optional/Union
    flattened.  Strings are parsed."""
    if ann is None:
        return []
    if isinstance(ann, ast.Constant) and isinstance(ann.value, str):
        try:
            return ann_class_names(ast.parse(ann.value, mode="eval").body)
        except SyntaxError:
            return []
    if isinstance(ann, ast.Name):
        return [ann.id]
    if isinstance(ann, ast.Attribute):
        return [ann.attr]
    if isinstance(ann, ast.BinOp) and isinstance(ann.op, ast.BitOr):
        return ann_class_names(ann.left) + ann_class_names(ann.right)
    if isinstance(ann, ast.Subscript):
        head = ann.value
        hn = head.id if isinstance(head, ast.Name) else head.attr if isinstance(head, ast.Attribute) else ""
        if hn in ("Optional", "Union"):
            return ann_class_names(ann.slice)
        # containers: not the type of the value itself
        return []
    if isinstance(ann, ast.Tuple):
        out: list[str] = []
        for e in ann.elts:
            out += ann_class_names(e)
        return out
    return []


def ann_elem_class_names(ann: Optional[ast.AST]) -> list[str]:
    """Element class names for list[T]/set[T]/Sequence[T]/Iterable[T]/tuple[T, ...]."""
    if ann is None:
        return []
    if isinstance(ann, ast.Constant) and isinstance(ann.value, str):
        try:
            return ann_elem_class_names(ast.parse(ann.value, mode="eval").body)
        except SyntaxError:
            return []
    if isinstance(ann, ast.BinOp) and isinstance(ann.op, ast.BitOr):
        return ann_elem_class_names(ann.left) + ann_elem_class_names(ann.right)
    if isinstance(ann, ast.Subscript):
        head = ann.value
        hn = head.id if isinstance(head, ast.Name) else head.attr if isinstance(head, ast.Attribute) else ""
        if hn in ("Optional", "Union"):
            return ann_elem_class_names(ann.slice)
        if hn in ("list", "List", "set", "Set", "frozenset", "Sequence", "Iterable", "Iterator",
                  "Collection", "MutableSequence", "Generator", "deque"):
            sl = ann.slice
            if isinstance(sl, ast.Tuple):
                sl = sl.elts[0]
            return ann_class_names(sl)
        if hn in ("tuple", "Tuple"):
            return ann_class_names(ann.slice)
    return []


class TypeEnv:
    """Annotation-driven static types of expressions inside one function."""

    def __init__(self, index: SourceIndex, fn: FuncInfo) -> None:
        self.index = index
        self.fn = fn
        self.mod = index.modules[fn.module]
        self.locals: dict[str, set[str]] = {}  # name -> class fqs
        self.elem: dict[str, set[str]] = {}
        self._build()

    def _classes_named(self, names: Iterable[str]) -> set[str]:
        out: set[str] = set()
        for n in names:
            r = self.index.resolve_name(self.mod, n)
            if isinstance(r, ClassInfo):
                out.add(r.fq)
            else:
                cands = self.index.classes_by_name.get(n, [])
                if len(cands) == 1:
                    out.add(cands[0].fq)
        return out

    def _build(self) -> None:
        node = self.fn.node
        a = node.args  # type: ignore[attr-defined]
        allargs = a.posonlyargs + a.args + a.kwonlyargs
        for i, arg in enumerate(allargs):
            if i == 0 and self.fn.cls is not None and arg.arg in ("self",):
                self.locals["self"] = {self.fn.cls.fq}
                continue
            if i == 0 and self.fn.cls is not None and arg.arg == "cls":
                continue
            self.locals[arg.arg] = self._classes_named(ann_class_names(arg.annotation))
            self.elem[arg.arg] = self._classes_named(ann_elem_class_names(arg.annotation))
        # two rounds so that chains a = X(); b = a.m() resolve
        for _ in range(2):
            for n in walk_local(node):
                if isinstance(n, ast.AnnAssign) and isinstance(n.target, ast.Name):
                    self.locals.setdefault(n.target.id, set()).update(
                        self._classes_named(ann_class_names(n.annotation))
                    )
                    self.elem.setdefault(n.target.id, set()).update(
                        self._classes_named(ann_elem_class_names(n.annotation))
                    )
                elif isinstance(n, ast.Assign) and len(n.targets) == 1 and isinstance(n.targets[0], ast.Name):
                    t = self.type_of(n.value)
                    if t:
                        self.locals.setdefault(n.targets[0].id, set()).update(t)
                    e = self.elem_type_of(n.value)
                    if e:
                        self.elem.setdefault(n.targets[0].id, set()).update(e)
                elif isinstance(n, (ast.For, ast.comprehension)) and isinstance(n.target, ast.Name):
                    e = self.elem_type_of(n.iter)
                    if e:
                        self.locals.setdefault(n.target.id, set()).update(e)
                elif isinstance(n, ast.NamedExpr) and isinstance(n.target, ast.Name):
                    t = self.type_of(n.value)
                    if t:
                        self.locals.setdefault(n.target.id, set()).update(t)

    def _cls(self, fq: str) -> Optional[ClassInfo]:
        mod, name = fq.split(":")
        m = self.index.modules.get(mod)
        return m.classes.get(name) if m else None

    def attr_type(self, owner_fqs: set[str], attr: str, elem: bool = False) -> set[str]:
        out: set[str] = set()
        for fq in owner_fqs:
            c = self._cls(fq)
            if c is None:
                continue
            anns = c.instance_attr_annotations()
            if attr in anns:
                names = ann_elem_class_names(anns[attr]) if elem else ann_class_names(anns[attr])
                cm = self.index.modules[c.module]
                for n in names:
                    r = self.index.resolve_name(cm, n)
                    if isinstance(r, ClassInfo):
                        out.add(r.fq)
                    else:
                        cands = self.index.classes_by_name.get(n, [])
                        if len(cands) == 1:
                            out.add(cands[0].fq)
                continue
            prop = c.lookup(attr)
            if prop is not None and any("property" in d for d in prop.decorators()):
                ret = prop.node.returns  # type: ignore[attr-defined]
                names = ann_elem_class_names(ret) if elem else ann_class_names(ret)
                pm = self.index.modules[prop.module]
                for n in names:
                    r = self.index.resolve_name(pm, n)
                    if isinstance(r, ClassInfo):
                        out.add(r.fq)
                    else:
                        cands = self.index.classes_by_name.get(n, [])
                        if len(cands) == 1:
                            out.add(cands[0].fq)
        return out

    def type_of(self, e: ast.AST) -> set[str]:
        if isinstance(e, ast.Name):
            return set(self.locals.get(e.id, set()))
        if isinstance(e, ast.Attribute):
            return self.attr_type(self.type_of(e.value), e.attr)
        if isinstance(e, ast.Call):
            tgt = self.index.resolve_dotted(self.mod, e.func) if isinstance(e.func, (ast.Name, ast.Attribute)) else None
            if isinstance(tgt, ClassInfo):
                return {tgt.fq}
            if isinstance(tgt, FuncInfo) and tgt.cls is None:
                return self._ret_types(tgt)
            if isinstance(e.func, ast.Attribute):
                out: set[str] = set()
                for fq in self.type_of(e.func.value):
                    c = self._cls(fq)
                    if c is None:
                        continue
                    m = c.lookup(e.func.attr)
                    if m is not None:
                        out |= self._ret_types(m)
                return out
            if isinstance(e.func, ast.Name) and e.func.id in ("copy", "deepcopy") and e.args:
                return self.type_of(e.args[0])
            if isinstance(e.func, ast.Call) and norm(e.func) == "super()":
                return set()
        if isinstance(e, ast.Subscript):
            return self.elem_type_of(e.value)
        if isinstance(e, ast.IfExp):
            return self.type_of(e.body) | self.type_of(e.orelse)
        if isinstance(e, ast.Await):
            return self.type_of(e.value)
        return set()

    def _ret_types(self, f: FuncInfo, elem: bool = False) -> set[str]:
        ret = f.node.returns  # type: ignore[attr-defined]
        names = ann_elem_class_names(ret) if elem else ann_class_names(ret)
        fm = self.index.modules[f.module]
        out: set[str] = set()
        for n in names:
            if n == "Self" and f.cls is not None:
                out.add(f.cls.fq)
                continue
            r = self.index.resolve_name(fm, n)
            if isinstance(r, ClassInfo):
                out.add(r.fq)
            else:
                cands = self.index.classes_by_name.get(n, [])
                if len(cands) == 1:
                    out.add(cands[0].fq)
        return out

    def _with_comprehension_vars(self, comp: ast.AST, thunk):
        """Evaluates thunk() with the comprehension's loop variables bound to the element types of their iterables."""
        saved_l: dict[str, Optional[set[str]]] = {}
        try:
            for g in comp.generators:  # type: ignore[attr-defined]
                if isinstance(g.target, ast.Name):
                    t = self.elem_type_of(g.iter)
                    if t:
                        saved_l[g.target.id] = self.locals.get(g.target.id)
                        self.locals[g.target.id] = set(t)
            return thunk()
        finally:
            for k, v in saved_l.items():
                if v is None:
                    self.locals.pop(k, None)
                else:
                    self.locals[k] = v

    def elem_type_of(self, e: ast.AST) -> set[str]:
        if isinstance(e, ast.Name):
            return set(self.elem.get(e.id, set()))
        if isinstance(e, ast.Attribute):
            return self.attr_type(self.type_of(e.value), e.attr, elem=True)
        if isinstance(e, ast.Call):
            if isinstance(e.func, ast.Name) and e.func.id in ("list", "set", "sorted", "reversed", "tuple", "iter", "frozenset") and e.args:
                return self.elem_type_of(e.args[0])
            if isinstance(e.func, ast.Name) and e.func.id == "enumerate":
                return set()
            if isinstance(e.func, ast.Name) and e.func.id == "filter" and len(e.args) == 2:
                return self.elem_type_of(e.args[1])
            fname = norm(e.func)
            if fname in ("itertools.chain", "chain"):
                out0: set[str] = set()
                for a in e.args:
                    out0 |= self.elem_type_of(a.value if isinstance(a, ast.Starred) else a)
                return out0
            if fname in ("itertools.chain.from_iterable", "chain.from_iterable") and e.args:
                inner = e.args[0]
                if isinstance(inner, (ast.ListComp, ast.SetComp, ast.GeneratorExp)):
                    return self._with_comprehension_vars(inner, lambda: self.elem_type_of(inner.elt))
                return set()
            if isinstance(e.func, ast.Attribute):
                out: set[str] = set()
                for fq in self.type_of(e.func.value):
                    c = self._cls(fq)
                    if c is None:
                        continue
                    m = c.lookup(e.func.attr)
                    if m is not None:
                        out |= self._ret_types(m, elem=True)
                return out
            tgt = self.index.resolve_dotted(self.mod, e.func) if isinstance(e.func, (ast.Name, ast.Attribute)) else None
            if isinstance(tgt, FuncInfo):
                return self._ret_types(tgt, elem=True)
        if isinstance(e, (ast.List, ast.Set, ast.Tuple)):
            out2: set[str] = set()
            for x in e.elts:
                out2 |= self.type_of(x.value if isinstance(x, ast.Starred) else x)
            return out2
        if isinstance(e, ast.ListComp) or isinstance(e, ast.SetComp) or isinstance(e, ast.GeneratorExp):
            return self._with_comprehension_vars(e, lambda: self.type_of(e.elt))
        if isinstance(e, ast.Subscript) and isinstance(e.slice, ast.Slice):
            return self.elem_type_of(e.value)
        if isinstance(e, ast.BinOp) and isinstance(e.op, ast.Add):
            return self.elem_type_of(e.left) | self.elem_type_of(e.right)
        return set()


# ------------------------------------------------------------------ call graph


class CallGraph:
    """Over-approximating call graph over the hand-written package.

    A call site is resolved (1) exactly when the callee expression names a module-level
    function/class or the receiver's static type is known, (2) by method name within the whole
    package otherwise (class-hierarchy by name).  Dunder protocol calls made by operators
    (`len(x)`, `x[i]`, `str(x)`, `hash(x)`, iteration, `==`) are mapped onto the corresponding
    special methods of the receiver's static type when it is known."""

    BUILTIN_TO_DUNDER = {
        "len": "__len__", "str": "__str__", "bytes": "__bytes__", "int": "__int__", "hash": "__hash__",
        "repr": "__repr__", "iter": "__iter__", "bool": "__bool__", "float": "__float__", "next": "__next__",
        "deepcopy": "__deepcopy__", "copy": "__copy__",
    }

    # names so generic that by-name fallback would connect everything with everything;
    # they are resolved only when the receiver type is known
    NO_FALLBACK = {
        "append", "extend", "add", "update", "pop", "get", "items", "keys", "values", "join", "format",
        "startswith", "endswith", "split", "strip", "encode", "decode", "copy", "clear", "remove", "insert",
        "index", "count", "sort", "lower", "upper", "replace", "find", "read", "write", "close", "put",
        "send", "recv", "start", "run", "wait", "info", "debug", "warning", "error", "setdefault",
        "__init__", "group", "match", "search", "fullmatch", "discard", "union", "isdigit", "lstrip", "rstrip",
    }

    def __init__(self, index: SourceIndex) -> None:
        self.index = index
        self.edges: dict[str, set[str]] = {}
        self.sites: dict[str, list[tuple[ast.Call, set[str], str]]] = {}
        self.funcs: dict[str, FuncInfo] = {f.fq: f for f in index.all_functions}
        self.resolved_exact = 0
        self.resolved_byname = 0
        self.unresolved = 0
        self._envs: dict[str, TypeEnv] = {}
        self.nested: dict[tuple[str, str], list[FuncInfo]] = {}
        for g in index.all_functions:
            if ".<locals>." in g.qualname:
                self.nested.setdefault((g.module, g.qualname.split(".<locals>.")[0]), []).append(g)
        for f in index.all_functions:
            self._scan(f)

    def env(self, f: FuncInfo) -> TypeEnv:
        e = self._envs.get(f.fq)
        if e is None:
            e = TypeEnv(self.index, f)
            self._envs[f.fq] = e
        return e

    def _methods_of_types(self, fqs: set[str], name: str) -> set[str]:
        out: set[str] = set()
        for fq in fqs:
            mod, cname = fq.split(":")
            c = self.index.modules[mod].classes.get(cname)
            if c is None:
                continue
            m = c.lookup(name)
            if m is not None:
                out.add(m.fq)
            # dynamic dispatch: overriding definitions in subclasses
            for sc in c.all_subclasses():
                if name in sc.methods:
                    out.add(sc.methods[name].fq)
        return out

    def resolve_call(self, f: FuncInfo, call: ast.Call) -> tuple[set[str], str]:
        env = self.env(f)
        mod = self.index.modules[f.module]
        fn = call.func
        if isinstance(fn, ast.Name):
            if fn.id in self.BUILTIN_TO_DUNDER and call.args:
                t = env.type_of(call.args[0])
                if t:
                    return self._methods_of_types(t, self.BUILTIN_TO_DUNDER[fn.id]), "exact"
            # nested function of this function
            for cand in self.nested.get((f.module, f.qualname.split(".<locals>.")[0]), ()):
                if cand.qualname.endswith(f".<locals>.{fn.id}"):
                    return {cand.fq}, "exact"
            r = self.index.resolve_name(mod, fn.id)
            if isinstance(r, FuncInfo):
                return {r.fq}, "exact"
            if isinstance(r, ClassInfo):
                out = set()
                init = r.lookup("__init__")
                if init is not None:
                    out.add(init.fq)
                post = r.lookup("__post_init__")
                if post is not None:
                    out.add(post.fq)
                return out, "exact"
            return set(), "external"
        if isinstance(fn, ast.Attribute):
            # super().m()
            if isinstance(fn.value, ast.Call) and norm(fn.value.func) == "super" and f.cls is not None:
                for c in f.cls.mro()[1:]:
                    if fn.attr in c.methods:
                        return {c.methods[fn.attr].fq}, "exact"
                return set(), "external"
            r = self.index.resolve_dotted(mod, fn)
            if isinstance(r, FuncInfo):
                out = {r.fq}
                if r.cls is not None:
                    for sc in r.cls.all_subclasses():
                        if fn.attr in sc.methods:
                            out.add(sc.methods[fn.attr].fq)
                return out, "exact"
            if isinstance(r, ClassInfo):
                init = r.lookup("__init__")
                return ({init.fq} if init else set()), "exact"
            t = env.type_of(fn.value)
            if t:
                ms = self._methods_of_types(t, fn.attr)
                if ms:
                    return ms, "exact"
                return set(), "external"
            base = self.index.resolve_dotted(mod, fn.value)
            if isinstance(base, ModuleInfo) and base.tree is None and base.name not in self.index.modules:
                return set(), "external"
            if isinstance(fn.value, ast.Name) and fn.value.id in mod.imports and self.index.resolve_name(mod, fn.value.id) is None:
                return set(), "external"  # third-party / stdlib module
            if fn.attr in self.NO_FALLBACK:
                return set(), "external"
            cands = self.index.methods_by_name.get(fn.attr, [])
            if cands:
                return {c.fq for c in cands}, "byname"
            return set(), "external"
        return set(), "unknown"

    def _scan(self, f: FuncInfo) -> None:
        out: set[str] = set()
        sites = []
        for n in walk_local(f.node):
            if isinstance(n, ast.Call):
                tg, how = self.resolve_call(f, n)
                if how == "exact":
                    self.resolved_exact += 1
                elif how == "byname":
                    self.resolved_byname += 1
                elif how == "unknown":
                    self.unresolved += 1
                out |= tg
                sites.append((n, tg, how))
                # function values passed as arguments (thread targets, callbacks)
                for a in list(n.args) + [k.value for k in n.keywords]:
                    if isinstance(a, ast.Attribute) and isinstance(a.value, ast.Name) and a.value.id == "self" and f.cls is not None:
                        m = f.cls.lookup(a.attr)
                        if m is not None and not any("property" in d for d in m.decorators()):
                            out.add(m.fq)
                            for sc in f.cls.all_subclasses():
                                if a.attr in sc.methods:
                                    out.add(sc.methods[a.attr].fq)
                    elif isinstance(a, ast.Name):
                        r = self.index.resolve_name(self.index.modules[f.module], a.id)
                        if isinstance(r, FuncInfo):
                            out.add(r.fq)
            elif isinstance(n, ast.Attribute) and isinstance(n.ctx, ast.Load):
                # property reads are calls
                env = self.env(f)
                t = env.type_of(n.value)
                for fq in t:
                    modn, cname = fq.split(":")
                    c = self.index.modules[modn].classes.get(cname)
                    if c is None:
                        continue
                    for cc in [c] + c.all_subclasses():
                        m = cc.lookup(n.attr) if cc is c else cc.methods.get(n.attr)
                        if m is not None and any("property" in d for d in m.decorators()):
                            out.add(m.fq)
        # nested functions are (conservatively) called by their parent
        for g in self.nested.get((f.module, f.qualname.split(".<locals>.")[0]), ()):
            if g.qualname.startswith(f.qualname + ".<locals>."):
                out.add(g.fq)
        self.edges[f.fq] = out
        self.sites[f.fq] = sites

    def reachable(self, roots: Iterable[str]) -> set[str]:
        seen: set[str] = set()
        todo = list(roots)
        while todo:
            x = todo.pop()
            if x in seen:
                continue
            seen.add(x)
            todo.extend(self.edges.get(x, ()))
        return seen

    def callers_of(self, fq: str) -> set[str]:
        return {a for a, bs in self.edges.items() if fq in bs}

    def path(self, src: str, dst: str) -> Optional[list[str]]:
        prev: dict[str, Optional[str]] = {src: None}
        todo = [src]
        while todo:
            x = todo.pop(0)
            if x == dst:
                out = []
                cur: Optional[str] = x
                while cur is not None:
                    out.append(cur)
                    cur = prev[cur]
                return out[::-1]
            for y in sorted(self.edges.get(x, ())):
                if y not in prev:
                    prev[y] = x
                    todo.append(y)
        return None


# --------------------------------------------------------------- AST utilities


def self_attr(node: ast.AST, recv: str = "self") -> Optional[str]:
    if isinstance(node, ast.Attribute) and isinstance(node.value, ast.Name) and node.value.id == recv:
        return node.attr
    return None


def names_in(node: ast.AST) -> set[str]:
    return {n.id for n in ast.walk(node) if isinstance(n, ast.Name)}


def attr_chain(node: ast.AST) -> Optional[list[str]]:
    """a.b.c -> ['a','b','c']"""
    out: list[str] = []
    while isinstance(node, ast.Attribute):
        out.append(node.attr)
        node = node.value
    if isinstance(node, ast.Name):
        out.append(node.id)
        return out[::-1]
    return None


def calls_in(node: ast.AST) -> list[ast.Call]:
    return [n for n in ast.walk(node) if isinstance(n, ast.Call)]


def call_name(call: ast.Call) -> str:
    f = call.func
    if isinstance(f, ast.Name):
        return f.id
    if isinstance(f, ast.Attribute):
        return f.attr
    return ""


def is_call_to(node: ast.AST, *names: str) -> bool:
    return isinstance(node, ast.Call) and call_name(node) in names


def get_kwarg(call: ast.Call, name: str) -> Optional[ast.AST]:
    for k in call.keywords:
        if k.arg == name:
            return k.value
    return None


def parents_map(root: ast.AST) -> dict[int, ast.AST]:
    pm: dict[int, ast.AST] = {}
    for p in ast.walk(root):
        for c in ast.iter_child_nodes(p):
            pm[id(c)] = p
    return pm


def enclosing(pm: dict[int, ast.AST], node: ast.AST, kinds: tuple) -> Optional[ast.AST]:
    cur = pm.get(id(node))
    while cur is not None:
        if isinstance(cur, kinds):
            return cur
        cur = pm.get(id(cur))
    return None


def ancestors(pm: dict[int, ast.AST], node: ast.AST) -> list[ast.AST]:
    out = []
    cur = pm.get(id(node))
    while cur is not None:
        out.append(cur)
        cur = pm.get(id(cur))
    return out
