#!/venv/bin/python -S -I
"""Entry point: check.py <property-id> [--tier quick|thorough] [--repo DIR]

exit 0  every rule instance held (known findings are printed as KNOWN-FINDING lines)
exit 1  VIOLATION property=<id> replay=<path>  (an instance not listed in known_findings.json)
exit 2  ANALYSIS-ERROR (anchor vanished, file unparsable, vacuity guard, internal error)
"""

from __future__ import annotations

import os
import sys

HERE = os.path.dirname(os.path.abspath(__file__))
sys.path.insert(0, os.path.dirname(HERE))  # /verif/tools - the only path entry added

import argparse  # noqa: E402
import importlib  # noqa: E402
import traceback  # noqa: E402


def main(argv: list[str]) -> int:
    import time

    t_start = time.time()
    ap = argparse.ArgumentParser()
    ap.add_argument("pid")
    ap.add_argument("--tier", default=os.environ.get("VERIF_TIER", "quick"), choices=["quick", "thorough"])
    ap.add_argument("--repo", default=os.environ.get("FDG_REPO", "/repo"))
    ap.add_argument("--no-evidence", action="store_true")
    ap.add_argument("--jobs", type=int, default=int(os.environ.get("VERIF_JOBS", "16")))
    args = ap.parse_args(argv)
    pid = args.pid.upper()
    try:
        seed = int(os.environ.get("VERIF_SEED", "0"))
    except ValueError:
        seed = 0

    from fdg_static.core import AnalysisError
    from fdg_static.engine import Engine
    from fdg_static.report import Check, finish

    try:
        try:
            mod = importlib.import_module(f"fdg_static.rules.{pid.lower()}")
        except ModuleNotFoundError:
            print(f"ANALYSIS-ERROR no rules for property {pid}")
            return 2
        eng = Engine(args.repo)
        chk = Check(pid, args.tier, seed)
        chk.t0 = t_start
        mod.run(chk, eng)
        chk.files = eng.files_consulted()
        if args.tier == "thorough":
            from fdg_static import selftest

            selftest.run(chk, mod, args.repo, jobs=args.jobs)
        return finish(chk, write_evidence=not args.no_evidence)
    except AnalysisError as e:
        print(f"ANALYSIS-ERROR property={pid}: {e}")
        return 2
    except Exception:  # internal error of the analysis: never a pass, never a violation
        traceback.print_exc()
        print(f"ANALYSIS-ERROR property={pid}: internal error (traceback above)")
        return 2


if __name__ == "__main__":
    sys.exit(main(sys.argv[1:]))
