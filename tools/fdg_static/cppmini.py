"""A reader for the small C++ subset used by the hand-written lexer base class (FandangoLexerBase.cpp), and a
canonical form shared with Python's ast - so that the layout algorithm of the two spec front ends can be compared
as siblings (C14).

Only what that file uses is understood: function bodies made of declarations with initialiser, expression
statements, if / else if / else, while, range-for, return; expressions with the usual operator precedence,
member calls (`.` and `->`), postfix ++/--, the conditional operator, char / string / number literals.
Anything else raises CppError - the caller turns that into an analysis error, never into a pass.

Canonical form (nested tuples):
    ("name", n)                 identifiers; `self.` / `this->` stripped, case and underscores folded (nextNext == next_next == next_)
    ("num", v) ("str", s)       literals; a char literal is its code point
    ("call", recv|None, method, (args...))
    ("cmp", op, a, b)           op in ==, !=, <, <=   (> and >= are swapped)
    ("and", (..)) ("or", (..))  flattened
    ("not", x) ("neg", x) ("bin", op, a, b) ("cond", c, a, b)
    ("empty", x) ("nonempty", x) ("back", x) ("in", x, (consts...)) ("truthy", x)
Statements:
    ("if", cond, then, else) ("while", cond, body) ("for", var, iter, body) ("aug", op, target, value)
    ("assign", target, value) ("expr", e) ("return", e)
"""

from __future__ import annotations

import ast
import re
from typing import Any, Optional


class CppError(Exception):
    pass


TOKEN = re.compile(r"""
    \s+ | //[^\n]* | /\*.*?\*/
  | (?P<num>\d+)
  | (?P<chr>'(?:\\.|[^'\\])')
  | (?P<str>"(?:\\.|[^"\\])*")
  | (?P<id>[A-Za-z_][A-Za-z_0-9]*(?:::[A-Za-z_~][A-Za-z_0-9]*)*)
  | (?P<op>\+\+|--|->|\|\||&&|==|!=|<=|>=|\+=|-=|<<|>>|[-+*/%!<>=(){}\[\];,.?:&])
""", re.X | re.S)

ESC = {"n": 10, "r": 13, "t": 9, "f": 12, "0": 0, "\\": 92, "'": 39, '"': 34}


def tokenize(src: str) -> list[tuple[str, str]]:
    out = []
    i = 0
    while i < len(src):
        m = TOKEN.match(src, i)
        if not m:
            raise CppError(f"cannot tokenise at {src[i:i + 30]!r}")
        i = m.end()
        if m.lastgroup:
            out.append((m.lastgroup, m.group(m.lastgroup)))
    return out


def fold(name: str) -> str:
    name = name.split("::")[-1] if not name.startswith(("std::", "antlr4::")) else name
    return name.replace("_", "").lower()


class Parser:
    def __init__(self, toks: list[tuple[str, str]]):
        self.t = toks
        self.i = 0

    def peek(self, k: int = 0) -> tuple[str, str]:
        return self.t[self.i + k] if self.i + k < len(self.t) else ("eof", "")

    def eat(self, val: Optional[str] = None) -> tuple[str, str]:
        tok = self.peek()
        if val is not None and tok[1] != val:
            raise CppError(f"expected {val!r}, found {tok[1]!r}")
        self.i += 1
        return tok

    # ---------------------------------------------------------------- expressions
    def expr(self) -> Any:
        c = self.or_()
        if self.peek()[1] == "?":
            self.eat()
            a = self.expr()
            self.eat(":")
            b = self.expr()
            return ("cond", c, a, b)
        return c

    def or_(self) -> Any:
        xs = [self.and_()]
        while self.peek()[1] == "||":
            self.eat()
            xs.append(self.and_())
        return xs[0] if len(xs) == 1 else ("or", tuple(xs))

    def and_(self) -> Any:
        xs = [self.eq()]
        while self.peek()[1] == "&&":
            self.eat()
            xs.append(self.eq())
        return xs[0] if len(xs) == 1 else ("and", tuple(xs))

    def eq(self) -> Any:
        a = self.rel()
        while self.peek()[1] in ("==", "!="):
            op = self.eat()[1]
            a = ("cmp", op, a, self.rel())
        return a

    def rel(self) -> Any:
        a = self.add()
        while self.peek()[1] in ("<", ">", "<=", ">="):
            op = self.eat()[1]
            b = self.add()
            a = ("cmp", op, a, b)
        return a

    def add(self) -> Any:
        a = self.mul()
        while self.peek()[1] in ("+", "-"):
            op = self.eat()[1]
            a = ("bin", op, a, self.mul())
        return a

    def mul(self) -> Any:
        a = self.unary()
        while self.peek()[1] in ("*", "/", "%"):
            op = self.eat()[1]
            a = ("bin", op, a, self.unary())
        return a

    def unary(self) -> Any:
        if self.peek()[1] == "!":
            self.eat()
            return ("not", self.unary())
        if self.peek()[1] == "-":
            self.eat()
            return ("neg", self.unary())
        if self.peek()[1] in ("*", "&"):
            self.eat()
            return self.unary()
        return self.postfix()

    def postfix(self) -> Any:
        kind, val = self.eat()
        if kind == "num":
            a: Any = ("num", int(val))
        elif kind == "chr":
            body = val[1:-1]
            a = ("num", ESC.get(body[1], ord(body[1])) if body.startswith("\\") else ord(body))
        elif kind == "str":
            a = ("str", bytes(val[1:-1], "utf-8").decode("unicode_escape"))
        elif kind == "id":
            a = ("name", val)
        elif val == "(":
            a = self.expr()
            self.eat(")")
        else:
            raise CppError(f"unexpected token {val!r}")
        while True:
            nxt = self.peek()[1]
            if nxt == "(":
                self.eat()
                args = []
                while self.peek()[1] != ")":
                    args.append(self.expr())
                    if self.peek()[1] == ",":
                        self.eat()
                self.eat(")")
                if a[0] == "name":
                    a = ("call", None, a[1], tuple(args))
                elif a[0] == "member":
                    a = ("call", a[1], a[2], tuple(args))
                else:
                    raise CppError("call of a non-name")
            elif nxt in (".", "->"):
                self.eat()
                a = ("member", a, self.eat()[1])
            elif nxt in ("++", "--"):
                self.eat()
                a = ("postinc" if nxt == "++" else "postdec", a)
            elif nxt == "[":
                self.eat()
                idx = self.expr()
                self.eat("]")
                a = ("index", a, idx)
            else:
                return a

    # ---------------------------------------------------------------- statements
    def block_or_stmt(self) -> list[Any]:
        if self.peek()[1] == "{":
            self.eat()
            out = []
            while self.peek()[1] != "}":
                out += self.stmt()
            self.eat("}")
            return out
        return self.stmt()

    def stmt(self) -> list[Any]:
        kind, val = self.peek()
        if val == ";":
            self.eat()
            return []
        if val == "{":
            return self.block_or_stmt()
        if kind == "id" and val == "if":
            self.eat()
            self.eat("(")
            c = self.expr()
            self.eat(")")
            then = self.block_or_stmt()
            els: list[Any] = []
            if self.peek() == ("id", "else"):
                self.eat()
                els = self.block_or_stmt()
            return [("if", c, tuple(then), tuple(els))]
        if kind == "id" and val == "while":
            self.eat()
            self.eat("(")
            c = self.expr()
            self.eat(")")
            return [("while", c, tuple(self.block_or_stmt()))]
        if kind == "id" and val == "for":
            self.eat()
            self.eat("(")
            # range-for only: for (T v : e)
            depth = 0
            j = self.i
            colon = None
            while j < len(self.t):
                if self.t[j][1] == "(":
                    depth += 1
                elif self.t[j][1] == ")":
                    if depth == 0:
                        break
                    depth -= 1
                elif self.t[j][1] == ":" and depth == 0:
                    colon = j
                elif self.t[j][1] == ";" and depth == 0:
                    # classic for (init; cond; step): kept as one opaque statement (header and body are not interpreted)
                    depth2 = 0
                    while j < len(self.t):
                        if self.t[j][1] == "(":
                            depth2 += 1
                        elif self.t[j][1] == ")":
                            if depth2 == 0:
                                break
                            depth2 -= 1
                        j += 1
                    header = " ".join(v for _, v in self.t[self.i:j])
                    self.i = j + 1
                    start = self.i
                    if self.peek()[1] == "{":
                        d = 0
                        while self.i < len(self.t):
                            if self.t[self.i][1] == "{":
                                d += 1
                            elif self.t[self.i][1] == "}":
                                d -= 1
                                if d == 0:
                                    self.i += 1
                                    break
                            self.i += 1
                    else:
                        while self.t[self.i][1] != ";":
                            self.i += 1
                        self.i += 1
                    return [("opaque", header + " " + " ".join(v for _, v in self.t[start:self.i]))]
                j += 1
            if colon is None:
                raise CppError("for loop without ':'")
            var = self.t[colon - 1][1]
            self.i = colon + 1
            it = self.expr()
            self.eat(")")
            return [("for", ("name", var), it, tuple(self.block_or_stmt()))]
        if kind == "id" and val == "return":
            self.eat()
            e = None if self.peek()[1] == ";" else self.expr()
            self.eat(";")
            return [("return", e)]
        # declaration with initialiser:  Type [*&] name = expr ;   (Type may be templated)
        j = self.i
        if kind == "id":
            k = j + 1
            if self.t[k][1] == "<":
                depth = 0
                while k < len(self.t):
                    if self.t[k][1] == "<":
                        depth += 1
                    elif self.t[k][1] == ">":
                        depth -= 1
                        if depth == 0:
                            k += 1
                            break
                    k += 1
            while k < len(self.t) and self.t[k][1] in ("*", "&"):
                k += 1
            if k + 1 < len(self.t) and self.t[k][0] == "id" and self.t[k + 1][1] == "=":
                name = self.t[k][1]
                self.i = k + 2
                e = self.expr()
                self.eat(";")
                return [("assign", ("name", name), e)]
        e = self.expr()
        nxt = self.peek()[1]
        if nxt in ("+=", "-="):
            self.eat()
            v = self.expr()
            self.eat(";")
            return [("aug", nxt[0], e, v)]
        if nxt == "=":
            self.eat()
            v = self.expr()
            self.eat(";")
            return [("assign", e, v)]
        self.eat(";")
        if e[0] in ("postinc", "postdec"):
            return [("aug", "+" if e[0] == "postinc" else "-", e[1], ("num", 1))]
        return [("expr", e)]


def function_body(src: str, qualified_name: str) -> str:
    m = re.search(re.escape(qualified_name) + r"\s*\([^)]*\)\s*(?:const\s*)?\{", src)
    if not m:
        raise CppError(f"{qualified_name} not found")
    i = m.end()
    depth = 1
    j = i
    while j < len(src) and depth:
        if src[j] == "{":
            depth += 1
        elif src[j] == "}":
            depth -= 1
        j += 1
    return src[i:j - 1]


def parse_function(src: str, qualified_name: str) -> list[Any]:
    body = function_body(src, qualified_name)
    body = re.sub(r"#if 0.*?#endif", "", body, flags=re.S)
    p = Parser(tokenize(body))
    out: list[Any] = []
    while p.peek()[0] != "eof":
        out += p.stmt()
    return out


# ---------------------------------------------------------------------------- canonical forms
def canon_cpp(e: Any, lists: set[str]) -> Any:
    if e is None:
        return None
    k = e[0]
    if k == "name":
        return ("name", fold(e[1]))
    if k in ("num", "str"):
        return e
    if k == "member":
        base = canon_cpp(e[1], lists)
        if base == ("name", "this"):
            return ("name", fold(e[2]))
        return ("attr", base, fold(e[2]))
    if k == "call":
        recv = canon_cpp(e[1], lists) if e[1] is not None else None
        meth = fold(e[2])
        args = tuple(canon_cpp(a, lists) for a in e[3])
        if recv is not None and meth == "empty" and not args:
            return ("empty", recv)
        if recv is not None and meth == "back" and not args:
            return ("back", recv)
        if recv is not None and meth in ("pushback",):
            return ("call", recv, "append", args)
        if recv is not None and meth in ("popback",):
            return ("call", recv, "pop", ())
        if recv is None and meth == "std::move" or meth == "move":
            return args[0] if args else ("name", "move")
        return ("call", recv, meth, args)
    if k == "not":
        x = canon_cpp(e[1], lists)
        if x[0] == "empty":
            return ("nonempty", x[1])
        if x[0] == "nonempty":
            return ("empty", x[1])
        return ("not", x)
    if k == "neg":
        return ("neg", canon_cpp(e[1], lists))
    if k == "cmp":
        return _cmp(e[1], canon_cpp(e[2], lists), canon_cpp(e[3], lists))
    if k in ("and", "or"):
        xs = []
        for x in e[1]:
            cx = canon_cpp(x, lists)
            xs += list(cx[1]) if cx[0] == k else [cx]
        return _membership(k, tuple(xs))
    if k == "bin":
        return ("bin", e[1], canon_cpp(e[2], lists), canon_cpp(e[3], lists))
    if k == "cond":
        return _cond(_truth(canon_cpp(e[1], lists), lists), canon_cpp(e[2], lists), canon_cpp(e[3], lists))
    if k == "index":
        return ("index", canon_cpp(e[1], lists), canon_cpp(e[2], lists))
    if k in ("postinc", "postdec"):
        return (k, canon_cpp(e[1], lists))
    raise CppError(f"cannot canonicalise {e!r}")


def _cond(c: Any, a: Any, b: Any) -> Any:
    """c ? a : b with the test in positive form (a negated / 'nonempty' test swaps the branches)."""
    if c[0] == "nonempty":
        return ("cond", ("empty", c[1]), b, a)
    if c[0] == "not":
        return ("cond", c[1], b, a)
    if c[0] == "cmp" and c[1] == "!=":
        return ("cond", ("cmp", "==", c[2], c[3]), b, a)
    return ("cond", c, a, b)


def _cmp(op: str, a: Any, b: Any) -> Any:
    if op in (">", ">="):
        op, a, b = {">": "<", ">=": "<="}[op], b, a
    return ("cmp", op, a, b)


def _membership(k: str, xs: tuple) -> Any:
    """x == a or x == b or ...  ->  ("in", x, (a, b, ...))"""
    if k == "or" and all(x[0] == "cmp" and x[1] == "==" and x[3][0] == "num" for x in xs) and len({x[2] for x in xs}) == 1:
        return ("in", xs[0][2], tuple(sorted(x[3][1] for x in xs)))
    return (k, xs)


def canon_py(e: ast.AST, lists: set[str]) -> Any:
    """`lists`: folded names of attributes / variables that hold lists (their truth value means 'not empty')."""
    if isinstance(e, ast.Constant):
        if isinstance(e.value, bool):
            return ("name", str(e.value).lower())
        if isinstance(e.value, int):
            return ("num", e.value)
        if isinstance(e.value, str):
            return ("num", ord(e.value)) if len(e.value) == 1 else ("str", e.value)
        return ("str", repr(e.value))
    if isinstance(e, ast.Name):
        return ("name", fold(e.id))
    if isinstance(e, ast.Attribute):
        if isinstance(e.value, ast.Name) and e.value.id == "self":
            return ("name", fold(e.attr))
        return ("attr", canon_py(e.value, lists), fold(e.attr))
    if isinstance(e, ast.Call):
        if isinstance(e.func, ast.Name) and e.func.id == "len" and len(e.args) == 1:
            return ("len", canon_py(e.args[0], lists))
        if isinstance(e.func, ast.Attribute):
            return ("call", canon_py(e.func.value, lists), fold(e.func.attr), tuple(canon_py(a, lists) for a in e.args))
        if isinstance(e.func, ast.Name):
            return ("call", None, fold(e.func.id), tuple(canon_py(a, lists) for a in e.args))
    if isinstance(e, ast.Subscript):
        if isinstance(e.slice, ast.UnaryOp) and isinstance(e.slice.op, ast.USub) and isinstance(e.slice.operand, ast.Constant) and e.slice.operand.value == 1:
            return ("back", canon_py(e.value, lists))
        return ("index", canon_py(e.value, lists), canon_py(e.slice, lists))
    if isinstance(e, ast.UnaryOp):
        if isinstance(e.op, ast.Not):
            x = _truth(canon_py(e.operand, lists), lists)
            if x[0] == "nonempty":
                return ("empty", x[1])
            if x[0] == "empty":
                return ("nonempty", x[1])
            return ("not", x)
        if isinstance(e.op, ast.USub):
            return ("neg", canon_py(e.operand, lists))
    if isinstance(e, ast.BoolOp):
        k = "and" if isinstance(e.op, ast.And) else "or"
        xs = []
        for v in e.values:
            cx = _truth(canon_py(v, lists), lists)
            xs += list(cx[1]) if cx[0] == k else [cx]
        return _membership(k, tuple(xs))
    if isinstance(e, ast.Compare) and len(e.ops) == 1:
        a, b = canon_py(e.left, lists), canon_py(e.comparators[0], lists)
        op = e.ops[0]
        if isinstance(op, (ast.In,)) and isinstance(e.comparators[0], (ast.Tuple, ast.List, ast.Set)):
            consts = []
            for el in e.comparators[0].elts:
                c = canon_py(el, lists)
                if c[0] != "num":
                    return ("inexpr", a, b)
                consts.append(c[1])
            return ("in", a, tuple(sorted(consts)))
        sym = {ast.Eq: "==", ast.NotEq: "!=", ast.Lt: "<", ast.LtE: "<=", ast.Gt: ">", ast.GtE: ">="}.get(type(op))
        if sym is None:
            return ("cmpx", type(op).__name__, a, b)
        # len(x) compared with 0
        if a[0] == "len" and b == ("num", 0):
            if sym in ("!=", ">"):
                return ("nonempty", a[1])
            if sym == "==":
                return ("empty", a[1])
        return _cmp(sym, a, b)
    if isinstance(e, ast.BinOp):
        sym = {ast.Add: "+", ast.Sub: "-", ast.Mult: "*", ast.Div: "/", ast.Mod: "%", ast.FloorDiv: "//"}.get(type(e.op), "?")
        return ("bin", sym, canon_py(e.left, lists), canon_py(e.right, lists))
    if isinstance(e, ast.IfExp):
        return _cond(_truth(canon_py(e.test, lists), lists), canon_py(e.body, lists), canon_py(e.orelse, lists))
    return ("py", ast.dump(e)[:80])


def _truth(c: Any, lists: set[str]) -> Any:
    """Canonical form of expression c used as a condition."""
    if c[0] == "name" and c[1] in lists:
        return ("nonempty", c)
    if c[0] == "len":
        return ("nonempty", c[1])
    if c[0] in ("name", "attr", "back", "index", "bin"):
        return ("truthy", c)
    return c


def skeleton_cpp(stmts: list[Any], lists: set[str]) -> list[Any]:
    """Decision points in source order: ("if", cond) / ("while", cond) / ("for", var, iter)."""
    out: list[Any] = []
    for s in stmts:
        if s[0] == "if":
            c = canon_cpp(s[1], lists)
            out.append(("if", _truth(c, lists)))
            out += skeleton_cpp(list(s[2]), lists)
            out += skeleton_cpp(list(s[3]), lists)
        elif s[0] == "while":
            out.append(("while", _truth(canon_cpp(s[1], lists), lists)))
            out += skeleton_cpp(list(s[2]), lists)
        elif s[0] == "for":
            out.append(("for", canon_cpp(s[1], lists), canon_cpp(s[2], lists)))
            out += skeleton_cpp(list(s[3]), lists)
    return out


def skeleton_py(stmts: list[ast.stmt], lists: set[str]) -> list[Any]:
    out: list[Any] = []
    for s in stmts:
        if isinstance(s, ast.If):
            out.append(("if", _truth(canon_py(s.test, lists), lists)))
            out += skeleton_py(s.body, lists)
            out += skeleton_py(s.orelse, lists)
        elif isinstance(s, ast.While):
            out.append(("while", _truth(canon_py(s.test, lists), lists)))
            out += skeleton_py(s.body, lists)
        elif isinstance(s, ast.For):
            out.append(("for", canon_py(s.target, lists), canon_py(s.iter, lists)))
            out += skeleton_py(s.body, lists)
        elif isinstance(s, (ast.With, ast.Try)):
            out += skeleton_py(getattr(s, "body", []), lists)
    return out


def updates_cpp(stmts: list[Any], lists: set[str]) -> list[Any]:
    """Arithmetic updates and returns in source order (for small numeric functions)."""
    out: list[Any] = []
    for s in stmts:
        if s[0] == "aug":
            out.append(("aug", s[1], canon_cpp(s[2], lists), canon_cpp(s[3], lists)))
        elif s[0] == "assign":
            out.append(("assign", canon_cpp(s[1], lists), canon_cpp(s[2], lists)))
        elif s[0] == "return":
            out.append(("return", canon_cpp(s[1], lists)))
        elif s[0] == "if":
            out += updates_cpp(list(s[2]), lists) + updates_cpp(list(s[3]), lists)
        elif s[0] in ("while",):
            out += updates_cpp(list(s[2]), lists)
        elif s[0] == "for":
            out += updates_cpp(list(s[3]), lists)
    return out


def updates_py(stmts: list[ast.stmt], lists: set[str]) -> list[Any]:
    out: list[Any] = []
    for s in stmts:
        if isinstance(s, ast.AugAssign):
            sym = {ast.Add: "+", ast.Sub: "-"}.get(type(s.op), "?")
            out.append(("aug", sym, canon_py(s.target, lists), canon_py(s.value, lists)))
        elif isinstance(s, ast.Assign) and len(s.targets) == 1:
            out.append(("assign", canon_py(s.targets[0], lists), canon_py(s.value, lists)))
        elif isinstance(s, ast.Return):
            out.append(("return", canon_py(s.value, lists) if s.value is not None else None))
        elif isinstance(s, ast.If):
            out += updates_py(s.body, lists) + updates_py(s.orelse, lists)
        elif isinstance(s, (ast.While, ast.For)):
            out += updates_py(s.body, lists)
    return out


def show(c: Any) -> str:
    if c is None:
        return "-"
    k = c[0]
    if k == "name":
        return c[1]
    if k == "num":
        return str(c[1])
    if k == "str":
        return repr(c[1])
    if k == "cmp":
        return f"{show(c[2])} {c[1]} {show(c[3])}"
    if k in ("and", "or"):
        return "(" + f" {k} ".join(show(x) for x in c[1]) + ")"
    if k == "in":
        return f"{show(c[1])} in {list(c[2])}"
    if k in ("empty", "nonempty", "truthy", "back", "not", "neg", "len"):
        return f"{k}({show(c[1])})"
    if k == "bin":
        return f"({show(c[2])} {c[1]} {show(c[3])})"
    if k == "call":
        return (show(c[1]) + "." if c[1] is not None else "") + c[2] + "(" + ", ".join(show(a) for a in c[3]) + ")"
    if k in ("if", "while"):
        return f"{k} {show(c[1])}"
    if k == "for":
        return f"for {show(c[1])} in {show(c[2])}"
    if k == "aug":
        return f"{show(c[2])} {c[1]}= {show(c[3])}"
    if k == "assign":
        return f"{show(c[1])} = {show(c[2])}"
    if k == "return":
        return f"return {show(c[1])}"
    return str(c)
