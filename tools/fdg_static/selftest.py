"""Thorough tier: mutant self-test (filled in per rule module through its MUTANTS table)."""

from __future__ import annotations


def run(chk, mod, repo: str, jobs: int = 16) -> None:
    muts = getattr(mod, "MUTANTS", None)
    if not muts:
        chk.selftests.append({"mutants": 0, "note": "no mutant table for this property yet"})
        return
    from .mutants import run_mutants

    run_mutants(chk, mod, repo, jobs)
