"""fdg_static - repository-specific static analyses deciding the Fandango properties."""
