"""Abstract domain for "is this float exactly 1.0 when every part is satisfied?" (rule R03).

Values
  ONE            the float 1.0
  INT(form)      a float (or int) that holds exactly the integer `form`, a linear form over the
                 atoms (symbolic non-negative integers such as the number of hard constraints)
  ROUNDED(why)   a correctly-rounded but in general inexact result (p/q, sums of such, ...)
  TUP([...])     a tuple of abstract values
  UNKNOWN(why)   the interpreter does not understand the construct -> ANALYSIS-ERROR upstream

Every value carries `expr`: a Python float expression over the atoms, used only to look for a
concrete witness to put into the replay file (the verdict comes from the domain).
"""

from __future__ import annotations

from dataclasses import dataclass, field
from typing import Optional

Form = tuple  # sorted tuple of (atom, coef) with atom "" for the constant


def form(**kw: int) -> Form:
    return tuple(sorted((k, v) for k, v in kw.items() if v != 0))


def form_add(a: Form, b: Form, sign: int = 1) -> Form:
    d = dict(a)
    for k, v in b:
        d[k] = d.get(k, 0) + sign * v
    return tuple(sorted((k, v) for k, v in d.items() if v != 0))


def form_const(c: int) -> Form:
    return (("", c),) if c else ()


def form_subst_zero(a: Form, zero_atoms: set[str]) -> Form:
    return tuple((k, v) for k, v in a if k not in zero_atoms)


def form_str(a: Form) -> str:
    if not a:
        return "0"
    parts = []
    for k, v in a:
        if k == "":
            parts.append(str(v))
        elif v == 1:
            parts.append(k)
        else:
            parts.append(f"{v}*{k}")
    return "(" + " + ".join(parts) + ")"


@dataclass(frozen=True)
class AV:
    kind: str  # one int rounded tup unknown none other
    form: Form = ()
    why: str = ""
    items: tuple = ()
    expr: str = "0.0"

    def __str__(self) -> str:
        if self.kind == "one":
            return "ONE"
        if self.kind == "int":
            return f"INT{form_str(self.form)}"
        if self.kind == "rounded":
            return f"ROUNDED[{self.why}]"
        if self.kind == "tup":
            return "(" + ", ".join(str(i) for i in self.items) + ")"
        if self.kind == "unknown":
            return f"UNKNOWN[{self.why}]"
        return self.kind.upper()


ONE = AV("one", expr="1.0")
OTHER = AV("other")  # a value that takes no part in the arithmetic (lists, suggestions ...)


def INT(f: Form, expr: Optional[str] = None) -> AV:
    return AV("int", form=f, expr=expr if expr is not None else f"float({form_str(f)})")


def ROUNDED(why: str, expr: str) -> AV:
    return AV("rounded", why=why, expr=expr)


def UNKNOWN(why: str) -> AV:
    return AV("unknown", why=why)


def TUP(items: list[AV]) -> AV:
    return AV("tup", items=tuple(items))


def as_int(v: AV) -> Optional[Form]:
    if v.kind == "int":
        return v.form
    if v.kind == "one":
        return form_const(1)
    return None


def add(a: AV, b: AV, zero: set[str]) -> AV:
    e = f"({a.expr} + {b.expr})"
    if a.kind == "unknown":
        return a
    if b.kind == "unknown":
        return b
    fa, fb = as_int(a), as_int(b)
    if fa is not None and fb is not None:
        f = form_subst_zero(form_add(fa, fb), zero)
        if f == form_const(1):
            return AV("one", expr=e)
        return INT(f, e)
    if a.kind == "rounded" or b.kind == "rounded":
        return ROUNDED("sum involving an inexact quotient: " + (a.why or b.why), e)
    return UNKNOWN(f"add {a} {b}")


def mul(a: AV, b: AV, zero: set[str]) -> AV:
    e = f"({a.expr} * {b.expr})"
    if a.kind == "unknown":
        return a
    if b.kind == "unknown":
        return b
    if a.kind == "one":
        return AV(b.kind, b.form, b.why, b.items, e)
    if b.kind == "one":
        return AV(a.kind, a.form, a.why, a.items, e)
    fa, fb = as_int(a), as_int(b)
    if fa is not None and fb is not None:
        # product of two linear forms: only constant * form stays linear
        da, db = dict(fa), dict(fb)
        if set(da) <= {""}:
            c = da.get("", 0)
            return INT(tuple(sorted((k, v * c) for k, v in fb if v * c)), e)
        if set(db) <= {""}:
            c = db.get("", 0)
            return INT(tuple(sorted((k, v * c) for k, v in fa if v * c)), e)
        return UNKNOWN("product of two symbolic counts")
    if a.kind == "rounded" or b.kind == "rounded":
        return ROUNDED("product with an inexact quotient: " + (a.why or b.why), e)
    return UNKNOWN(f"mul {a} {b}")


def div(a: AV, b: AV, zero: set[str]) -> AV:
    e = f"({a.expr} / {b.expr})"
    if a.kind == "unknown":
        return a
    if b.kind == "unknown":
        return b
    fa, fb = as_int(a), as_int(b)
    if fa is not None and fb is not None:
        fa0, fb0 = form_subst_zero(fa, zero), form_subst_zero(fb, zero)
        if fa0 == fb0 and fa0 != ():
            return AV("one", expr=e)
        if fb0 == form_const(1):
            return AV(a.kind, a.form, a.why, a.items, e)
        return ROUNDED(f"{form_str(fa0)}/{form_str(fb0)} is not a binary fraction in general", e)
    if a.kind == "rounded" or b.kind == "rounded":
        return ROUNDED("quotient of an inexact value: " + (a.why or b.why), e)
    return UNKNOWN(f"div {a} {b}")
