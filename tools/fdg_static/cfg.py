"""Statement-level control-flow graph with exception and generator-abandonment edges.

Edge labels
  next / true / false / loop / exhausted / back / continue / break / return / case / nocase
  exc       - from a statement that may raise inside a `try` body to a handler entry
  exc-out   - an exception that leaves the function (to RAISE)
  raise     - explicit `raise` (to a handler or to RAISE)
  abandon   - generator closed at this `yield` (to ABANDON, through `finally` copies)

`finally` bodies are copied once per way of leaving the protected region, so one AST statement
may be represented by several CFG nodes (`cfg.nodes_of(stmt)`).
"""

from __future__ import annotations

import ast
from collections import deque
from dataclasses import dataclass, field
from typing import Callable, Iterable, Optional

from .core import norm, short

CATCH_ALL = {"Exception", "BaseException"}


@dataclass
class Node:
    id: int
    kind: str  # entry exit raise abandon stmt if while for with try handler match finally-join
    ast: Optional[ast.AST] = None
    note: str = ""

    @property
    def line(self) -> int:
        return getattr(self.ast, "lineno", 0) if self.ast is not None else 0

    def text(self) -> str:
        if self.ast is None:
            return self.kind.upper()
        if self.kind == "if":
            return "if " + short(self.ast.test, 90)  # type: ignore[attr-defined]
        if self.kind == "while":
            return "while " + short(self.ast.test, 90)  # type: ignore[attr-defined]
        if self.kind == "for":
            return f"for {short(self.ast.target, 40)} in {short(self.ast.iter, 60)}"  # type: ignore[attr-defined]
        if self.kind == "with":
            return "with " + ", ".join(short(i, 60) for i in self.ast.items)  # type: ignore[attr-defined]
        if self.kind == "handler":
            t = self.ast.type  # type: ignore[attr-defined]
            return "except " + (short(t, 60) if t is not None else "")
        if self.kind == "match":
            return "match " + short(self.ast.subject, 60)  # type: ignore[attr-defined]
        if self.kind == "try":
            return "try"
        return short(self.ast, 100)


def may_raise(n: ast.AST) -> bool:
    """Conservative: anything that calls, subscripts, reads an attribute, does arithmetic,
    iterates, asserts or raises."""
    for x in ast.walk(n):
        if isinstance(x, (ast.Call, ast.Subscript, ast.Attribute, ast.BinOp, ast.Raise, ast.Assert,
                          ast.Await, ast.Yield, ast.YieldFrom, ast.For, ast.comprehension, ast.Starred,
                          ast.UnaryOp, ast.Compare, ast.Import, ast.ImportFrom, ast.Delete)):
            return True
    return False


def has_yield(n: ast.AST) -> bool:
    todo = [n]
    while todo:
        x = todo.pop()
        if isinstance(x, (ast.Yield, ast.YieldFrom)):
            return True
        if isinstance(x, (ast.FunctionDef, ast.AsyncFunctionDef, ast.Lambda, ast.ClassDef)) and x is not n:
            continue
        todo.extend(ast.iter_child_nodes(x))
    return False


class _Ctx:
    """Where control goes for each non-local exit at the current nesting level."""

    def __init__(self, exc: list[tuple[int, bool]], exc_out: Callable[[], int], ret: Callable[[], int],
                 brk: Optional[Callable[[], int]], cont: Optional[Callable[[], int]],
                 abandon: Callable[[], int]) -> None:
        self.exc = exc  # handler entry ids reachable from here: (id, is_catch_all)
        self.exc_out = exc_out  # target of an exception that no handler here stops
        self.ret = ret
        self.brk = brk
        self.cont = cont
        self.abandon = abandon


class CFG:
    def __init__(self, fn: ast.AST, no_return_calls: Iterable[str] = ()) -> None:
        self.fn = fn
        self.nodes: list[Node] = []
        self.succ: dict[int, list[tuple[int, str]]] = {}
        self.pred: dict[int, list[tuple[int, str]]] = {}
        self.by_ast: dict[int, list[int]] = {}
        self.no_return_calls = set(no_return_calls)
        self.entry = self._new("entry")
        self.exit = self._new("exit")
        self.raise_exit = self._new("raise")
        self.abandon_exit = self._new("abandon")
        self.is_generator = has_yield(fn)
        ctx = _Ctx([], lambda: self.raise_exit, lambda: self.exit, None, None, lambda: self.abandon_exit)
        outs = self._block(fn.body, [(self.entry, "next")], ctx)  # type: ignore[attr-defined]
        for p, lab in outs:
            self._edge(p, self.exit, lab if lab != "next" else "fallthrough")
        self._dom: Optional[dict[int, set[int]]] = None

    # ------------------------------------------------------------------ build
    def _new(self, kind: str, a: Optional[ast.AST] = None, note: str = "") -> int:
        n = Node(len(self.nodes), kind, a, note)
        self.nodes.append(n)
        self.succ[n.id] = []
        self.pred[n.id] = []
        if a is not None:
            self.by_ast.setdefault(id(a), []).append(n.id)
        return n.id

    def _edge(self, a: int, b: int, lab: str) -> None:
        if (b, lab) not in self.succ[a]:
            self.succ[a].append((b, lab))
            self.pred[b].append((a, lab))

    def _connect(self, preds: list[tuple[int, str]], n: int) -> None:
        for p, lab in preds:
            self._edge(p, n, lab)

    def _exc_edges(self, n: int, ctx: _Ctx, explicit: bool = False) -> None:
        lab = "raise" if explicit else "exc"
        caught_all = False
        for h, catch_all in ctx.exc:
            self._edge(n, h, lab)
            if catch_all:
                caught_all = True
                break
        if not caught_all:
            self._edge(n, ctx.exc_out(), "raise-out" if explicit else "exc-out")

    def _is_noreturn(self, st: ast.stmt) -> bool:
        if isinstance(st, ast.Expr) and isinstance(st.value, ast.Call):
            f = st.value.func
            name = f.id if isinstance(f, ast.Name) else f.attr if isinstance(f, ast.Attribute) else ""
            return name in self.no_return_calls
        return False

    def _block(self, stmts: list[ast.stmt], preds: list[tuple[int, str]], ctx: _Ctx) -> list[tuple[int, str]]:
        for st in stmts:
            if not preds:
                # unreachable code still gets nodes (so that lookups work) but no in-edges
                pass
            preds = self._stmt(st, preds, ctx)
        return preds

    def _simple(self, st: ast.stmt, preds: list[tuple[int, str]], ctx: _Ctx, kind: str = "stmt") -> int:
        n = self._new(kind, st)
        self._connect(preds, n)
        if may_raise(st):
            self._exc_edges(n, ctx)
        if has_yield(st):
            self._edge(n, ctx.abandon(), "abandon")
        return n

    def _stmt(self, st: ast.stmt, preds: list[tuple[int, str]], ctx: _Ctx) -> list[tuple[int, str]]:
        if isinstance(st, (ast.FunctionDef, ast.AsyncFunctionDef, ast.ClassDef)):
            n = self._new("stmt", st, "def")
            self._connect(preds, n)
            return [(n, "next")]
        if isinstance(st, ast.Return):
            n = self._new("stmt", st)
            self._connect(preds, n)
            if st.value is not None and may_raise(st.value):
                self._exc_edges(n, ctx)
            if st.value is not None and has_yield(st.value):
                self._edge(n, ctx.abandon(), "abandon")
            self._edge(n, ctx.ret(), "return")
            return []
        if isinstance(st, ast.Raise):
            n = self._new("stmt", st)
            self._connect(preds, n)
            self._exc_edges(n, ctx, explicit=True)
            return []
        if isinstance(st, ast.Break):
            n = self._new("stmt", st)
            self._connect(preds, n)
            if ctx.brk is not None:
                self._edge(n, ctx.brk(), "break")
            return []
        if isinstance(st, ast.Continue):
            n = self._new("stmt", st)
            self._connect(preds, n)
            if ctx.cont is not None:
                self._edge(n, ctx.cont(), "continue")
            return []
        if isinstance(st, ast.If):
            n = self._simple_head(st, st.test, preds, ctx, "if")
            t = self._block(st.body, [(n, "true")], ctx)
            f = self._block(st.orelse, [(n, "false")], ctx) if st.orelse else [(n, "false")]
            return t + f
        if isinstance(st, ast.While):
            n = self._simple_head(st, st.test, preds, ctx, "while")
            after = self._new("join", st, "after-loop")
            infinite = isinstance(st.test, ast.Constant) and bool(st.test.value) is True
            lctx = _Ctx(ctx.exc, ctx.exc_out, ctx.ret, lambda: after, lambda: n, ctx.abandon)
            body = self._block(st.body, [(n, "true")], lctx)
            for p, lab in body:
                self._edge(p, n, "back")
            outs: list[tuple[int, str]] = []
            if not infinite:
                if st.orelse:
                    outs = self._block(st.orelse, [(n, "false")], ctx)
                else:
                    outs = [(n, "false")]
            self._connect(outs, after)
            return [(after, "next")]
        if isinstance(st, (ast.For, ast.AsyncFor)):
            n = self._simple_head(st, st.iter, preds, ctx, "for")
            after = self._new("join", st, "after-loop")
            lctx = _Ctx(ctx.exc, ctx.exc_out, ctx.ret, lambda: after, lambda: n, ctx.abandon)
            body = self._block(st.body, [(n, "loop")], lctx)
            for p, lab in body:
                self._edge(p, n, "back")
            if st.orelse:
                outs = self._block(st.orelse, [(n, "exhausted")], ctx)
            else:
                outs = [(n, "exhausted")]
            self._connect(outs, after)
            return [(after, "next")]
        if isinstance(st, (ast.With, ast.AsyncWith)):
            n = self._new("with", st)
            self._connect(preds, n)
            self._exc_edges(n, ctx)
            return self._block(st.body, [(n, "next")], ctx)
        if isinstance(st, ast.Try) or (hasattr(ast, "TryStar") and isinstance(st, ast.TryStar)):  # type: ignore[attr-defined]
            return self._try(st, preds, ctx)  # type: ignore[arg-type]
        if isinstance(st, ast.Match):
            n = self._simple_head(st, st.subject, preds, ctx, "match")
            outs = []
            irrefutable = False
            for case in st.cases:
                outs += self._block(case.body, [(n, "case")], ctx)
                if case.guard is None and isinstance(case.pattern, ast.MatchAs) and case.pattern.pattern is None:
                    irrefutable = True
            if not irrefutable:
                outs.append((n, "nocase"))
            return outs
        # simple statements
        n = self._simple(st, preds, ctx)
        if isinstance(st, ast.Assert):
            pass
        if self._is_noreturn(st):
            return []
        return [(n, "next")]

    def _simple_head(self, st: ast.stmt, expr: ast.AST, preds: list[tuple[int, str]], ctx: _Ctx, kind: str) -> int:
        n = self._new(kind, st)
        self._connect(preds, n)
        if may_raise(expr) or kind == "for":
            self._exc_edges(n, ctx)
        if has_yield(expr):
            self._edge(n, ctx.abandon(), "abandon")
        return n

    def _try(self, st: ast.Try, preds: list[tuple[int, str]], ctx: _Ctx) -> list[tuple[int, str]]:
        tnode = self._new("try", st)
        self._connect(preds, tnode)
        fin = st.finalbody
        copies: dict[str, int] = {}

        def via_finally(kind: str, target: Callable[[], int], lab: str) -> Callable[[], int]:
            if not fin:
                return target

            def get() -> int:
                if kind not in copies:
                    j = self._new("join", st, f"finally[{kind}]")
                    copies[kind] = j
                    outs = self._block(fin, [(j, "next")], ctx)
                    tgt = target()
                    for p, _ in outs:
                        self._edge(p, tgt, lab)
                return copies[kind]

            return get

        ret = via_finally("return", ctx.ret, "return")
        brk = via_finally("break", ctx.brk, "break") if ctx.brk is not None else None
        cont = via_finally("continue", ctx.cont, "continue") if ctx.cont is not None else None
        aband = via_finally("abandon", ctx.abandon, "abandon")

        def outer_exc_entry() -> int:
            """Where an exception goes that is not stopped by this try's handlers."""
            if not fin:
                # dispatch to enclosing handlers through a join node
                if "excjoin" not in copies:
                    j = self._new("join", st, "unhandled")
                    copies["excjoin"] = j
                    self._exc_edges_from_join(j, ctx)
                return copies["excjoin"]
            if "exc" not in copies:
                j = self._new("join", st, "finally[exc]")
                copies["exc"] = j
                outs = self._block(fin, [(j, "next")], ctx)
                j2 = self._new("join", st, "reraise")
                for p, _ in outs:
                    self._edge(p, j2, "next")
                self._exc_edges_from_join(j2, ctx)
            return copies["exc"]

        handler_ids: list[tuple[int, bool]] = []
        for h in st.handlers:
            hid = self._new("handler", h)
            names: list[str] = []
            if h.type is None:
                catch_all = True
            else:
                ts = h.type.elts if isinstance(h.type, ast.Tuple) else [h.type]
                for t in ts:
                    names.append(t.id if isinstance(t, ast.Name) else t.attr if isinstance(t, ast.Attribute) else "?")
                catch_all = any(nm in CATCH_ALL for nm in names)
            handler_ids.append((hid, catch_all))

        body_ctx = _Ctx(handler_ids + [], outer_exc_entry, ret, brk, cont, aband)
        # note: exceptions not caught here propagate to outer_exc_entry (which chains to ctx.exc)
        body_out = self._block(st.body, [(tnode, "next")], body_ctx)
        else_ctx = _Ctx([], outer_exc_entry, ret, brk, cont, aband)
        if st.orelse:
            body_out = self._block(st.orelse, body_out, else_ctx)
        outs = list(body_out)
        hctx = _Ctx([], outer_exc_entry, ret, brk, cont, aband)
        for (hid, _), h in zip(handler_ids, st.handlers):
            outs += self._block(h.body, [(hid, "next")], hctx)
        if fin:
            j = self._new("join", st, "finally[normal]")
            self._connect(outs, j)
            return self._block(fin, [(j, "next")], ctx)
        return outs

    def _exc_edges_from_join(self, j: int, ctx: _Ctx) -> None:
        caught_all = False
        for h, catch_all in ctx.exc:
            self._edge(j, h, "exc")
            if catch_all:
                caught_all = True
                break
        if not caught_all:
            self._edge(j, ctx.exc_out(), "exc-out")

    # ---------------------------------------------------------------- queries
    def nodes_of(self, a: ast.AST, kinds: Optional[set[str]] = None) -> list[int]:
        ids = self.by_ast.get(id(a), [])
        if kinds is None:
            return [i for i in ids if self.nodes[i].kind != "join"]
        return [i for i in ids if self.nodes[i].kind in kinds]

    def node_of(self, a: ast.AST) -> int:
        ids = self.nodes_of(a)
        if not ids:
            raise KeyError(f"no CFG node for {short(a)}")
        return ids[0]

    def find(self, pred: Callable[[Node], bool]) -> list[int]:
        return [n.id for n in self.nodes if pred(n)]

    def stmt_nodes_containing(self, inner: ast.AST) -> list[int]:
        """CFG nodes whose statement (head expression for compound statements) contains `inner`."""
        out = []
        for n in self.nodes:
            if n.ast is None or n.kind == "join":
                continue
            heads: list[ast.AST]
            if n.kind == "if" or n.kind == "while":
                heads = [n.ast.test]  # type: ignore[attr-defined]
            elif n.kind == "for":
                heads = [n.ast.iter, n.ast.target]  # type: ignore[attr-defined]
            elif n.kind == "with":
                heads = list(n.ast.items)  # type: ignore[attr-defined]
            elif n.kind == "match":
                heads = [n.ast.subject]  # type: ignore[attr-defined]
            elif n.kind in ("try",):
                heads = []
            elif n.kind == "handler":
                heads = [n.ast.type] if n.ast.type is not None else []  # type: ignore[attr-defined]
            elif n.note == "def":
                heads = []
            else:
                heads = [n.ast]
            for h in heads:
                if any(x is inner for x in ast.walk(h)):
                    out.append(n.id)
                    break
        return out

    def reach(self, srcs: Iterable[int], avoid: Iterable[int] = (), ignore: Iterable[str] = ("exc-out", "raise-out"),
              ignore_edges: Iterable[tuple[int, str]] = ()) -> set[int]:
        avoid_s = set(avoid)
        ign = set(ignore)
        ige = set(ignore_edges)
        seen: set[int] = set()
        todo: deque = deque()
        for s in srcs:
            for b, lab in self.succ[s]:
                if lab in ign or b in avoid_s or (s, lab) in ige:
                    continue
                todo.append(b)
        while todo:
            x = todo.popleft()
            if x in seen:
                continue
            seen.add(x)
            for b, lab in self.succ[x]:
                if lab in ign or b in avoid_s or b in seen or (x, lab) in ige:
                    continue
                todo.append(b)
        return seen

    def find_path(self, src: int, dsts: Iterable[int], avoid: Iterable[int] = (),
                  ignore: Iterable[str] = ("exc-out", "raise-out"),
                  ignore_edges: Iterable[tuple[int, str]] = ()) -> Optional[list[tuple[int, str]]]:
        """Shortest non-empty path from src to any of dsts as [(node, label of the edge into it)]."""
        dst_s = set(dsts)
        avoid_s = set(avoid)
        ign = set(ignore)
        ige = set(ignore_edges)
        prev: dict[int, tuple[int, str]] = {}
        todo: deque = deque()
        for b, lab in self.succ[src]:
            if lab in ign or b in avoid_s or b in prev or (src, lab) in ige:
                continue
            prev[b] = (src, lab)
            todo.append(b)
        while todo:
            x = todo.popleft()
            if x in dst_s:
                out: list[tuple[int, str]] = []
                cur = x
                while True:
                    p, lab = prev[cur]
                    out.append((cur, lab))
                    if p == src:
                        break
                    cur = p
                out.append((src, ""))
                return out[::-1]
            for b, lab in self.succ[x]:
                if lab in ign or b in avoid_s or b in prev or (x, lab) in ige:
                    continue
                prev[b] = (x, lab)
                todo.append(b)
        return None

    def describe_path(self, path: list[tuple[int, str]]) -> list[str]:
        out = []
        for nid, lab in path:
            n = self.nodes[nid]
            if n.kind == "join":
                continue
            out.append(f"{'--' + lab + '--> ' if lab else ''}L{n.line}: {n.text()}")
        return out

    def dominators(self, ignore: Iterable[str] = ("exc-out", "raise-out", "abandon")) -> dict[int, set[int]]:
        ign = set(ignore)
        reach = {self.entry} | self.reach([self.entry], ignore=ign)
        dom: dict[int, set[int]] = {n: set(reach) for n in reach}
        dom[self.entry] = {self.entry}
        changed = True
        order = sorted(reach)
        while changed:
            changed = False
            for n in order:
                if n == self.entry:
                    continue
                ps = [p for p, lab in self.pred[n] if lab not in ign and p in reach]
                if not ps:
                    new = {n}
                else:
                    new = set.intersection(*(dom[p] for p in ps)) | {n}
                if new != dom[n]:
                    dom[n] = new
                    changed = True
        return dom

    def dominated_by(self, n: int, d: int, ignore: Iterable[str] = ("exc-out", "raise-out", "abandon")) -> bool:
        dom = self.dominators(ignore)
        return n in dom and d in dom[n]

    def all_paths_pass(self, src: int, dsts: Iterable[int], through: Iterable[int],
                       ignore: Iterable[str] = ("exc-out", "raise-out")) -> Optional[list[tuple[int, str]]]:
        """None when every path src ->* dst meets `through`; else a witness path avoiding it."""
        return self.find_path(src, dsts, avoid=through, ignore=ignore)

    def true_branch_nodes(self, ifnode: int) -> set[int]:
        """Nodes reachable only via the `true` edge of an if node (control-dependent region,
        approximated as: reachable from the true successor without passing the false successors
        and dominated by the if's true successor)."""
        trues = [b for b, lab in self.succ[ifnode] if lab == "true"]
        if not trues:
            return set()
        dom = self.dominators()
        t = trues[0]
        return {n for n in dom if t in dom[n]}

    def false_branch_nodes(self, ifnode: int) -> set[int]:
        fs = [b for b, lab in self.succ[ifnode] if lab == "false"]
        if not fs:
            return set()
        dom = self.dominators()
        f = fs[0]
        # when there is no else-branch the false successor is the join: not a branch region
        st = self.nodes[ifnode].ast
        if not getattr(st, "orelse", None):
            return set()
        return {n for n in dom if f in dom[n]}


def loop_body_nodes(cfg: CFG, head: int) -> set[int]:
    """Nodes of the natural loop of `head` (reachable from head's body edge and reaching a
    back/continue edge into head)."""
    body_starts = [b for b, lab in cfg.succ[head] if lab in ("loop", "true")]
    fwd = set(body_starts) | cfg.reach(body_starts, avoid=[head], ignore=("exc-out", "raise-out", "abandon"))
    back_srcs = [p for p, lab in cfg.pred[head] if lab in ("back", "continue")]
    # backward reach
    seen: set[int] = set()
    todo = list(back_srcs)
    while todo:
        x = todo.pop()
        if x in seen or x == head:
            continue
        seen.add(x)
        for p, lab in cfg.pred[x]:
            if p not in seen:
                todo.append(p)
    return fwd & seen
