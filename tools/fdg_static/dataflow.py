"""Reaching definitions and small def-use helpers on the statement CFG."""

from __future__ import annotations

import ast
from typing import Iterable, Optional

from .cfg import CFG, Node


def head_exprs(n: Node) -> list[ast.AST]:
    """The expressions evaluated *at* a CFG node (not the nested statements)."""
    a = n.ast
    if a is None or n.kind == "join":
        return []
    if n.kind in ("if", "while"):
        return [a.test]  # type: ignore[attr-defined]
    if n.kind == "for":
        return [a.iter]  # type: ignore[attr-defined]
    if n.kind == "with":
        return [i.context_expr for i in a.items]  # type: ignore[attr-defined]
    if n.kind == "match":
        return [a.subject]  # type: ignore[attr-defined]
    if n.kind == "handler":
        return [a.type] if a.type is not None else []  # type: ignore[attr-defined]
    if n.kind == "try":
        return []
    if n.note == "def":
        return []
    return [a]


def target_names(t: ast.AST) -> list[str]:
    if isinstance(t, ast.Name):
        return [t.id]
    if isinstance(t, (ast.Tuple, ast.List)):
        out: list[str] = []
        for e in t.elts:
            out += target_names(e)
        return out
    if isinstance(t, ast.Starred):
        return target_names(t.value)
    return []


def defs_of_node(n: Node) -> list[str]:
    a = n.ast
    if a is None or n.kind in ("join", "try"):
        return []
    out: list[str] = []
    if n.kind == "for":
        out += target_names(a.target)  # type: ignore[attr-defined]
    elif n.kind == "with":
        for i in a.items:  # type: ignore[attr-defined]
            if i.optional_vars is not None:
                out += target_names(i.optional_vars)
    elif n.kind == "handler":
        if a.name:  # type: ignore[attr-defined]
            out.append(a.name)  # type: ignore[attr-defined]
    elif n.kind == "stmt":
        if isinstance(a, ast.Assign):
            for t in a.targets:
                out += target_names(t)
        elif isinstance(a, (ast.AugAssign, ast.AnnAssign)):
            if not (isinstance(a, ast.AnnAssign) and a.value is None):
                out += target_names(a.target)
        elif isinstance(a, (ast.FunctionDef, ast.AsyncFunctionDef, ast.ClassDef)):
            out.append(a.name)
        elif isinstance(a, (ast.Import, ast.ImportFrom)):
            for al in a.names:
                out.append((al.asname or al.name).split(".")[0])
    for e in head_exprs(n):
        for x in ast.walk(e):
            if isinstance(x, ast.NamedExpr) and isinstance(x.target, ast.Name):
                out.append(x.target.id)
    return out


class ReachingDefs:
    """IN[n][name] = set of CFG node ids whose definition of `name` may reach the entry of n.
    Parameters are defined at the entry node."""

    def __init__(self, cfg: CFG, params: Iterable[str] = ()) -> None:
        self.cfg = cfg
        self.gen: dict[int, list[str]] = {n.id: defs_of_node(n) for n in cfg.nodes}
        self.gen[cfg.entry] = list(params)
        self.IN: dict[int, dict[str, frozenset[int]]] = {n.id: {} for n in cfg.nodes}
        self.OUT: dict[int, dict[str, frozenset[int]]] = {n.id: {} for n in cfg.nodes}
        self._solve()

    def _solve(self) -> None:
        cfg = self.cfg
        work = [n.id for n in cfg.nodes]
        inwork = set(work)
        while work:
            n = work.pop(0)
            inwork.discard(n)
            newin: dict[str, set[int]] = {}
            for p, lab in cfg.pred[n]:
                for k, v in self.OUT[p].items():
                    newin.setdefault(k, set()).update(v)
            fin = {k: frozenset(v) for k, v in newin.items()}
            out = dict(fin)
            for name in self.gen[n]:
                out[name] = frozenset([n])
            self.IN[n] = fin
            if out != self.OUT[n]:
                self.OUT[n] = out
                for s, lab in cfg.succ[n]:
                    if s not in inwork:
                        work.append(s)
                        inwork.add(s)

    def defs_reaching(self, node: int, name: str) -> frozenset[int]:
        return self.IN[node].get(name, frozenset())

    def def_value(self, def_node: int, name: str) -> Optional[ast.AST]:
        """The right-hand side that defines `name` at def_node (None for params / loop targets)."""
        n = self.cfg.nodes[def_node]
        a = n.ast
        if n.kind == "stmt" and isinstance(a, ast.Assign):
            for t in a.targets:
                if isinstance(t, ast.Name) and t.id == name:
                    return a.value
            return a.value  # tuple unpacking: the whole right-hand side
        if n.kind == "stmt" and isinstance(a, ast.AnnAssign):
            return a.value
        if n.kind == "stmt" and isinstance(a, ast.AugAssign):
            return a
        if n.kind == "for":
            return None
        return None


def uses_in(e: ast.AST) -> set[str]:
    return {x.id for x in ast.walk(e) if isinstance(x, ast.Name) and isinstance(x.ctx, ast.Load)}


def backward_slice(cfg: CFG, rd: "ReachingDefs", node: int, names: Iterable[str], max_depth: int = 12) -> tuple[set[tuple[int, str]], set[str]]:
    """Flow-sensitive backward slice: the definitions (node, name) that may feed `names` at `node`,
    and the names of all calls occurring in their right-hand sides."""
    seen: set[tuple[int, str]] = set()
    calls: set[str] = set()
    todo = [(node, nm, 0) for nm in names]
    while todo:
        at, nm, d = todo.pop()
        for dn in rd.defs_reaching(at, nm):
            if (dn, nm) in seen:
                continue
            seen.add((dn, nm))
            n = cfg.nodes[dn]
            exprs: list[ast.AST] = []
            if n.kind == "for":
                exprs = [n.ast.iter]  # type: ignore[union-attr]
            elif n.kind == "with":
                exprs = [i.context_expr for i in n.ast.items]  # type: ignore[union-attr]
            elif n.kind == "stmt" and isinstance(n.ast, (ast.Assign, ast.AnnAssign, ast.AugAssign)) and n.ast.value is not None:
                exprs = [n.ast.value]
            for e in exprs:
                for x in ast.walk(e):
                    if isinstance(x, ast.Call):
                        f = x.func
                        calls.add(f.id if isinstance(f, ast.Name) else f.attr if isinstance(f, ast.Attribute) else "")
                if d < max_depth:
                    for u in uses_in(e):
                        todo.append((dn, u, d + 1))
    return seen, calls
