"""Findings, known-findings matching, evidence files, exit codes."""

from __future__ import annotations

import json
import os
import re
import time
from dataclasses import dataclass, field
from typing import Any, Optional

VERIF = os.path.dirname(os.path.dirname(os.path.dirname(os.path.abspath(__file__))))
KNOWN_FILE = os.path.join(VERIF, "known_findings.json")
EVIDENCE_DIR = os.path.join(VERIF, "evidence")
REPLAY_DIR = os.path.join(VERIF, "out", "replay")


@dataclass
class Violation:
    rule: str
    key: str  # stable: "<rule>|<function fq>|<normalised construct>"
    file: str
    line: int
    function: str
    construct: str
    why: str
    path: list[str] = field(default_factory=list)
    extra: dict = field(default_factory=dict)


@dataclass
class Instance:
    rule: str
    where: str
    line: int
    what: str
    nontrivial: bool = True


class Check:
    """Collects the instances a property's rules examined and the violations they found."""

    def __init__(self, pid: str, tier: str, seed: int = 0) -> None:
        self.pid = pid
        self.tier = tier
        self.seed = seed
        self.t0 = time.time()
        self.instances: list[Instance] = []
        self.violations: list[Violation] = []
        self.floors: dict[str, int] = {}
        self.rule_texts: dict[str, str] = {}
        self.notes: list[str] = []
        self.not_decided: list[str] = []
        self.files: dict[str, str] = {}
        self.selftests: list[dict] = []
        self.extra: dict[str, Any] = {}

    # ------------------------------------------------------------- recording
    def rule(self, rid: str, text: str, floor: int = 1) -> None:
        self.rule_texts[rid] = text
        self.floors[rid] = floor

    def ok(self, rule: str, where: str, line: int, what: str, nontrivial: bool = True) -> None:
        self.instances.append(Instance(rule, where, line, what, nontrivial))

    def bad(self, rule: str, file: str, line: int, function: str, construct: str, why: str,
            path: Optional[list[str]] = None, keyparts: Optional[str] = None, **extra: Any) -> None:
        key = f"{rule}|{function}|{keyparts if keyparts is not None else construct}"
        # one report per key
        if any(v.key == key for v in self.violations):
            return
        self.instances.append(Instance(rule, function, line, "VIOLATED: " + construct, True))
        self.violations.append(Violation(rule, key, file, line, function, construct, why, path or [], extra))

    def note(self, s: str) -> None:
        self.notes.append(s)

    def count(self, rule: str) -> int:
        return sum(1 for i in self.instances if i.rule == rule)


def load_known() -> dict:
    if not os.path.exists(KNOWN_FILE):
        return {"findings": [], "fixed": []}
    with open(KNOWN_FILE) as fh:
        return json.load(fh)


def finish(chk: Check, quiet: bool = False, write_evidence: bool = True) -> int:
    """Print the report, write the evidence file, return the exit status."""
    from .core import AnalysisError

    known = load_known()
    known_keys = {(k["property"], k["key"]): k for k in known.get("findings", [])}
    out_lines: list[str] = []
    status = 0
    # vacuity guard
    under = []
    for rid, fl in chk.floors.items():
        c = chk.count(rid)
        if c < fl:
            under.append(f"{rid}: matched {c} instance(s), floor {fl}")
    unlisted: list = []
    listed: list = []
    for v in chk.violations:
        if (chk.pid, v.key) in known_keys:
            listed.append(v)
        else:
            unlisted.append(v)
    for v in listed:
        k = known_keys[(chk.pid, v.key)]
        out_lines.append(f"KNOWN-FINDING: property={chk.pid} {v.rule} {v.function}: {k.get('what', v.construct)}")
    replay_paths = []
    if unlisted:
        os.makedirs(REPLAY_DIR, exist_ok=True)
        for i, v in enumerate(unlisted):
            rp = os.path.join(REPLAY_DIR, f"{chk.pid}-{i}.json")
            with open(rp, "w") as fh:
                json.dump({
                    "property": chk.pid, "rule": v.rule, "rule_text": chk.rule_texts.get(v.rule, ""), "key": v.key,
                    "file": v.file, "line": v.line, "function": v.function, "construct": v.construct,
                    "why_this_breaks_the_property": v.why, "path": v.path, **v.extra,
                }, fh, indent=1)
            replay_paths.append(rp)
            out_lines.append(f"  {v.rule} {v.file}:{v.line} in {v.function}: {v.construct}")
            out_lines.append(f"      {v.why}")
            for p in v.path[:14]:
                out_lines.append(f"        {p}")
            out_lines.append(f"VIOLATION property={chk.pid} replay={rp}")
        status = 1
    if under and status == 0:
        out_lines.append("ANALYSIS-ERROR vacuity guard: " + "; ".join(under))
        status = 2

    wall = time.time() - chk.t0
    per_rule = {rid: chk.count(rid) for rid in chk.rule_texts}
    nontriv = {(i.rule, i.where, i.what) for i in chk.instances if i.nontrivial}
    samples = []
    seen_rules: dict[str, int] = {}
    for i in chk.instances:
        if seen_rules.get(i.rule, 0) >= 3:
            continue
        seen_rules[i.rule] = seen_rules.get(i.rule, 0) + 1
        samples.append({"rule": i.rule, "where": i.where, "line": i.line, "obligation": i.what})
    ev = {
        "property_id": chk.pid,
        "tier": chk.tier,
        "seed": chk.seed,
        "level": "other",
        "coverage": {
            "explanation": (
                "Static analysis of the current working tree (ast + class table + call graph + per-function CFG with "
                "exception edges + small abstract interpretations); no repository code is imported or executed. Each "
                "rule is a necessary condition of the property, quantified over all code paths of the anchored "
                "functions; an instance is one obligation (a path query, a table row, a writer/reader pair, a call site) "
                "that the rule examined on this run."
            ),
            "evaluations": len(chk.instances),
            "distinct_nontrivial": len(nontriv),
            "rule": "instances are enumerated from the source by the rules below; an instance is non-trivial when the rule "
                    "had a real obligation to discharge for it (distinct = distinct (rule, function, obligation) triples)",
            "rules": chk.rule_texts,
            "instances_per_rule": per_rule,
            "floors": chk.floors,
            "samples": samples,
            "not_decided": chk.not_decided,
            "known_findings_reported": [v.key for v in listed],
            "unlisted_violations": [v.key for v in unlisted],
            "files_analysed": chk.files,
            "notes": chk.notes,
            "selftest": chk.selftests,
            **chk.extra,
        },
        "assumptions": [
            "CPython's ast module parses the repository the way the interpreter does",
            "the rules are necessary conditions: silence does not establish the whole behavioural property",
            "dynamic features (eval/exec of spec code, setattr-installed methods, visitor double dispatch) are modelled by explicit tables",
        ],
        "wall_s": round(wall, 3),
        "violations": len(unlisted),
    }
    if write_evidence:
        os.makedirs(EVIDENCE_DIR, exist_ok=True)
        with open(os.path.join(EVIDENCE_DIR, f"{chk.pid}.json"), "w") as fh:
            json.dump(ev, fh, indent=1, sort_keys=False)
            fh.write("\n")
    if not quiet:
        print(f"[{chk.pid}] tier={chk.tier} rules={len(chk.rule_texts)} instances={len(chk.instances)} "
              f"nontrivial={len(nontriv)} known={len(listed)} violations={len(unlisted)} wall={wall:.2f}s")
        for rid in chk.rule_texts:
            print(f"  {rid}: {per_rule[rid]} instance(s) (floor {chk.floors[rid]})")
        for st in chk.selftests:
            print(f"  selftest: {st}")
        for ln in out_lines:
            print(ln)
    return status
