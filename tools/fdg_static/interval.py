"""Closed-interval abstract interpretation of small, loop-free numeric functions.

Used for clauses of the form "the number this function returns on paths P lies in / avoids X".  The
domain is sound for IEEE double arithmetic with round-to-nearest: rounding is monotone, so the result
of an operation on operands from closed intervals with float end points lies in the interval computed
from the end points.  Everything that is not understood evaluates to TOP; paths that raise return
nothing (a raising path returns no value, so ignoring it is sound for statements about returned
values).

An abstract value is a set of possibilities:
    none   the value may be None
    iv     the value may be a number in [lo, hi]           (None = cannot be a number)
    other  the value may be anything else (objects, strings, numbers outside the model)
    items  for tuple displays: the abstract values of the elements
"""

from __future__ import annotations

import ast
import math
from dataclasses import dataclass
from typing import Callable, Optional

from .core import FuncInfo, norm

INF = math.inf


@dataclass(frozen=True)
class AV:
    none: bool = False
    iv: Optional[tuple[float, float]] = None
    other: bool = False
    items: Optional[tuple["AV", ...]] = None

    def is_bottom(self) -> bool:
        return not self.none and self.iv is None and not self.other and self.items is None

    def may_equal(self, c: float) -> bool:
        """May the value compare equal to the number c?  (`other` covers numbers outside the model.)"""
        if self.other:
            return True
        return self.iv is not None and self.iv[0] <= c <= self.iv[1]

    def __str__(self) -> str:
        parts = []
        if self.none:
            parts.append("None")
        if self.iv is not None:
            parts.append(f"[{self.iv[0]:g}, {self.iv[1]:g}]")
        if self.items is not None:
            parts.append("(" + ", ".join(str(i) for i in self.items) + ")")
        if self.other:
            parts.append("any")
        return " | ".join(parts) or "bottom"


TOP = AV(none=True, iv=(-INF, INF), other=True)
NUM = AV(iv=(-INF, INF))
NONE = AV(none=True)
BOTTOM = AV()
OBJ = AV(other=True)


def const(c: float) -> AV:
    return AV(iv=(float(c), float(c)))


def join(a: AV, b: AV) -> AV:
    if a.is_bottom():
        return b
    if b.is_bottom():
        return a
    iv = a.iv if b.iv is None else b.iv if a.iv is None else (min(a.iv[0], b.iv[0]), max(a.iv[1], b.iv[1]))
    items = None
    other = a.other or b.other
    if a.items is not None and b.items is not None and len(a.items) == len(b.items):
        items = tuple(join(x, y) for x, y in zip(a.items, b.items))
    elif a.items is not None or b.items is not None:
        other = True
    return AV(a.none or b.none, iv, other, items)


def _num_only(v: AV) -> Optional[tuple[float, float]]:
    """The interval of v when v can only be a number."""
    if v.none or v.other or v.items is not None or v.iv is None:
        return None
    return v.iv


def _arith(op: ast.operator, a: AV, b: AV) -> AV:
    x, y = _num_only(a), _num_only(b)
    if x is None or y is None:
        # an operation on a non-number may succeed with any result (operator overloading) or raise
        return AV(iv=(-INF, INF), other=True)
    try:
        if isinstance(op, ast.Add):
            return AV(iv=(x[0] + y[0], x[1] + y[1]))
        if isinstance(op, ast.Sub):
            return AV(iv=(x[0] - y[1], x[1] - y[0]))
        if isinstance(op, ast.Mult):
            c = [p * q for p in x for q in y if not (math.isinf(p) and q == 0 or math.isinf(q) and p == 0)] + \
                ([0.0] if (0 in x or 0 in y or x[0] < 0 < x[1] or y[0] < 0 < y[1]) else [])
            return AV(iv=(min(c), max(c)))
        if isinstance(op, ast.Div):
            if y[0] <= 0 <= y[1]:
                return NUM
            c = [p / q for p in x for q in y if not (math.isinf(p) and math.isinf(q))] or [-INF, INF]
            if any(math.isinf(p) for p in x) and any(math.isinf(q) for q in y):
                c += [0.0]
            return AV(iv=(min(c), max(c)))
    except (OverflowError, ValueError, ZeroDivisionError):
        return NUM
    return NUM


class Interp:
    """Evaluates one function body; `assume(test)` may fix the outcome of a test (True/False) or return None."""

    MAX_DEPTH = 4

    def __init__(self, eng, fn: FuncInfo, args: dict[str, AV], assume: Optional[Callable[[ast.AST], Optional[bool]]] = None, depth: int = 0,
                 stack: tuple[str, ...] = ()) -> None:
        self.eng = eng
        self.fn = fn
        self.env: dict[str, AV] = {p: args.get(p, TOP) for p in fn.params()}
        self.assume = assume
        self.depth = depth
        self.stack = stack + (fn.fq,)
        self.returns: list[tuple[int, AV]] = []  # (line, value)
        self.unknown_constructs: list[str] = []

    # ---------------------------------------------------------------- expressions
    def ev(self, e: ast.AST) -> AV:
        if isinstance(e, ast.Constant):
            if e.value is None:
                return NONE
            if isinstance(e.value, bool):
                return const(int(e.value))
            if isinstance(e.value, (int, float)):
                return const(e.value)
            return OBJ
        if isinstance(e, ast.Name):
            return self.env.get(e.id, TOP)
        if isinstance(e, ast.Tuple):
            return AV(items=tuple(self.ev(x) for x in e.elts))
        if isinstance(e, ast.UnaryOp):
            v = self.ev(e.operand)
            if isinstance(e.op, ast.USub):
                x = _num_only(v)
                return AV(iv=(-x[1], -x[0])) if x is not None else AV(iv=(-INF, INF), other=True)
            if isinstance(e.op, ast.UAdd):
                return v
            if isinstance(e.op, ast.Not):
                return AV(iv=(0.0, 1.0))
            return TOP
        if isinstance(e, ast.BinOp):
            return _arith(e.op, self.ev(e.left), self.ev(e.right))
        if isinstance(e, ast.IfExp):
            t = self.truth(e.test)
            out = BOTTOM
            if t is not False:
                sub = self.fork()
                sub.refine(e.test, True)
                out = join(out, sub.ev(e.body))
            if t is not True:
                sub = self.fork()
                sub.refine(e.test, False)
                out = join(out, sub.ev(e.orelse))
            return out
        if isinstance(e, ast.Call):
            return self.call(e)
        if isinstance(e, (ast.Compare, ast.BoolOp)):
            t = self.truth(e)
            if isinstance(e, ast.Compare):
                return const(int(t)) if t is not None else AV(iv=(0.0, 1.0), other=True)
            return TOP
        if isinstance(e, (ast.List, ast.Dict, ast.Set, ast.ListComp, ast.DictComp, ast.SetComp, ast.GeneratorExp, ast.JoinedStr, ast.Lambda)):
            return OBJ
        return TOP

    def call(self, c: ast.Call) -> AV:
        name = norm(c.func)
        args = [self.ev(a) for a in c.args]
        if name == "abs" and len(args) == 1:
            x = _num_only(args[0])
            if x is None:
                return AV(iv=(0.0, INF), other=args[0].other or args[0].items is not None)
            lo = 0.0 if x[0] <= 0 <= x[1] else min(abs(x[0]), abs(x[1]))
            return AV(iv=(lo, max(abs(x[0]), abs(x[1]))))
        if name in ("min", "max") and len(args) >= 2 and not c.keywords:
            xs = [_num_only(a) for a in args]
            if all(x is not None for x in xs):
                f = min if name == "min" else max
                return AV(iv=(f(x[0] for x in xs), f(x[1] for x in xs)))
            return AV(iv=(-INF, INF), other=True)
        if name == "math.exp" and len(args) == 1:
            x = _num_only(args[0])
            if x is None:
                return AV(iv=(0.0, INF))

            def ex(v: float) -> float:
                try:
                    return math.exp(v)
                except OverflowError:
                    return INF
            return AV(iv=(ex(x[0]), ex(x[1])))
        if name == "float" and len(args) == 1:
            x = _num_only(args[0])
            return AV(iv=x) if x is not None else NUM
        if name == "len":
            return AV(iv=(0.0, INF))
        if name in ("math.sqrt",) and len(args) == 1:
            return AV(iv=(0.0, INF))
        # a function of the repository: evaluate its body
        callees, how = self.eng.cg.resolve_call(self.fn, c)
        if how == "exact" and callees and self.depth < self.MAX_DEPTH and not c.keywords and not any(isinstance(a, ast.Starred) for a in c.args):
            out = BOTTOM
            for fq in sorted(callees):
                if fq in self.stack:
                    return TOP
                mod, qn = fq.split(":")
                try:
                    callee = self.eng.func(mod, qn)
                except Exception:
                    return TOP
                ps = [p for p in callee.params() if p not in ("self", "cls")] if callee.cls is not None and isinstance(c.func, ast.Attribute) else callee.params()
                sub = Interp(self.eng, callee, dict(zip(ps, args)), None, self.depth + 1, self.stack)
                out = join(out, sub.run())
                self.unknown_constructs += sub.unknown_constructs
            return out
        return TOP

    # ---------------------------------------------------------------- tests
    def truth(self, t: ast.AST) -> Optional[bool]:
        if self.assume is not None:
            a = self.assume(t)
            if a is not None:
                return a
        if isinstance(t, ast.Constant):
            return bool(t.value)
        if isinstance(t, ast.UnaryOp) and isinstance(t.op, ast.Not):
            r = self.truth(t.operand)
            return None if r is None else not r
        if isinstance(t, ast.BoolOp):
            rs = [self.truth(v) for v in t.values]
            if isinstance(t.op, ast.And):
                return False if any(r is False for r in rs) else True if all(r is True for r in rs) else None
            return True if any(r is True for r in rs) else False if all(r is False for r in rs) else None
        if isinstance(t, ast.Compare) and len(t.ops) == 1:
            op, l, r = t.ops[0], t.left, t.comparators[0]
            if isinstance(op, (ast.Is, ast.IsNot)):
                pos = isinstance(op, ast.Is)
                # identity with an object that the expression itself has just built is always false
                if isinstance(r, (ast.BinOp, ast.List, ast.Dict, ast.Set, ast.ListComp, ast.JoinedStr)) or isinstance(l, (ast.BinOp, ast.List, ast.Dict, ast.Set, ast.ListComp, ast.JoinedStr)):
                    return not pos
                if isinstance(r, ast.Constant) and r.value is None:
                    v = self.ev(l)
                    if v.none and v.iv is None and not v.other and v.items is None:
                        return pos
                    if not v.none:
                        return not pos
                return None
            lv, rv = _num_only(self.ev(l)), _num_only(self.ev(r))
            if lv is not None and rv is not None:
                if isinstance(op, ast.Lt):
                    return True if lv[1] < rv[0] else False if lv[0] >= rv[1] else None
                if isinstance(op, ast.LtE):
                    return True if lv[1] <= rv[0] else False if lv[0] > rv[1] else None
                if isinstance(op, ast.Gt):
                    return True if lv[0] > rv[1] else False if lv[1] <= rv[0] else None
                if isinstance(op, ast.GtE):
                    return True if lv[0] >= rv[1] else False if lv[1] < rv[0] else None
                if isinstance(op, ast.Eq):
                    return True if lv[0] == lv[1] == rv[0] == rv[1] else False if lv[1] < rv[0] or lv[0] > rv[1] else None
                if isinstance(op, ast.NotEq):
                    return False if lv[0] == lv[1] == rv[0] == rv[1] else True if lv[1] < rv[0] or lv[0] > rv[1] else None
        return None

    def refine(self, t: ast.AST, outcome: bool) -> None:
        """Narrow the environment by the outcome of `t` (only `x is None` / `x is not None` / `not ...` / and/or)."""
        if isinstance(t, ast.UnaryOp) and isinstance(t.op, ast.Not):
            self.refine(t.operand, not outcome)
            return
        if isinstance(t, ast.BoolOp):
            if isinstance(t.op, ast.And) and outcome or isinstance(t.op, ast.Or) and not outcome:
                for v in t.values:
                    self.refine(v, outcome)
            return
        if outcome and isinstance(t, ast.Call) and norm(t.func) == "isinstance" and len(t.args) == 2 and isinstance(t.args[0], ast.Name):
            kinds = t.args[1].elts if isinstance(t.args[1], ast.Tuple) else [t.args[1]]
            if all(isinstance(k, ast.Name) and k.id in ("int", "float", "bool") for k in kinds):
                v = self.env.get(t.args[0].id, TOP)
                self.env[t.args[0].id] = AV(iv=v.iv if v.iv is not None else (-INF, INF))
            return
        if isinstance(t, ast.Compare) and len(t.ops) == 1 and isinstance(t.ops[0], (ast.Is, ast.IsNot)) and isinstance(t.left, ast.Name) \
                and isinstance(t.comparators[0], ast.Constant) and t.comparators[0].value is None:
            is_none = isinstance(t.ops[0], ast.Is) == outcome
            v = self.env.get(t.left.id, TOP)
            self.env[t.left.id] = NONE if is_none else AV(False, v.iv, v.other, v.items)

    # ---------------------------------------------------------------- statements
    def fork(self) -> "Interp":
        sub = Interp(self.eng, self.fn, {}, self.assume, self.depth, self.stack[:-1])
        sub.env = dict(self.env)
        sub.returns = self.returns
        sub.unknown_constructs = self.unknown_constructs
        return sub

    def merge(self, subs: list["Interp"]) -> None:
        """Joins the environments of the forks that fall through."""
        names = set()
        for s in subs:
            names |= set(s.env)
        env = {}
        for n in names:
            v = BOTTOM
            for s in subs:
                v = join(v, s.env.get(n, TOP))
            env[n] = v
        self.env = env

    def assign(self, target: ast.AST, v: AV) -> None:
        if isinstance(target, ast.Name):
            self.env[target.id] = v
        elif isinstance(target, (ast.Tuple, ast.List)):
            for i, el in enumerate(target.elts):
                self.assign(el, v.items[i] if v.items is not None and len(v.items) == len(target.elts) and not v.other else TOP)

    def block(self, stmts: list[ast.stmt]) -> bool:
        """Returns False when the block cannot fall through."""
        for st in stmts:
            if not self.stmt(st):
                return False
        return True

    def stmt(self, st: ast.stmt) -> bool:
        if isinstance(st, ast.Return):
            self.returns.append((st.lineno, self.ev(st.value) if st.value is not None else NONE))
            return False
        if isinstance(st, ast.Raise):
            return False
        if isinstance(st, ast.Assign):
            v = self.ev(st.value)
            for t in st.targets:
                self.assign(t, v)
            return True
        if isinstance(st, ast.AnnAssign):
            if st.value is not None:
                self.assign(st.target, self.ev(st.value))
            return True
        if isinstance(st, ast.AugAssign):
            if isinstance(st.target, ast.Name):
                self.env[st.target.id] = _arith(st.op, self.env.get(st.target.id, TOP), self.ev(st.value))
            return True
        if isinstance(st, (ast.Expr, ast.Pass, ast.Assert, ast.Import, ast.ImportFrom, ast.Global, ast.Nonlocal, ast.Delete, ast.FunctionDef, ast.ClassDef)):
            return True
        if isinstance(st, ast.If):
            t = self.truth(st.test)
            live = []
            if t is not False:
                a = self.fork()
                a.refine(st.test, True)
                if a.block(st.body):
                    live.append(a)
            if t is not True:
                b = self.fork()
                b.refine(st.test, False)
                if b.block(st.orelse):
                    live.append(b)
            if not live:
                return False
            self.merge(live)
            return True
        if isinstance(st, ast.Try):
            pre = dict(self.env)
            body = self.fork()
            live = []
            body_falls = body.block(st.body)
            # a handler may be entered after any prefix of the body: every name the body assigns may hold its old or any new value
            assigned = {n.id for s in st.body for n in ast.walk(s) if isinstance(n, ast.Name) and isinstance(n.ctx, ast.Store)}
            for h in st.handlers:
                hf = self.fork()
                hf.env = dict(pre)
                for n in assigned:
                    hf.env[n] = TOP
                if h.name:
                    hf.env[h.name] = OBJ
                if hf.block(h.body):
                    live.append(hf)
            if body_falls:
                if body.block(st.orelse):
                    live.append(body)
            if not live:
                # finally still runs, but nothing falls through
                return False
            self.merge(live)
            return self.block(st.finalbody)
        if isinstance(st, ast.Match):
            live = []
            exhaustive = False
            for case in st.cases:
                cf = self.fork()
                for n in ast.walk(case.pattern):
                    if isinstance(n, (ast.MatchAs, ast.MatchStar)) and n.name:
                        cf.env[n.name] = TOP
                if cf.block(case.body):
                    live.append(cf)
                if isinstance(case.pattern, ast.MatchAs) and case.pattern.pattern is None and case.guard is None:
                    exhaustive = True
            if not exhaustive:
                live.append(self.fork())
            if not live:
                return False
            self.merge(live)
            return True
        if isinstance(st, (ast.For, ast.While, ast.With, ast.AsyncFor, ast.AsyncWith)):
            # no loop analysis: every name assigned inside becomes TOP, the body is evaluated once for its returns
            for n in ast.walk(st):
                if isinstance(n, ast.Name) and isinstance(n.ctx, ast.Store):
                    self.env[n.id] = TOP
            body = self.fork()
            body.block(st.body)
            if isinstance(st, (ast.For, ast.While)):
                self.fork().block(st.orelse)
            return True
        if isinstance(st, (ast.Break, ast.Continue)):
            return False
        self.unknown_constructs.append(f"{type(st).__name__} at line {st.lineno}")
        return True

    def run(self) -> AV:
        fell = self.block(self.fn.node.body)  # type: ignore[attr-defined]
        out = NONE if fell else BOTTOM
        for _, v in self.returns:
            out = join(out, v)
        return out
