"""C08 - Python embedded in a spec keeps its meaning ("never silently altered or dropped").

The translator is a visitor over the ANTLR parse tree; the generated base class answers every
rule without a handler with visitChildren(), i.e. it aggregates the children's results and
silently drops every token of that rule.

R08-a  dispatch coverage.  For SearchProcessor (expressions) and PythonProcessor (statements):
       the set of parser rules whose contexts can reach the visitor (entry rules, explicit
       self.visitX(ctx.x()), self.visit(ctx.x()), visitChildren(ctx) of a handled parent,
       children of an unhandled rule) is computed from the grammar and the handler bodies.
       Every reached rule without a handler must be *transparent*: each alternative consists of
       rule references and pure punctuation only.  A rule carrying a semantic token is a
       violation unless listed (with a reason) in the exception table.
R08-b  operator table.  Every (rule, token) -> ast operator class branch of the translator equals
       CPython's own table (ast._Unparser.binop/unop/cmpops/boolops of the interpreter running the
       check) composed with the lexer's token literals, and every operator literal of an operator
       rule has a branch.
"""

from __future__ import annotations

import ast
from typing import Optional

from ..core import AnalysisError, ClassInfo, FuncInfo, call_name, norm, self_attr, short, walk_local
from ..engine import Engine
from ..report import Check
from .. import g4

CONVERT = "fandango.language.parse.convert"
PUNCT_LITS = {",", "(", ")", "[", "]", ";"}
PUNCT_TOKENS = {"NEWLINE", "INDENT", "DEDENT", "EOF", "COMMA", "OPEN_PAREN", "CLOSE_PAREN", "OPEN_BRACK", "CLOSE_BRACK", "SEMI_COLON", "SEMICOLON"}

# unhandled, non-transparent rules that are accepted, each with the reason confirmed by reading
EXCEPTIONS = {
    ("SearchProcessor", "slash_no_default"): "not silent: visitParameters extends posonlyargs with the aggregate (a 3-tuple), which makes ast.unparse raise - "
                                             "positional-only parameters are rejected with an (internal) error, never executed in altered form",
    ("SearchProcessor", "slash_with_default"): "not silent: visitParameters unpacks the aggregate into four values and raises ValueError - rejected, never altered",
}


def rule_to_method(rule: str) -> str:
    return "visit" + rule[0].upper() + rule[1:]


def accessor_to_rule(name: str, rules: dict) -> Optional[str]:
    if name in rules:
        return name
    if name.endswith("_") and name[:-1] in rules:
        return name[:-1]
    return None


def lit_text(e: g4.Elem, lexer: g4.Grammar) -> Optional[str]:
    if e.kind == "lit":
        return e.value[1:-1]
    if e.kind == "token":
        return lexer.token_literal(e.value)
    return None


def is_transparent(pg: g4.Grammar, lg: g4.Grammar, rule: str) -> tuple[bool, list[str]]:
    sem: list[str] = []
    for e in pg.elements(rule):
        if e.kind == "rule":
            continue
        if e.kind == "lit" and e.value[1:-1] in PUNCT_LITS:
            continue
        if e.kind == "token" and (e.value in PUNCT_TOKENS or (lg.token_literal(e.value) or "") in PUNCT_LITS):
            continue
        sem.append(e.value if e.kind != "lit" else e.value)
    return (not sem), sem


def handler_dispatch(cls: ClassInfo, m: FuncInfo, pg: g4.Grammar, rule: Optional[str]) -> tuple[set[str], bool]:
    """Rules whose contexts handler m hands to the dispatcher; second component: visitChildren(ctx) used."""
    out: set[str] = set()
    uses_children = False
    for c in walk_local(m.node):
        if not isinstance(c, ast.Call):
            continue
        nm = call_name(c)
        if nm == "visitChildren":
            uses_children = True
        elif nm.startswith("visit") and len(nm) > 5 and isinstance(c.func, ast.Attribute) and isinstance(c.func.value, ast.Name) and c.func.value.id == "self":
            r = nm[5:]
            r = r[0].lower() + r[1:]
            if r in pg.rules:
                out.add(r)
        if nm == "visit" and isinstance(c.func, ast.Attribute) and isinstance(c.func.value, ast.Name) and c.func.value.id == "self":
            # self.visit(ctx.x()) / self.visit(child)
            for a in c.args:
                for x in ast.walk(a):
                    if isinstance(x, ast.Call) and isinstance(x.func, ast.Attribute) and isinstance(x.func.value, ast.Name) and x.func.value.id in ("ctx", "child", "stmt"):
                        r = accessor_to_rule(x.func.attr, pg.rules)
                        if r:
                            out.add(r)
                    if isinstance(x, ast.Attribute) and x.attr == "children" or (isinstance(x, ast.Name) and x.id in ("child", "c")):
                        # generic child dispatch: every child rule of the handled rule
                        if rule is not None:
                            out |= pg.refs(rule)
    return out, uses_children


def dispatch_closure(cls: ClassInfo, pg: g4.Grammar, entries: set[str]) -> tuple[set[str], dict[str, str]]:
    """(reached rules, parent-of map for explanation)."""
    reached: set[str] = set()
    via: dict[str, str] = {}
    todo = sorted(entries)
    while todo:
        r = todo.pop(0)
        if r in reached or r not in pg.rules:
            continue
        reached.add(r)
        m = cls.methods.get(rule_to_method(r))
        if m is None:
            nxt = pg.refs(r)
        else:
            nxt, uses_children = handler_dispatch(cls, m, pg, r)
            if uses_children:
                nxt |= pg.refs(r)
            # helper methods called with ctx (e.g. self._visit_bin_op(ctx, op)) that use visitChildren
            for c in walk_local(m.node):
                if isinstance(c, ast.Call) and isinstance(c.func, ast.Attribute) and isinstance(c.func.value, ast.Name) and c.func.value.id == "self":
                    h = cls.lookup(c.func.attr)
                    if h is not None and not c.func.attr.startswith("visit") and any(isinstance(a, ast.Name) and a.id == "ctx" for a in c.args):
                        hd, hc = handler_dispatch(cls, h, pg, r)
                        nxt |= hd
                        if hc:
                            nxt |= pg.refs(r)
        for x in sorted(nxt):
            if x not in reached:
                via.setdefault(x, r)
                todo.append(x)
    return reached, via


def run(chk: Check, eng: Engine) -> None:
    chk.rule("R08-a", "every parser rule whose context can reach the translator's default child aggregator is transparent (rule references and punctuation only)", floor=120)
    chk.rule("R08-b", "every (rule, token) -> ast operator branch equals CPython's operator table composed with the lexer literals; every operator literal has a branch", floor=25)
    chk.rule("R08-d", "string / bytes / number literals are decoded by Python's own evaluator (no hand-written unquoting)", floor=2)
    chk.rule("R08-c", "parameter kinds: in the handlers that build ast.arguments every grammar element feeds the field CPython's grammar assigns it to "
             "(param_no_default -> args; param_with_default -> args+defaults; elements after '*' -> kwonlyargs+kw_defaults)", floor=3)
    chk.not_decided.append("that each handler builds the right ast node (field order, contexts) beyond the operator and parameter-kind tables: needs translation validation, another family")

    pg = g4.load(eng, "Parser")
    lg = g4.load(eng, "Lexer")
    sp = eng.cls(CONVERT, "SearchProcessor")
    pp = eng.cls(CONVERT, "PythonProcessor")
    if len(pg.rules) < 200:
        raise AnalysisError(f"only {len(pg.rules)} parser rules read from FandangoParser.g4")

    # entry rules: what the processors are invoked on
    sp_entries: set[str] = set()
    # everything some handler of the other processors passes to self.searches.visit / search_processor.visit
    for c in eng.ix.modules[CONVERT].classes.values():
        for m in c.methods.values():
            for call in walk_local(m.node):
                if isinstance(call, ast.Call) and call_name(call) in ("visit", "get_expression") and isinstance(call.func, ast.Attribute) \
                        and ("search" in norm(call.func.value) or call_name(call) == "get_expression"):
                    for a in call.args:
                        found = False
                        for x in ast.walk(a):
                            if isinstance(x, ast.Call) and isinstance(x.func, ast.Attribute) and isinstance(x.func.value, ast.Name):
                                r = accessor_to_rule(x.func.attr, pg.rules)
                                if r:
                                    sp_entries.add(r)
                                    found = True
                        if not found and isinstance(a, ast.Name) and m.name.startswith("visit"):
                            # a child / loop variable of the handled rule: every sub-rule of that rule
                            hr = m.name[5:]
                            hr = hr[0].lower() + hr[1:]
                            if hr in pg.rules:
                                # loop variables over ctx.x(): that rule; otherwise the expression-like children
                                loops = [l for l in walk_local(m.node) if isinstance(l, ast.For) and isinstance(l.target, ast.Name) and l.target.id == a.id]
                                got = False
                                for l in loops:
                                    for x in ast.walk(l.iter):
                                        if isinstance(x, ast.Call) and isinstance(x.func, ast.Attribute):
                                            r = accessor_to_rule(x.func.attr, pg.rules)
                                            if r:
                                                sp_entries.add(r)
                                                got = True
                                if not got:
                                    sp_entries |= {r for r in pg.refs(hr) if "expression" in r or r in ("expr",)}
                # self.searches.visitX(...) / self.search_processor.visitX(...)
                if isinstance(call, ast.Call) and isinstance(call.func, ast.Attribute) and call.func.attr.startswith("visit") and len(call.func.attr) > 5 \
                        and "search" in norm(call.func.value):
                    r = call.func.attr[5:]
                    r = r[0].lower() + r[1:]
                    if r in pg.rules:
                        sp_entries.add(r)
    # PythonProcessor delegates whole sub-visits to the search processor through self.search_processor.visitX
    for m in pp.methods.values():
        for call in walk_local(m.node):
            if isinstance(call, ast.Call) and isinstance(call.func, ast.Attribute) and "search_processor" in norm(call.func.value) and call.func.attr.startswith("visit") and len(call.func.attr) > 5:
                r = call.func.attr[5:]
                r = r[0].lower() + r[1:]
                if r in pg.rules:
                    sp_entries.add(r)
    pp_entries = {"python", "statements", "stmt", "simple_stmts", "simple_stmt", "compound_stmt", "block"} & set(pg.rules)
    if len(sp_entries) < 8:
        raise AnalysisError(f"only {len(sp_entries)} entry rules of the SearchProcessor discovered: {sorted(sp_entries)}")

    for cls, entries in ((sp, sp_entries), (pp, pp_entries)):
        reached, via = dispatch_closure(cls, pg, entries)
        if len(reached) < 30:
            raise AnalysisError(f"{cls.name}: only {len(reached)} rules reached from {sorted(entries)}")
        unhandled = sorted(r for r in reached if rule_to_method(r) not in cls.methods)
        bad_rules: list[tuple[str, list[str]]] = []
        for r in sorted(reached):
            if rule_to_method(r) in cls.methods:
                chk.ok("R08-a", f"{cls.fq}.{rule_to_method(r)}", cls.methods[rule_to_method(r)].line, f"{cls.name}: rule `{r}` has a handler", nontrivial=False)
                continue
            ok, sem = is_transparent(pg, lg, r)
            if ok:
                chk.ok("R08-a", f"language/FandangoParser.g4:{r}", pg.rules[r].line, f"{cls.name}: unhandled rule `{r}` is transparent ({pg.rules[r].alts})")
            elif (cls.name, r) in EXCEPTIONS:
                chk.ok("R08-a", f"language/FandangoParser.g4:{r}", pg.rules[r].line, f"{cls.name}: unhandled rule `{r}` accepted: {EXCEPTIONS[(cls.name, r)]}", nontrivial=False)
            else:
                bad_rules.append((r, sem))
        # PythonProcessor hands expression-level rules to the search processor via get_expression: those
        # are judged there.  Report only the top-most offending rule of each chain.
        badset = {r for r, _ in bad_rules}
        for r, sem in bad_rules:
            parent = via.get(r)
            chain = [r]
            p = parent
            while p is not None and len(chain) < 12:
                chain.append(p)
                p = via.get(p)
            if any(x in badset for x in chain[1:]):
                continue  # reachable only through another offending rule
            if cls is pp and r in sp_entries:
                continue
            below = sorted(x for x in badset if x != r and r in _ancestors(via, x))
            chk.bad("R08-a", "language/FandangoParser.g4", pg.rules[r].line, f"{cls.fq}",
                    f"rule `{r}` ({' | '.join(' '.join(map(repr, a)) for a in pg.rules[r].alts)}) reaches the default child aggregator of {cls.name}; "
                    f"its tokens {sem} are dropped" + (f" (and with it: {', '.join(below)})" if below else ""),
                    "the code Fandango runs differs from the text: e.g. `h = lambda: 5` is executed as `h = 5`, `[*a, 2]` as `[a, 2]` - silently, "
                    "instead of being translated or rejected",
                    path=[f"reached via: {' <- '.join(chain)}"], keyparts=f"default-aggregator|{cls.name}|{r}")
        chk.extra.setdefault("dispatch", {})[cls.name] = {"entries": sorted(entries), "reached": len(reached), "unhandled": unhandled}

    rule_c(chk, eng, sp)

    # ---- R08-b ---------------------------------------------------------------
    U = ast._Unparser  # type: ignore[attr-defined]
    tables = {"binop": dict(U.binop), "unop": dict(U.unop), "cmpops": dict(U.cmpops), "boolops": dict(U.boolops)}
    all_ops = {k: (t, v) for t, d in tables.items() for k, v in d.items()}
    EXTRA_OK = {"NotEq": {"<>"}}
    rows = 0
    for name, m in sorted(sp.methods.items()):
        if not name.startswith("visit"):
            continue
        r = name[5:]
        rule = r[0].lower() + r[1:]
        if rule not in pg.rules:
            continue
        rule_lits = [lit_text(e, lg) for e in pg.elements(rule) if e.kind in ("lit", "token")]
        rule_lits = [x for x in rule_lits if x is not None and x not in PUNCT_LITS]
        covered: set[str] = set()
        found_any = False

        def op_calls(node: ast.AST) -> list[str]:
            out = []
            for c in ast.walk(node):
                if isinstance(c, ast.Call) and isinstance(c.func, ast.Attribute) and isinstance(c.func.value, ast.Name) and c.func.value.id == "ast" and c.func.attr in all_ops:
                    out.append(c.func.attr)
            return out

        # pattern: if ctx.X(): ... ast.Op()
        def walk_ifs(stmts: list[ast.stmt]) -> None:
            nonlocal rows, found_any
            for st in stmts:
                if isinstance(st, ast.If):
                    t = st.test
                    acc = None
                    if isinstance(t, ast.Call) and isinstance(t.func, ast.Attribute) and isinstance(t.func.value, ast.Name) and t.func.value.id == "ctx":
                        acc = t.func.attr
                    ops = op_calls(ast.Module(body=st.body, type_ignores=[]))
                    if acc is not None and len(ops) == 1:
                        found_any = True
                        op = ops[0]
                        table, sym = all_ops[op]
                        if acc.isupper() or acc.upper() == acc:
                            lit = lg.token_literal(acc)
                            where_lits = [lit] if lit is not None else []
                        else:
                            # rule accessor: the operator literal(s) of the recursive alternative
                            where_lits = sorted(set(rule_lits))
                            lit = where_lits[0] if len(where_lits) == 1 else None
                        rows += 1
                        if lit is None:
                            chk.bad("R08-b", eng.relfile(m), st.lineno, m.fq, f"branch `{short(t)}` -> ast.{op}: operator literal cannot be determined ({where_lits})",
                                    "the operator table cannot be verified for this branch", keyparts=f"optable|{rule}|{acc}|undetermined")
                        elif lit != sym and lit not in EXTRA_OK.get(op, set()):
                            chk.bad("R08-b", eng.relfile(m), st.lineno, m.fq, f"branch `{short(t)}` (token `{lit}`) builds ast.{op}, which CPython writes as `{sym}`",
                                    "the embedded expression is executed with a different operator than the one written in the spec", keyparts=f"optable|{rule}|{acc}|{op}")
                        elif lit not in rule_lits:
                            chk.bad("R08-b", eng.relfile(m), st.lineno, m.fq, f"branch `{short(t)}`: token `{lit}` does not occur in rule `{rule}`",
                                    "the branch is dead and the operator of that rule is handled by another branch", keyparts=f"optable|{rule}|{acc}|notinrule")
                        else:
                            covered.add(lit)
                            chk.ok("R08-b", m.fq, st.lineno, f"rule `{rule}`: token `{lit}` -> ast.{op} == CPython {table}[{op}]")
                        # every way out of the branch must hand on the node built with that operator
                        carriers = set()
                        for a_ in ast.walk(ast.Module(body=st.body, type_ignores=[])):
                            if isinstance(a_, ast.Assign) and op_calls(a_.value):
                                for t_ in a_.targets:
                                    first_t = t_.elts[0] if isinstance(t_, ast.Tuple) and t_.elts else t_
                                    if isinstance(first_t, ast.Name):
                                        carriers.add(first_t.id)
                        for r_ in [x for x in ast.walk(ast.Module(body=st.body, type_ignores=[])) if isinstance(x, ast.Return) and x.value is not None]:
                            first_v = r_.value.elts[0] if isinstance(r_.value, ast.Tuple) and r_.value.elts else r_.value
                            if op_calls(first_v) or (isinstance(first_v, ast.Name) and first_v.id in carriers) or (isinstance(first_v, ast.Call) and op_calls(first_v)):
                                continue
                            chk.bad("R08-b", eng.relfile(m), r_.lineno, m.fq, f"the branch for token `{lit}` has a way out that does not build ast.{op}: `{short(r_, 70)}`",
                                    "for some operands the operator is translated differently (e.g. folded into a constant, which ast.unparse prints without the "
                                    "parentheses that `(-3) ** 2` or `(-8).bit_length()` need): the executed code differs from the text",
                                    keyparts=f"optable-bypass|{rule}|{op}")
                    walk_ifs(st.orelse)

        walk_ifs(m.node.body)  # type: ignore[attr-defined]
        # pattern: return ast.Op(), ...  (comparison family)
        if not found_any:
            rets = [n for n in m.node.body if isinstance(n, ast.Return) and isinstance(n.value, ast.Tuple) and n.value.elts]  # type: ignore[attr-defined]
            for rt in rets:
                first = rt.value.elts[0]  # type: ignore[union-attr]
                ops = op_calls(first)
                if len(ops) == 1:
                    op = ops[0]
                    table, sym = all_ops[op]
                    rows += 1
                    alts_txt = []
                    for a in pg.rules[rule].alts:
                        lits = [lit_text(e, lg) for e in a if e.kind in ("lit", "token")]
                        alts_txt.append(" ".join(x for x in lits if x))
                    okset = {sym} | EXTRA_OK.get(op, set())
                    if all(t in okset for t in alts_txt):
                        covered |= set(rule_lits)
                        chk.ok("R08-b", m.fq, rt.lineno, f"rule `{rule}` ({alts_txt}) -> ast.{op} == CPython {table}[{op}]")
                    else:
                        chk.bad("R08-b", eng.relfile(m), rt.lineno, m.fq, f"rule `{rule}` spells {alts_txt} but the handler builds ast.{op} (`{sym}`)",
                                "comparisons in embedded Python are evaluated with another operator", keyparts=f"optable|{rule}|{op}")
                    found_any = True
        # completeness: every operator literal of an operator rule has a branch
        if found_any and rule_lits:
            missing = sorted(set(rule_lits) - covered)
            op_like = [x for x in missing if any(x == s for (_, s) in all_ops.values()) or x in ("<>",)]
            for x in op_like:
                chk.bad("R08-b", eng.relfile(m), m.line, m.fq, f"rule `{rule}` admits the operator `{x}` but {name} has no branch for it",
                        "the handler falls through to the operand: the operator and its right operand are silently dropped", keyparts=f"optable-missing|{rule}|{x}")
    if rows < 25:
        raise AnalysisError(f"only {rows} operator-table rows recovered from SearchProcessor")
    literal_decoding(chk, eng, "R08-d")
    chk.rule("R08-g", "a handler that decides between 'the element' and 'a tuple' for a comma sequence with optional trailing comma consults the comma", floor=3)
    trailing_separator_rule(chk, eng, "R08-g")
    chk.rule("R08-f", "an infix rule of the constraint language whose operands can absorb its own operators is handled chain-aware", floor=1)
    operand_absorption(chk, eng, "R08-f")
    chk.rule("R08-h", "code compiled from text (exec / eval / compile of a non-constant) does not inherit compiler flags from the calling module: "
             "no `from __future__ import annotations` (or barry_as_FLUFL) in a module with such a call unless it compiles with dont_inherit=True", floor=6)
    inherited_flags_rule(chk, eng, "R08-h")
    chk.rule("R08-k", "spec text is evaluated in one namespace: the variables standing for <symbol> references are visible in the nested scopes of the text", floor=4)
    single_namespace_rule(chk, eng, "R08-k")
    chk.rule("R08-i", "between string delimiters (lexer tokens that switch the lexer's f-string state) literal text is read from the input stream, never re-assembled "
             "from token texts: the token stream has no blanks", floor=2)
    string_text_rule(chk, eng, "R08-i", pg, lg)
    chk.rule("R08-j", "an optional keyword / operator token of a rule of embedded Python is consulted by the rule's handler (`async`, the `=` of f\"{x=}\")", floor=3)
    optional_token_rule(chk, eng, "R08-j", pg, lg)
    chk.rule("R08-e", "a constant-index context accessor ctx.X(k) is used only where slot k of X is fixed by the rule (no earlier optional occurrence)", floor=10)
    # the selector sub-language (<a>.<b>[..]{..}) belongs to C07; stop the closure where embedded Python starts again
    selector_rules: set[str] = set()
    todo_ = ["selector_length", "star_selection", "dot_selection"]
    stop_ = {"expression", "slices", "arguments", "genexp", "named_expression", "expr"}
    while todo_:
        r_ = todo_.pop()
        if r_ in selector_rules or r_ in stop_ or r_ not in pg.rules:
            continue
        selector_rules.add(r_)
        todo_.extend(pg.refs(r_))
    ordinal_accessor_rule(chk, eng, "R08-e", ["SearchProcessor", "PythonProcessor"], exclude_rules=selector_rules)
    chk.extra["cpython_tables"] = {k: len(v) for k, v in tables.items()}


# grammar element (accessor of the loop) -> ast.arguments fields its items must be appended to, on every path
PARAM_ROLES = {
    "param_no_default": {"args"},
    "param_with_default": {"args", "defaults"},
    "param_maybe_default": {"kwonlyargs", "kw_defaults"},
    "lambda_param_no_default": {"args"},
    "lambda_param_with_default": {"args", "defaults"},
    "lambda_param_maybe_default": {"kwonlyargs", "kw_defaults"},
}


def _template_has_no_annotation(js: ast.JoinedStr) -> bool:
    """An f-string whose holes stand for names: parse it with the holes filled by an identifier and look for annotations."""
    text = "".join(v.value if isinstance(v, ast.Constant) and isinstance(v.value, str) else "_hole_" for v in js.values)
    try:
        tree = ast.parse(text)
    except SyntaxError:
        return False
    for n in ast.walk(tree):
        if isinstance(n, ast.AnnAssign) or (isinstance(n, ast.arg) and n.annotation is not None) or (isinstance(n, (ast.FunctionDef, ast.AsyncFunctionDef)) and n.returns is not None):
            return False
        if isinstance(n, ast.Compare) and any(isinstance(o, ast.NotEq) for o in n.ops):
            return False
    return True


def _token_name(e: g4.Elem, lg: g4.Grammar) -> Optional[str]:
    """The lexer token an element of a parser rule denotes (literals are looked up in the lexer)."""
    if e.kind == "token":
        return e.value
    if e.kind == "lit":
        text = e.value[1:-1].replace("\\'", "'")
        for name in lg.order:
            if lg.token_literal(name) == text:
                return name
    return None


def _own_helpers(cls: ClassInfo, m: FuncInfo, depth: int = 3) -> list[FuncInfo]:
    """m and the non-visit helper methods of the class line it calls through `self` (bounded)."""
    out, todo, seen = [], [(m, 0)], set()
    while todo:
        f, d = todo.pop()
        if f.fq in seen:
            continue
        seen.add(f.fq)
        out.append(f)
        if d >= depth:
            continue
        for c in ast.walk(f.node):
            if isinstance(c, ast.Call) and isinstance(c.func, ast.Attribute) and isinstance(c.func.value, ast.Name) and c.func.value.id == "self" \
                    and not c.func.attr.startswith("visit"):
                h = cls.lookup(c.func.attr)
                if h is not None and h.fq.startswith(CONVERT):
                    todo.append((h, d + 1))
    return out


def string_text_rule(chk: Check, eng: Engine, rule: str, pg: g4.Grammar, lg: g4.Grammar) -> None:
    """R08-i.  The lexer sends blanks (and `#...`) to the hidden channel everywhere, also between the delimiters of an f-string, where
    they are content.  The delimiters are found from the lexer grammar itself: tokens whose action calls `fstring_start()`.  In the handlers of
    the parser rules between those delimiters (closure over rule references, stopping where an expression starts), a string constant of the
    translated program must not be built from `<node>.getText()` - the text of tokens - but from the input stream (`getText(a, b)`)."""
    openers = {n for n in lg.order if any("fstring_start" in a for a in lg.rules[n].actions)}
    if not openers:
        raise AnalysisError("no lexer token switches the f-string state (anchor of R08-i vanished)")
    string_rules = [r for r in pg.order if any(alt and alt[0].kind == "token" and alt[0].value in openers for alt in pg.rules[r].alts)]
    if not string_rules:
        raise AnalysisError("no parser rule starts with an f-string delimiter")
    # expressions inside replacement fields are ordinary token sequences again
    stop = {"yield_expr", "star_expressions", "expression", "identifier"}
    inside: set[str] = set()
    todo = list(string_rules)
    while todo:
        r = todo.pop()
        if r in inside or r in stop or r not in pg.rules:
            continue
        inside.add(r)
        todo.extend(pg.refs(r))
    sp = eng.cls(CONVERT, "SearchProcessor")
    n = 0
    for r in sorted(inside):
        m = sp.methods.get(rule_to_method(r))
        if m is None:
            continue
        stream_text = False
        for f in _own_helpers(sp, m):
            for c in ast.walk(f.node):
                if isinstance(c, ast.Call) and isinstance(c.func, ast.Attribute) and c.func.attr == "getText" and len(c.args) == 2:
                    stream_text = True
                if not (isinstance(c, ast.Call) and call_name(c) in ("Constant", "ast.Constant")):
                    continue
                vals = [k.value for k in c.keywords if k.arg == "value"] + list(c.args[:1])
                for v in vals:
                    for g in ast.walk(v):
                        if isinstance(g, ast.Call) and isinstance(g.func, ast.Attribute) and g.func.attr == "getText" and not g.args:
                            chk.bad(rule, eng.relfile(f), c.lineno, f.fq, f"`{short(c, 70)}` in the translation of `{r}` builds string content from token text",
                                    "blanks between the tokens of an f-string are on the lexer's hidden channel: `f\"a b {x}\"` is executed as `f\"ab{x}\"` (also `{{`, escapes of raw strings)",
                                    keyparts=f"tokentext|{r}")
        n += 1
        if r in string_rules and not stream_text:
            chk.bad(rule, eng.relfile(m), m.line, m.fq, f"the handler of `{r}` never reads the input stream (`getText(start, stop)`)",
                    "the literal parts of an f-string can only be recovered from the characters between its replacement fields", keyparts=f"nostream|{r}")
        else:
            chk.ok(rule, m.fq, m.line, f"`{r}`: string constants come from the input stream / Python's own decoding, not from token texts")
    if n < 2:
        raise AnalysisError(f"only {n} handlers found between f-string delimiters")


def optional_token_rule(chk: Check, eng: Engine, rule: str, pg: g4.Grammar, lg: g4.Grammar) -> None:
    """R08-j.  `T?` in a grammar rule of embedded Python is meaning (`async`, the `=` of a self-documenting f-string field) unless T is a
    separator.  A handler written for that rule must ask for it (`ctx.T()`), in itself or in a helper it hands ctx to."""
    sp = eng.cls(CONVERT, "SearchProcessor")
    pp = eng.cls(CONVERT, "PythonProcessor")
    separators = {",", ";"}
    n = 0
    python_rules = pg.reachable(["python_file"]) if "python_file" in pg.rules else set(pg.rules)
    selector_part = pg.reachable(["selector_length", "star_selection", "dot_selection"]) - pg.reachable(["expression"])
    for r in pg.order:
        if r not in python_rules or r in selector_part:
            continue
        m = sp.methods.get(rule_to_method(r)) or pp.methods.get(rule_to_method(r))
        if m is None:
            continue
        for alt in pg.rules[r].alts:
            for e in alt:
                if e.quant != "?" or e.kind not in ("token", "lit"):
                    continue
                text = lit_text(e, lg) or ""
                tok = _token_name(e, lg)
                if text in separators or (tok or "") in PUNCT_TOKENS or tok is None or lg.token_literal(tok) is None:
                    continue  # separators; tokens that are not a fixed keyword / operator (NUMBER, ...) are operands, handled by R08-e
                n += 1
                asked = False
                for f in _own_helpers(pp if m.fq.startswith(pp.fq) else sp, m):
                    for c in ast.walk(f.node):
                        if isinstance(c, ast.Call) and isinstance(c.func, ast.Attribute) and c.func.attr == tok:
                            asked = True
                if asked:
                    chk.ok(rule, m.fq, m.line, f"`{r}`: optional `{text or tok}` is consulted (`.{tok}()`)")
                else:
                    chk.bad(rule, eng.relfile(m), m.line, m.fq, f"rule `{r}` has the optional token `{text or tok}` and its handler never asks for `{tok}()`",
                            "the token is dropped from the translated code: the program is executed as if it had not been written", keyparts=f"opttoken|{r}|{tok}")
    if n < 3:
        raise AnalysisError(f"only {n} optional keyword / operator tokens found in handled rules of embedded Python")


def single_namespace_rule(chk: Check, eng: Engine, rule: str) -> None:
    """R08-k / R07-m.  `eval(text, g, l)` with two mappings runs the text like a class body: names of `l` are invisible inside the nested
    scopes of the text (generator expressions, lambdas, nested comprehensions' inner parts).  Fandango binds the fresh variables that stand for
    `<symbol>` references per evaluation; they must therefore be part of the *globals* mapping the text is evaluated in - i.e. spec text is
    evaluated with one namespace.  Fixed templates without a nested scope are exempt."""
    n = 0
    for mod in eng.ix.modules.values():
        if mod.tree is None or not mod.name.startswith("fandango.") or mod.name.startswith(("fandango.converters", "fandango.cli")):
            continue  # converters evaluate their own arithmetic; the cli's `!` command runs what the user types at the prompt, not spec text
        shadow = {nm for nm in ("exec", "eval") if nm in mod.functions or nm in mod.globals_assigned or nm in mod.imports}
        for node in ast.walk(mod.tree):
            if not (isinstance(node, ast.Call) and isinstance(node.func, ast.Name) and node.func.id in ("exec", "eval") and node.func.id not in shadow and node.args):
                continue
            src = node.args[0]
            if isinstance(src, (ast.Constant, ast.JoinedStr)):
                text = src.value if isinstance(src, ast.Constant) else "".join(v.value if isinstance(v, ast.Constant) and isinstance(v.value, str) else "_hole_" for v in src.values)
                try:
                    nested = any(isinstance(x, (ast.Lambda, ast.GeneratorExp, ast.ListComp, ast.SetComp, ast.DictComp, ast.FunctionDef, ast.ClassDef)) for x in ast.walk(ast.parse(text)))
                except (SyntaxError, TypeError):
                    nested = True
                if not nested:
                    continue
            n += 1
            g = node.args[1] if len(node.args) > 1 else next((k.value for k in node.keywords if k.arg == "globals"), None)
            l = node.args[2] if len(node.args) > 2 else next((k.value for k in node.keywords if k.arg == "locals"), None)
            if l is None or (g is not None and norm(g) == norm(l)):
                stale = _persistent_namespace(mod, node, g)
                # precedence inside the one namespace: the bindings of this evaluation (matches, quantifier variables) override the spec's globals
                encl = None
                for f_ in ast.walk(mod.tree):
                    if isinstance(f_, (ast.FunctionDef, ast.AsyncFunctionDef)) and any(x is node for x in ast.walk(f_)):
                        encl = f_
                order = _merge_order(encl, g)
                roles = [_role(x) for x in order] if order else []
                if "G" in roles and "L" in roles and max(i for i, r_ in enumerate(roles) if r_ == "G") > max(i for i, r_ in enumerate(roles) if r_ == "L"):
                    chk.bad(rule, mod.relpath, node.lineno, mod.name, f"`{short(node, 70)}`: in the namespace built from {[short(x, 30) for x in order]} the spec's globals override the bindings of this evaluation",
                            "a name defined by the spec's own code shadows a variable bound by a quantifier / comprehension of a constraint (or a `<symbol>` placeholder of the same name): "
                            "`item = 999` in the spec makes `where all(int(item) >= 500 for item in *<num>)` true for every tree, so violating trees are emitted as solutions",
                            keyparts="namespace-precedence")
                    continue
                if stale:
                    chk.bad(rule, mod.relpath, node.lineno, mod.name, f"`{short(node, 70)}` evaluates in a namespace that outlives the evaluation: {stale}",
                            "the variables bound for one evaluation (quantifier variables, matches) stay visible to the next ones and shadow the spec's own names, and the "
                            "copy of the globals taken at the first evaluation never sees what the spec's code assigns later", keyparts=f"persistent-namespace|{norm(g) if g is not None else ''}")
                else:
                    chk.ok(rule, mod.name, node.lineno, f"`{short(node, 70)}`: one namespace")
            else:
                chk.bad(rule, mod.relpath, node.lineno, mod.name, f"`{short(node, 80)}` evaluates spec text with separate globals and locals",
                        "the variables that stand for `<symbol>` references live in the locals mapping, which generator expressions and lambdas of the text cannot see: "
                        "`where all(int(str(<s>)[i]) > 5 for i in range(2))` raises NameError and counts as failed for every tree", keyparts=f"two-namespaces|{norm(l)}")
    if n < 4:
        raise AnalysisError(f"only {n} eval/exec sites of spec text found")


def _merge_order(fn: Optional[ast.AST], e: Optional[ast.AST], depth: int = 0) -> Optional[list[ast.AST]]:
    """The mappings a namespace expression is merged from, lowest precedence first (a later one overrides an earlier one); None = not a
    merge this analysis understands.  Covers `{**a, **b}`, `a | b`, `dict(a)`, `dict(a, **b)`, `ChainMap(b, a)`, `a.copy()`, and a local that
    is defined by one of those and then `.update(x)`-ed in straight-line order."""
    if e is None:
        return None
    if isinstance(e, ast.Dict):
        out: list[ast.AST] = []
        for k, v in zip(e.keys, e.values):
            if k is None:
                out.append(v)
        return out if len(out) >= 1 else None
    if isinstance(e, ast.BinOp) and isinstance(e.op, ast.BitOr):
        l, r = _merge_order(fn, e.left, depth) or [e.left], _merge_order(fn, e.right, depth) or [e.right]
        return l + r
    if isinstance(e, ast.Call) and isinstance(e.func, ast.Name) and e.func.id == "dict" and e.args:
        return [e.args[0]] + [k.value for k in e.keywords if k.arg is None]
    if isinstance(e, ast.Call) and call_name(e) == "ChainMap" and e.args:
        return list(reversed(e.args))
    if isinstance(e, ast.Call) and isinstance(e.func, ast.Attribute) and e.func.attr == "copy" and not e.args:
        return [e.func.value]
    if isinstance(e, ast.Name) and fn is not None and depth < 2:
        defs = [a for a in ast.walk(fn) if isinstance(a, ast.Assign) and any(isinstance(t, ast.Name) and t.id == e.id for t in a.targets)]
        if len(defs) != 1:
            return None
        base = _merge_order(fn, defs[0].value, depth + 1)
        if base is None:
            return None
        ups = [c for c in ast.walk(fn) if isinstance(c, ast.Call) and isinstance(c.func, ast.Attribute) and c.func.attr == "update" and norm(c.func.value) == e.id and len(c.args) == 1]
        ups.sort(key=lambda c: (c.lineno, c.col_offset))
        return base + [c.args[0] for c in ups if c.lineno > defs[0].lineno]
    return None


def _role(e: ast.AST) -> Optional[str]:
    """'G' for the spec's globals, 'L' for the bindings of this evaluation - read off the names this code base uses for them."""
    t = norm(e).lower()
    if "global" in t:
        return "G"
    if "local" in t or "scope" in t or "binding" in t:
        return "L"
    return None


def _persistent_namespace(mod, call: ast.Call, ns: Optional[ast.AST]) -> Optional[str]:
    """The mapping given to eval() must die with the evaluation (a dict built in the same call) or be the spec's globals left as they are.
    A mapping that is fetched from a longer-lived container and then *updated* with this evaluation's bindings is neither."""
    if not isinstance(ns, ast.Name):
        return None
    fn = None
    for f in ast.walk(mod.tree):
        if isinstance(f, (ast.FunctionDef, ast.AsyncFunctionDef)) and any(x is call for x in ast.walk(f)):
            fn = f
    if fn is None:
        return None
    defs = [a.value for a in ast.walk(fn) if isinstance(a, ast.Assign) and any(isinstance(t, ast.Name) and t.id == ns.id for t in a.targets)]
    if not defs:
        return None
    fresh = all(isinstance(d, (ast.Dict, ast.DictComp)) or (isinstance(d, ast.Call) and isinstance(d.func, ast.Name) and d.func.id in ("dict", "ChainMap")) or
                (isinstance(d, ast.Call) and isinstance(d.func, ast.Attribute) and d.func.attr == "copy") for d in defs)
    mutated = [c for c in ast.walk(fn) if (isinstance(c, ast.Call) and isinstance(c.func, ast.Attribute) and c.func.attr in ("update", "setdefault", "__setitem__") and norm(c.func.value) == ns.id)
               or (isinstance(c, ast.Assign) and any(isinstance(t, ast.Subscript) and norm(t.value) == ns.id for t in c.targets))]
    if not fresh and mutated:
        return f"`{ns.id}` comes from `{short(defs[0], 50)}` and is written here (`{short(mutated[0], 50)}`)"
    return None


def inherited_flags_rule(chk: Check, eng: Engine, rule: str) -> None:
    """R08-h.  `exec`, `eval` and `compile` of a *string* compile it with the `__future__` flags of the module the call is written in
    (unless `compile(..., dont_inherit=True)`).  Fandango executes the spec's Python as text (`ast.unparse` + exec / eval), so a
    `from __future__ import annotations` at the top of such a module silently changes the meaning of the spec's code: annotations are no
    longer evaluated.  Only features that still change compilation on the supported interpreters count (`annotations`, `barry_as_FLUFL`);
    `eval` compiles an expression, which cannot contain an annotation, so only the operator-changing flag matters there."""
    live = {"annotations", "barry_as_FLUFL"}
    n = 0
    for mod in eng.ix.modules.values():
        if mod.tree is None or mod.name.startswith("fandango.cli"):
            continue  # the cli's `!` command compiles what the user types at the prompt, not spec text (same scope as R08-k)
        flags: dict[str, int] = {}
        for st in mod.tree.body:
            if isinstance(st, ast.ImportFrom) and st.module == "__future__":
                for a in st.names:
                    if a.name in live:
                        flags[a.name] = st.lineno
        # names re-bound in the module do not denote the builtins
        shadow = {nm for nm in ("exec", "eval", "compile") if nm in mod.functions or nm in mod.globals_assigned or nm in mod.imports}
        for node in ast.walk(mod.tree):
            if not (isinstance(node, ast.Call) and isinstance(node.func, ast.Name) and node.func.id in ("exec", "eval", "compile")):
                continue
            nm = node.func.id
            if nm in shadow or not node.args:
                continue
            src = node.args[0]
            if isinstance(src, ast.Constant):
                continue  # fixed text written by the maintainers, compiled the way they see it
            if isinstance(src, ast.JoinedStr) and _template_has_no_annotation(src):
                chk.ok(rule, mod.name, node.lineno, f"`{short(node, 60)}`: a fixed template in which names are filled in; it has no annotation", nontrivial=False)
                n += 1
                continue
            if nm == "compile" and any(k.arg == "dont_inherit" and isinstance(k.value, ast.Constant) and k.value.value is True for k in node.keywords):
                chk.ok(rule, mod.name, node.lineno, f"`{short(node, 60)}` does not inherit flags")
                n += 1
                continue
            relevant = flags if nm != "eval" else {k: v for k, v in flags.items() if k == "barry_as_FLUFL"}
            n += 1
            if relevant:
                feat = sorted(relevant)[0]
                chk.bad(rule, mod.relpath, node.lineno, mod.name, f"`{short(node, 70)}` compiles text under `from __future__ import {feat}` (line {relevant[feat]}) of its own module",
                        "the executed program is compiled with a flag its author never wrote: annotations of spec code stay unevaluated strings "
                        "(`__annotations__`, typing-driven helpers and dataclasses behave differently from the text)", keyparts=f"future|{nm}|{feat}")
            else:
                chk.ok(rule, mod.name, node.lineno, f"`{short(node, 60)}`: module imports no flag-setting __future__ feature")
    if n < 6:
        raise AnalysisError(f"only {n} exec/eval/compile sites found")


def ordinal_accessor_rule(chk: Check, eng: Engine, rule: str, class_names: list[str], only_rules=None, exclude_rules=None, min_sites: int = 10) -> None:
    """ANTLR's `ctx.X(k)` returns the k-th X that is *present*.  When an earlier occurrence of X in the rule is
    optional, the k-th present occurrence is not the k-th slot (`[:2]` has one NUMBER: it is NUMBER(0) although it
    fills the second slot).  A handler may use a constant index only if all earlier slots of X are mandatory and slot
    k itself is mandatory or the last one; otherwise it has to walk the children."""
    pg = g4.load(eng, "Parser")

    def slots(rule_name: str, what: str) -> list[list[bool]]:
        """per alternative: optional-flags of the occurrences of `what` (token or rule), in order."""
        out = []

        def walk(elems, opt: bool, acc: list):
            for e in elems:
                o = opt or e.quant in ("?", "*")
                if e.kind == "group":
                    multi = len(e.alts) > 1
                    for a in e.alts:
                        walk(a, o or multi, acc)
                    if e.quant in ("*", "+"):
                        # repeated group: further occurrences are optional
                        for a in e.alts:
                            walk(a, True, acc)
                elif e.value == what or (e.kind == "lit" and False):
                    acc.append(o)
                    if e.quant in ("*", "+"):
                        acc.append(True)

        for alt in pg.rules[rule_name].alts:
            acc: list[bool] = []
            walk(alt, False, acc)
            toks = {e.value for e in _flat(alt) if e.kind == "token"} | {lit_to_token(e.value) for e in _flat(alt) if e.kind == "lit"}
            out.append((acc, toks))
        return out

    lg = g4.load(eng, "Lexer")
    lit2tok = {}
    for tn in lg.rules:
        lt = lg.token_literal(tn)
        if lt is not None:
            lit2tok.setdefault(lt, tn)

    def lit_to_token(lit: str) -> str:
        return lit2tok.get(lit[1:-1], lit)

    def _flat(elems):
        for e in elems:
            if e.kind == "group":
                for a in e.alts:
                    yield from _flat(a)
            else:
                yield e

    n = 0
    mod = eng.module(CONVERT)
    for cn in class_names:
        c = mod.classes.get(cn)
        if c is None:
            continue
        for name, m in sorted(c.methods.items()):
            if not name.startswith("visit") or len(name) <= 5:
                continue
            r = name[5:]
            rule_name = r[0].lower() + r[1:]
            if rule_name not in pg.rules:
                continue
            if only_rules is not None and rule_name not in only_rules:
                continue
            if exclude_rules is not None and rule_name in exclude_rules:
                continue
            from ..core import parents_map, ancestors as _anc

            pmap = parents_map(m.node)
            walks_children = any(isinstance(x, ast.Call) and call_name(x) in ("getChildren", "getChild") for x in walk_local(m.node)) or \
                any(isinstance(x, ast.Attribute) and x.attr == "children" and isinstance(x.value, ast.Name) and x.value.id == "ctx" for x in walk_local(m.node))
            for x in walk_local(m.node):
                if isinstance(x, ast.Call) and isinstance(x.func, ast.Attribute) and isinstance(x.func.value, ast.Name) and x.func.value.id == "ctx" \
                        and len(x.args) == 1 and isinstance(x.args[0], ast.Constant) and isinstance(x.args[0].value, int):
                    what = x.func.attr
                    what_rule = accessor_to_rule(what, pg.rules) or what
                    k = x.args[0].value
                    amb = None
                    # token guards on the path: `if ctx.COLON(): ... else: ...`
                    pos_g, neg_g = set(), set()
                    child = x
                    for a_ in _anc(pmap, x):
                        if isinstance(a_, ast.If):
                            t_ = a_.test
                            neg_ = False
                            if isinstance(t_, ast.UnaryOp) and isinstance(t_.op, ast.Not):
                                t_, neg_ = t_.operand, True
                            if isinstance(t_, ast.Call) and isinstance(t_.func, ast.Attribute) and isinstance(t_.func.value, ast.Name) and t_.func.value.id == "ctx" and t_.func.attr.isupper() and not t_.args:
                                in_body = any(child is b_ or any(child is y_ for y_ in ast.walk(b_)) for b_ in a_.body)
                                (pos_g if in_body != neg_ else neg_g).add(t_.func.attr)
                        child = a_
                    for flags, toks in slots(rule_name, what_rule):
                        if (pos_g - toks) or (neg_g & toks):
                            continue  # this alternative is excluded by the guards around the accessor
                        if len(flags) <= 1 or k >= len(flags):
                            continue
                        if any(flags[:k]) or (flags[k] and k < len(flags) - 1):
                            amb = flags
                    n += 1
                    if amb is None:
                        chk.ok(rule, m.fq, x.lineno, f"`{short(x)}` in rule `{rule_name}`: slot {k} of `{what_rule}` is determined by position", nontrivial=False)
                    elif walks_children and False:
                        pass
                    else:
                        chk.bad(rule, eng.relfile(m), x.lineno, m.fq,
                                f"`{short(x)}`: rule `{rule_name}` has optional occurrences of `{what_rule}` (optional flags per slot: {amb}), so the {k}-th present one is not slot {k}",
                                "when an earlier optional part is omitted the handler assigns the value to the wrong role: `<x>[:2]` is read as `<x>[2:]`",
                                keyparts=f"ordinal-accessor|{rule_name}|{what_rule}|{k}")
    if n < min_sites:
        raise AnalysisError(f"only {n} constant-index context accessors found")


def literal_decoding(chk: Check, eng: Engine, rule: str) -> None:
    """String / bytes / number literals of a spec are decoded by Python's own evaluator: every value Terminal.clean
    returns is eval(<the literal text>) - no hand-written unquoting."""
    term = eng.cls("fandango.language.symbols.terminal", "Terminal")
    clean = eng.method(term, "clean", inherited=False)
    param = [p_ for p_ in clean.params() if p_ not in ("self", "cls")][0]
    rets = [r for r in walk_local(clean.node) if isinstance(r, ast.Return) and r.value is not None]
    if not rets:
        raise AnalysisError("Terminal.clean: no return")
    for r in rets:
        v = r.value
        while isinstance(v, ast.Call) and call_name(v) == "cast" and len(v.args) == 2:
            v = v.args[1]
        ok = isinstance(v, ast.Call) and call_name(v) in ("eval", "literal_eval") and v.args and isinstance(v.args[0], ast.Name) and v.args[0].id == param
        if ok:
            chk.ok(rule, clean.fq, r.lineno, f"`{short(r, 60)}`: the literal is decoded by Python's evaluator")
        else:
            chk.bad(rule, eng.relfile(clean), r.lineno, clean.fq, f"`{short(r, 70)}` decodes a literal by hand",
                    "literal forms the shortcut does not anticipate (triple quotes, prefixes, escapes, adjacent quotes) get another value than CPython gives the same text",
                    keyparts="literal-by-hand")
    # the translator hands string tokens to that function
    sp = eng.cls(CONVERT, "SearchProcessor")
    vs = sp.methods.get("visitString")
    if vs is not None and any(isinstance(c, ast.Call) and call_name(c) in ("clean", "from_symbol") for c in walk_local(vs.node)):
        chk.ok(rule, vs.fq, vs.line, "SearchProcessor.visitString decodes string tokens through Terminal.clean / from_symbol")
    elif vs is not None and any(isinstance(c, ast.Call) and call_name(c) in ("eval", "literal_eval") for c in walk_local(vs.node)):
        chk.ok(rule, vs.fq, vs.line, "SearchProcessor.visitString decodes string tokens with Python's evaluator")
    else:
        chk.bad(rule, eng.relfile(sp.methods["visitString"]) if vs else "src/fandango/language/parse/convert.py", vs.line if vs else 0, sp.fq,
                "string tokens of embedded Python are not decoded through Terminal.clean / eval", "string literals get a hand-made value", keyparts="visitstring")


BRACKET_OPEN = {"(", "[", "{", "OPEN_PAREN", "OPEN_BRACK", "OPEN_BRACE"}
BRACKET_CLOSE = {")", "]", "}", "CLOSE_PAREN", "CLOSE_BRACK", "CLOSE_BRACE"}


def operand_absorption(chk: Check, eng: Engine, rule: str) -> None:
    """R08-f.  An infix rule `E OP E'` of the constraint language whose operand rule can itself derive, outside any brackets, an expression
    that contains a token spelled like OP is ambiguous: for `2 < x < 5` the generated parser gives one operand the whole `2 < x`.  The handler
    of such a rule must recognise an operand that is itself an (unparenthesised) chain - otherwise the constraint means `(2 < x) < 5`."""
    from .. import g4
    gp = g4.load(eng, "Parser")
    gl = g4.load(eng, "Lexer")

    def lit(e) -> str:
        if e.kind == "lit":
            return e.value[1:-1]
        if e.kind == "token":
            return gl.token_literal(e.value) or e.value
        return ""

    def top_level(name: str) -> tuple[set[str], set[str]]:
        """(rules, token spellings) that can occur outside brackets in a derivation of `name`."""
        rules: set[str] = set()
        toks: set[str] = set()
        todo = [name]
        while todo:
            r = todo.pop()
            if r in rules or r not in gp.rules:
                continue
            rules.add(r)

            def walk(alts):
                for a in alts:
                    depth = 0
                    for e in a:
                        sp_ = lit(e) if e.kind in ("lit", "token") else ""
                        if e.kind in ("lit", "token") and (sp_ in BRACKET_OPEN or e.value in BRACKET_OPEN):
                            depth += 1
                            continue
                        if e.kind in ("lit", "token") and (sp_ in BRACKET_CLOSE or e.value in BRACKET_CLOSE):
                            depth = max(0, depth - 1)
                            continue
                        if depth:
                            continue
                        if e.kind == "rule":
                            todo.append(e.value)
                        elif e.kind in ("lit", "token"):
                            toks.add(sp_)
                        elif e.kind == "group":
                            walk(e.alts)
            walk(gp.rules[r].alts)
        return rules, toks

    n = 0
    cp = eng.cls("fandango.language.parse.convert", "ConstraintProcessor")
    for rname in sorted(gp.reachable(["constraint"]) - gp.reachable(["expr"])):
        r = gp.rules[rname]
        for alt in r.alts:
            if len(alt) != 3 or alt[0].kind != "rule" or alt[2].kind != "rule":
                continue
            mid = alt[1]
            ops = {lit(mid)} if mid.kind in ("lit", "token") else {lit(e) for a in mid.alts for e in a if e.kind in ("lit", "token")} if mid.kind == "group" else set()
            ops.discard("")
            if not ops:
                continue
            n += 1
            absorbed = set()
            for operand in (alt[0].value, alt[2].value):
                _, toks = top_level(operand)
                absorbed |= ops & toks
            h = cp.lookup(rule_to_method(rname))
            if not absorbed:
                chk.ok(rule, f"{rname} (grammar)", r.line, f"infix rule `{alt[0].value} {sorted(ops)} {alt[2].value}`: no operand can contain these operators outside brackets")
                continue
            if h is None:
                chk.bad(rule, gp.path, r.line, rname, f"infix rule `{rname}` has no handler in ConstraintProcessor", "default aggregation", keyparts=f"absorb-no-handler|{rname}")
                continue
            # the handler must *branch* on a value obtained by inspecting an operand: an `if` whose test (through local definitions) depends on
            # isinstance(<operand>, ast.Compare) or on a helper that looks for a ComparisonContext / compare_op pairs in the operand's context
            def inspects(e: ast.AST) -> bool:
                for c in ast.walk(e):
                    if isinstance(c, ast.Call) and call_name(c) == "isinstance" and len(c.args) == 2 and "Compare" in norm(c.args[1]):
                        return True
                    if isinstance(c, ast.Call) and isinstance(c.func, ast.Attribute) and self_attr(c.func) and cp.lookup(c.func.attr) is not None and c.args:
                        body = ast.unparse(cp.lookup(c.func.attr).node)  # type: ignore[union-attr]
                        if ("ComparisonContext" in body or "compare_op" in body) and any("ctx" in norm(a_) for a_ in c.args):
                            return True
                return False

            defs = {t.id: a.value for a in walk_local(h.node) if isinstance(a, ast.Assign) for t in a.targets if isinstance(t, ast.Name)}
            aware = False
            for i_ in walk_local(h.node):
                if isinstance(i_, ast.If):
                    exprs = [i_.test] + [defs[n_.id] for n_ in ast.walk(i_.test) if isinstance(n_, ast.Name) and n_.id in defs]
                    if any(inspects(e_) for e_ in exprs):
                        aware = True
            if aware:
                chk.ok(rule, h.fq, h.line, f"operands of `{rname}` can absorb {sorted(absorbed)} (e.g. `2 < x < 5`); the handler recognises an operand that is itself a comparison chain")
            else:
                chk.bad(rule, eng.relfile(h), h.line, h.fq, f"operands of `{rname}` can themselves contain {sorted(absorbed)[:4]} outside brackets, and the handler builds the constraint from the two "
                        "operands as the parser split them", "a chained comparison `2 < x < 5` is evaluated as `(2 < x) < 5` - true for every x: the embedded Python expression silently changes its meaning",
                        keyparts=f"operand-absorption|{rname}")
    if n == 0:
        raise AnalysisError("no infix rule found in the constraint part of the grammar")


def trailing_separator_rule(chk: Check, eng: Engine, rule: str) -> None:
    """R08-g.  In Python a trailing comma is meaning, not layout: `1,` is a tuple, `a, = x` unpacks, `x[1,]` subscripts with a tuple.  The grammar
    writes these sequences as `X (',' X)* ','?`; a handler that decides between "the element" and "a tuple of the elements" from the *number*
    of elements alone reads `1,` as `1`.  Every such decision must also consult the comma."""
    from .. import g4
    gp = g4.load(eng, "Parser")
    seq_rules = []
    for name, r in gp.rules.items():
        if r.is_lexer:
            continue
        for alt in r.alts:
            if len(alt) >= 2 and alt[-1].kind in ("lit", "token") and alt[-1].quant == "?" and alt[-1].value in ("','", "COMMA"):
                seq_rules.append(name)
                break
    if len(seq_rules) < 4:
        raise AnalysisError(f"only {len(seq_rules)} comma-sequence rules with an optional trailing comma found in the grammar")
    procs = [eng.cls("fandango.language.parse.convert", c) for c in ("SearchProcessor", "PythonProcessor")]
    n = 0
    for rname in sorted(seq_rules):
        meth = rule_to_method(rname)
        accessor = rname + ("_" if rname in ("tuple", "list", "set", "dict", "lambda", "global", "del", "pass") else "")
        for pc in procs:
            cands = []
            if meth in pc.methods:
                cands.append((pc.methods[meth], "ctx"))
            # helpers that take the rule's context as a parameter and visit it themselves
            for m in pc.methods.values():
                for c in walk_local(m.node):
                    if isinstance(c, ast.Call) and isinstance(c.func, ast.Attribute) and c.func.attr == meth and self_attr(c.func) and c.args and isinstance(c.args[0], ast.Name) \
                            and c.args[0].id in m.params() and m.name != meth:
                        cands.append((m, c.args[0].id))
            for m, ctxname in cands:
                builds_tuple = any(isinstance(c, ast.Call) and norm(c.func) == "ast.Tuple" for c in walk_local(m.node))
                if not builds_tuple:
                    continue
                for i_ in walk_local(m.node):
                    if not isinstance(i_, ast.If):
                        continue
                    conj = i_.test.values if isinstance(i_.test, ast.BoolOp) and isinstance(i_.test.op, ast.And) else [i_.test]
                    count_tests = [c for c in conj if isinstance(c, ast.Compare) and isinstance(c.left, ast.Call) and call_name(c.left) == "len" and len(c.ops) == 1
                                   and isinstance(c.ops[0], ast.Eq) and isinstance(c.comparators[0], ast.Constant) and c.comparators[0].value == 1]
                    if not count_tests:
                        continue
                    # does the branch decide between element and tuple?
                    body_txt = norm(ast.Module(body=i_.body + i_.orelse, type_ignores=[]))
                    if "ast.Tuple" not in body_txt:
                        continue
                    n += 1
                    consults = any("COMMA" in norm(c) for c in conj)
                    if consults:
                        chk.ok(rule, m.fq, i_.lineno, f"`{rname}`: one element is taken as the element only if no comma follows (`{short(i_.test, 60)}`)")
                    else:
                        chk.bad(rule, eng.relfile(m), i_.lineno, m.fq, f"`{rname}` (`X (',' X)* ','?`): `{short(i_.test, 50)}` takes a single element as the element itself without looking at the trailing comma",
                                "`t = 1,` binds 1 instead of (1,), `a, = seq` binds the whole sequence, `x[1,]` subscripts with 1: embedded Python silently changes its meaning",
                                keyparts=f"trailing-comma|{rname}|{m.name}")
    if n < 3:
        raise AnalysisError(f"only {n} element-or-tuple decisions found for comma sequences")


def rule_c(chk: Check, eng: Engine, sp: ClassInfo) -> None:
    from ..cfg import CFG

    # local list variable -> ast.arguments field, per function; star_etc returns a tuple consumed positionally by visitParameters
    for name, m in sorted(sp.methods.items()):
        loops = [l for l in walk_local(m.node) if isinstance(l, ast.For) and isinstance(l.iter, ast.Call) and isinstance(l.iter.func, ast.Attribute)
                 and isinstance(l.iter.func.value, ast.Name) and l.iter.func.value.id == "ctx" and l.iter.func.attr in PARAM_ROLES]
        if not loops:
            continue
        ctor = [c for c in walk_local(m.node) if isinstance(c, ast.Call) and isinstance(c.func, ast.Attribute) and c.func.attr == "arguments"
                and isinstance(c.func.value, ast.Name) and c.func.value.id == "ast"]
        var_to_field: dict[str, str] = {}
        if ctor:
            for kw in ctor[0].keywords:
                if isinstance(kw.value, ast.Name) and kw.arg:
                    var_to_field[kw.value.id] = kw.arg
        else:
            # helper returning the lists: role by variable name (kwonlyargs, kw_defaults ...) - confirmed against the consumer below
            for n in walk_local(m.node):
                if isinstance(n, ast.Assign) and len(n.targets) == 1 and isinstance(n.targets[0], ast.Name) and isinstance(n.value, ast.List):
                    var_to_field[n.targets[0].id] = n.targets[0].id
        cfg = eng.cfg(m)
        for lp in loops:
            acc = lp.iter.func.attr  # type: ignore[union-attr]
            want = PARAM_ROLES[acc]
            head = cfg.nodes_of(lp, {"for"})[0]
            appends: dict[str, list[int]] = {}
            for n in cfg.nodes:
                if n.kind == "stmt" and isinstance(n.ast, ast.Expr) and isinstance(n.ast.value, ast.Call) and isinstance(n.ast.value.func, ast.Attribute) \
                        and n.ast.value.func.attr in ("append", "extend") and isinstance(n.ast.value.func.value, ast.Name):
                    # inside this loop?
                    if any(x is n.ast for x in ast.walk(lp)):
                        v = n.ast.value.func.value.id
                        if v in var_to_field:
                            appends.setdefault(var_to_field[v], []).append(n.id)
            got_fields = set(appends)
            wrong = sorted(got_fields - want - {"searches"})
            body_start = [b for b, lab in cfg.succ[head] if lab == "loop"]
            missing = []
            for fld in sorted(want):
                ids = appends.get(fld, [])
                if not ids or cfg.find_path(head, [head], avoid=ids, ignore=("exc-out", "raise-out", "abandon", "exhausted")) is not None:
                    missing.append(fld)
            if wrong:
                chk.bad("R08-c", eng.relfile(m), lp.lineno, m.fq, f"items of `ctx.{acc}()` are appended to {wrong} of ast.arguments",
                        "the parameter kind changes: e.g. `def f(a, b=2)` becomes `def f(a, *, b=2)` and positional calls in spec code fail",
                        keyparts=f"param-role|{acc}|wrong|{','.join(wrong)}")
            elif missing:
                chk.bad("R08-c", eng.relfile(m), lp.lineno, m.fq, f"items of `ctx.{acc}()` do not reach {missing} of ast.arguments on every path",
                        "parameters (or their defaults) are dropped or moved to another parameter kind", keyparts=f"param-role|{acc}|missing|{','.join(missing)}")
            else:
                chk.ok("R08-c", m.fq, lp.lineno, f"items of `ctx.{acc}()` are appended to {sorted(want)} on every path and to no other parameter list")


def _ancestors(via: dict[str, str], r: str) -> list[str]:
    out = []
    p = via.get(r)
    while p is not None and len(out) < 20:
        out.append(p)
        p = via.get(p)
    return out


# ------------------------------------------------------------------ self-test variants
from ..mutants import M  # noqa: E402

_CV = "src/fandango/language/parse/convert.py"
_G4 = "language/FandangoParser.g4"
MUTANTS = [
    M("evaluation-namespace-kept-between-evaluations", "src/fandango/constraints/constraint.py", "        return eval(expression, {**global_variables, **local_variables})\n",
      "        entry = Constraint._namespaces.get(id(global_variables))\n        if entry is None:\n            entry = (global_variables, dict(global_variables))\n            Constraint._namespaces[id(global_variables)] = entry\n        namespace = entry[1]\n        namespace.update(local_variables)\n        return eval(expression, namespace)\n", "R08-k"),
    M("globals-override-bound-variables", "src/fandango/constraints/constraint.py", "        return eval(expression, {**global_variables, **local_variables})\n", "        namespace = dict(local_variables)\n        namespace.update(global_variables)\n        return eval(expression, namespace)\n", "R08-k"),
    M("generator-globals-override-parameters", "src/fandango/language/grammar/grammar.py", "            generator.call, {**self._global_variables, **local_variables}\n", "            generator.call, {**local_variables, **self._global_variables}\n", "R08-k"),
    M("placeholders-as-eval-locals", "src/fandango/constraints/constraint.py", "        return eval(expression, {**global_variables, **local_variables})\n", "        return eval(expression, global_variables, local_variables)\n", "R08-k"),
    M("generator-parameters-as-eval-locals", "src/fandango/language/grammar/grammar.py", "            generator.call, {**self._global_variables, **local_variables}\n", "            generator.call, self._global_variables, local_variables\n", "R08-k"),
    M("fstring-text-from-token-texts", _CV, "            text = stream.getText(begin, end)\n", "            text = \"\".join(t.getText() for t in tokens_between(begin, end))\n            trees.append(ast.Constant(value=text.getText()))\n", "R08-i"),
    M("fstring-never-reads-the-stream", _CV, "            text = stream.getText(begin, end)\n", "            text = suffix\n", "R08-i",
      more=(("                    ast.Constant(value=stream.getText(field.start.start + 1, end - 1))\n", "                    ast.Constant(value=str(end))\n"),)),
    M("self-documenting-field-ignored", _CV, "            if field.ASSIGN():\n", "            if False:\n", "R08-j", more=(("        elif ctx.ASSIGN() and not ctx.fstring_full_format_spec():\n", "        elif False:\n"),)),
    M("async-comprehension-becomes-sync", _CV, "        is_async = True if ctx.ASYNC() else False  # needed for None check\n", "        is_async = False\n", "R08-j"),
    M("spec-code-compiled-under-future-annotations", "src/fandango/language/parse/spec.py", "import ast\nimport hashlib\n", "from __future__ import annotations\n\nimport ast\nimport hashlib\n", "R08-h"),
    M("lambda-handler-removed", "src/fandango/language/parse/convert.py", "    def visitLambdef(self, ctx: FandangoParser.LambdefContext):\n", "    def _unused_visitLambdef(self, ctx: FandangoParser.LambdefContext):\n", "R08-a"),
    M("one-element-tuple-collapsed", "src/fandango/language/parse/convert.py", "        if len(expressions) == 1 and not ctx.COMMA():\n", "        if len(expressions) == 1:\n", "R08-g"),
    M("one-element-subscript-tuple-collapsed", "src/fandango/language/parse/convert.py", "        if len(slice_trees) == 1 and not slices.COMMA():\n", "        if len(slice_trees) == 1:\n", "R08-g"),
    M("chained-comparison-not-rejoined", "src/fandango/language/parse/convert.py", "        left_chain = self._is_comparison_chain(ctx.expr(0))\n        right_chain = self._is_comparison_chain(ctx.expr(1))\n", "        left_chain = False\n        right_chain = False\n", "R08-f"),
    M("fold-negative-literals", _CV, "        elif ctx.MINUS():\n            return self._visit_unary_op(ctx, ast.USub())\n", "        elif ctx.MINUS():\n            tree, searches, search_map = self._visit_unary_op(ctx, ast.USub())\n            if isinstance(tree.operand, ast.Constant):\n                return ast.Constant(value=-tree.operand.value), searches, search_map\n            return tree, searches, search_map\n", "R08-b"),
    M("literal-fast-path", "src/fandango/language/symbols/terminal.py", "        return cast(\n            str | bytes | int, eval(symbol)\n        )", "        if symbol[0] in \"'\\\"\" and \"\\\\\" not in symbol:\n            return symbol[1:-1]\n        return cast(\n            str | bytes | int, eval(symbol)\n        )", "R08-d"),
    M("drop-star-named-handler", _CV, "    def visitStar_named_expression(\n        self, ctx: FandangoParser.Star_named_expressionContext\n    ):", "    def visit_Star_named_expression(\n        self, ctx: FandangoParser.Star_named_expressionContext\n    ):", "R08-a"),
    M("drop-expr-handler", _CV, "    def visitExpr(self, ctx: FandangoParser.ExprContext):\n        # Without this handler", "    def _visitExpr(self, ctx: FandangoParser.ExprContext):\n        # Without this handler", "R08-a"),
    M("drop-await-handler", _CV, "    def visitAwait_primary(self, ctx: FandangoParser.Await_primaryContext):", "    def visitAwaitPrimary(self, ctx: FandangoParser.Await_primaryContext):", "R08-a"),
    M("floor-div-becomes-div", _CV, "            return self._visit_bin_op(ctx, ast.FloorDiv())", "            return self._visit_bin_op(ctx, ast.Div())", "R08-b"),
    M("shift-swapped", _CV, "        if ctx.LEFT_SHIFT():\n            return self._visit_bin_op(ctx, ast.LShift())\n        elif ctx.RIGHT_SHIFT():\n            return self._visit_bin_op(ctx, ast.RShift())",
      "        if ctx.LEFT_SHIFT():\n            return self._visit_bin_op(ctx, ast.RShift())\n        elif ctx.RIGHT_SHIFT():\n            return self._visit_bin_op(ctx, ast.LShift())", "R08-b"),
    M("lte-becomes-lt", _CV, "        return ast.LtE(), self.visitBitwise_or(ctx.bitwise_or())", "        return ast.Lt(), self.visitBitwise_or(ctx.bitwise_or())", "R08-b"),
    M("matmul-branch-removed", _CV, "        elif ctx.AT():\n            return self._visit_bin_op(ctx, ast.MatMult())\n", "", "R08-b"),
    M("defaults-to-kwonly", _CV, "            arg, d, s, m = self.visitParam_with_default(param)\n            args.append(arg)\n            defaults.append(d)\n",
      "            arg, d, s, m = self.visitParam_with_default(param)\n            kwonlyargs.append(arg)\n            kw_defaults.append(d)\n", "R08-c"),
    M("default-value-dropped", _CV, "            arg, d, s, m = self.visitParam_with_default(param)\n            args.append(arg)\n            defaults.append(d)\n",
      "            arg, d, s, m = self.visitParam_with_default(param)\n            args.append(arg)\n            if d is not None and ctx.star_etc():\n                defaults.append(d)\n", "R08-c"),
]
TWINS = [
    M("twin-namespace-merged-with-the-union-operator", "src/fandango/constraints/constraint.py", "        return eval(expression, {**global_variables, **local_variables})\n", "        namespace = global_variables | local_variables\n        return eval(expression, namespace)\n", None),
    M("twin-merged-namespace-in-a-local", "src/fandango/constraints/constraint.py", "        return eval(expression, {**global_variables, **local_variables})\n", "        namespace = dict(global_variables)\n        namespace.update(local_variables)\n        return eval(expression, namespace)\n", None),
    M("twin-fstring-stream-in-a-local", _CV, "            text = stream.getText(begin, end)\n", "            source = stream\n            text = source.getText(begin, end)\n", None),
    M("twin-async-flag-as-bool", _CV, "        is_async = True if ctx.ASYNC() else False  # needed for None check\n", "        is_async = bool(ctx.ASYNC())\n", None),
    M("twin-future-annotations-where-only-expressions-are-evaluated", "src/fandango/constraints/constraint.py", "from abc import ABC, abstractmethod\n", "from __future__ import annotations\nfrom abc import ABC, abstractmethod\n", None),
    M("twin-future-annotations-beside-a-fixed-template", "src/fandango/language/parse/io.py", "from typing import Any, Optional\nfrom fandango.errors import FandangoError, FandangoValueError\n", "from __future__ import annotations\nfrom typing import Any, Optional\nfrom fandango.errors import FandangoError, FandangoValueError\n", None),
    M("twin-sum-elif-to-if", _CV, "        if ctx.ADD():\n            return self._visit_bin_op(ctx, ast.Add())\n        elif ctx.MINUS():\n            return self._visit_bin_op(ctx, ast.Sub())\n        return self.visitTerm(ctx.term())",
      "        if ctx.ADD():\n            return self._visit_bin_op(ctx, ast.Add())\n        if ctx.MINUS():\n            return self._visit_bin_op(ctx, ast.Sub())\n        return self.visitTerm(ctx.term())", None),
    M("twin-param-loop-rename", _CV, "            arg, d, s, m = self.visitParam_with_default(param)\n            args.append(arg)\n            defaults.append(d)\n", "            arg, dflt, s, m = self.visitParam_with_default(param)\n            args.append(arg)\n            defaults.append(dflt)\n", None),
]
