"""C01 - every generated tree is a derivation of the spec's grammar (structural clauses).

R01-a  substitution guard: in DerivationTree.replace_multiple the only path that installs a
       foreign subtree lies behind the conjunction  path-matches  and  same symbol  and
       not read_only.
R01-b  grammar-deviating generation is default-off: in every `fuzz` method of the Node family,
       each statement that departs from "expand exactly what the node denotes" (building
       Concatenation/Repetition/Alternative objects on the fly, returning without producing
       anything, using the global repetition cap as a repeat count, expanding another rule,
       generating a non-matching regex instance) is control-dependent on a test of
       self.settings.get(K) whose key K has a falsy default in NODE_SETTINGS_DEFAULTS.
R01-c  repetition/alternative/concatenation shape: the loop bound of Repetition.fuzz is
       random.randint(self.min, self.max) or the override parameters (whose callers are
       enumerated), the early break respects self.min; Alternative.fuzz dispatches to exactly one
       element drawn from self.alternatives; Concatenation.fuzz expands every element of
       self.nodes exactly once, in order.
R01-d  repair parses under the target's symbol; the same-symbol shortcut is guarded by symbol
       equality; crossover swaps nodes found under one symbol; mutation re-fuzzes the replaced
       node's own symbol.
"""

from __future__ import annotations

import ast
from typing import Optional

from ..core import AnalysisError, ClassInfo, FuncInfo, call_name, get_kwarg, names_in, norm, self_attr, short, walk_local
from ..engine import Engine
from ..report import Check

NODES = "fandango.language.grammar.nodes"
TREE = "fandango.language.tree"
ON_THE_FLY = {"Concatenation", "Repetition", "Alternative", "Star", "Plus", "Option"}


def replace_guard(chk: Check, eng: Engine, rule: str, need: set[str]) -> None:
    """Shared with C16: conjuncts of the substitution guard in replace_multiple."""
    T = eng.cls(TREE, "DerivationTree")
    rm = eng.method(T, "replace_multiple", inherited=False)
    cfg = eng.cfg(rm)
    # R: expressions that denote the replacement looked up for the current path
    #    path_to_replacement[current_path] | path_to_replacement.get(current_path) | a local assigned from one of them
    table = "path_to_replacement"

    def is_lookup(e: ast.AST) -> bool:
        if isinstance(e, ast.Subscript) and norm(e.value) == table and norm(e.slice) == "current_path":
            return True
        if isinstance(e, ast.Call) and isinstance(e.func, ast.Attribute) and e.func.attr == "get" and norm(e.func.value) == table and e.args and norm(e.args[0]) == "current_path":
            return True
        return False

    rlocals = {t.id for n in walk_local(rm.node) if isinstance(n, ast.Assign) and is_lookup(n.value) for t in n.targets if isinstance(t, ast.Name)}
    may_be_none = {t.id for n in walk_local(rm.node) if isinstance(n, ast.Assign) and is_lookup(n.value) and isinstance(n.value, ast.Call) for t in n.targets if isinstance(t, ast.Name)}

    def is_R(e: ast.AST) -> bool:
        return is_lookup(e) or (isinstance(e, ast.Name) and e.id in rlocals)

    def is_install(st: ast.AST) -> bool:
        return any(isinstance(c, ast.Call) and isinstance(c.func, ast.Attribute) and c.func.attr in ("deepcopy", "__deepcopy__", "copy") and is_R(c.func.value) for c in ast.walk(st)) or \
            any(isinstance(r, ast.Return) and r.value is not None and is_R(r.value) for r in ast.walk(st))

    guards = []
    for n in cfg.nodes:
        if n.kind == "if" and any(is_install(st) for st in n.ast.body):  # type: ignore[union-attr]
            guards.append(n)
    if len(guards) != 1:
        raise AnalysisError(f"replace_multiple: substitution branch not recognised ({len(guards)} candidates)")
    g = guards[0]
    test = g.ast.test  # type: ignore[union-attr]
    conj = test.values if isinstance(test, ast.BoolOp) and isinstance(test.op, ast.And) else [test]
    have: dict[str, ast.AST] = {}
    for c in conj:
        if isinstance(c, ast.Compare) and len(c.ops) == 1:
            l, r, op = c.left, c.comparators[0], c.ops[0]
            if isinstance(op, ast.In) and norm(l) == "current_path" and norm(r) == table:
                have["path"] = c
            elif isinstance(op, ast.IsNot) and isinstance(l, ast.Name) and l.id in may_be_none and isinstance(r, ast.Constant) and r.value is None:
                have["path"] = c
            elif isinstance(op, ast.Eq):
                sides = [l, r]
                own = [x for x in sides if norm(x) == "self.symbol"]
                other = [x for x in sides if isinstance(x, ast.Attribute) and x.attr == "symbol" and is_R(x.value)]
                if own and other:
                    have["symbol"] = c
        elif isinstance(c, ast.UnaryOp) and isinstance(c.op, ast.Not) and norm(c.operand) == "self.read_only":
            have["read_only"] = c
        elif isinstance(c, ast.Name) and c.id in may_be_none:
            have["path"] = c
    for k in sorted(need):
        if k in have:
            chk.ok(rule, rm.fq, g.line, f"substitution guard contains the conjunct `{short(have[k])}` [{k}]")
        else:
            why = {
                "path": "a replacement is installed at a node it was not computed for",
                "symbol": "crossover / repair can hang a subtree of another symbol below a node: the emitted tree is not a derivation of the grammar",
                "read_only": "generator-owned (read-only) text is overwritten by a search operator without re-running the generator",
            }[k]
            chk.bad(rule, eng.relfile(rm), g.line, rm.fq, f"substitution guard `{short(test, 120)}` lacks the {k} conjunct", why, keyparts=f"guard-missing|{k}")
    # the foreign subtree is installed only behind the true edge of that guard
    installs = [n for n in cfg.nodes if n.kind == "stmt" and n.ast is not None and is_install(n.ast)]
    for i in installs:
        p = cfg.find_path(cfg.entry, [i.id], ignore_edges={(g.id, "true")})
        if p is None:
            chk.ok(rule, rm.fq, i.line, "the replacement subtree is copied in only behind the guard's true edge")
        else:
            chk.bad(rule, eng.relfile(rm), i.line, rm.fq, "the replacement subtree can be installed without passing the guard",
                    "an unchecked substitution", path=cfg.describe_path(p), keyparts="install-unguarded")
    # disjunctive weakening: the test must be a pure conjunction
    if isinstance(test, ast.BoolOp) and isinstance(test.op, ast.Or):
        chk.bad(rule, eng.relfile(rm), g.line, rm.fq, "substitution guard is a disjunction", "any single condition suffices to substitute", keyparts="guard-or")


def position_bookkeeping_rule(chk: Check, eng: Engine, rule: str) -> None:
    """A node that takes the place of another one in replace_multiple inherits what belongs to the *position*, not to the subtree: the parent
    link and the repetition tags (`origin_repetitions`: which round of which repetition of the parent's rule this child is).  The copy of the
    replacement carries the tags of the place it was taken from; without the hand-over a swapped element drops out of the count of its
    repetition (computed bounds are then "repaired" by inserting elements, and the over-long tree scores 1.0).  On every path from the copy to
    the return of the new node both fields are assigned from the replaced node."""
    T = eng.cls(TREE, "DerivationTree")
    rm = eng.method(T, "replace_multiple", inherited=False)
    cfg = eng.cfg(rm)
    copies = [n for n in cfg.nodes if n.kind == "stmt" and isinstance(n.ast, ast.Assign) and len(n.ast.targets) == 1 and isinstance(n.ast.targets[0], ast.Name)
              and isinstance(n.ast.value, ast.Call) and isinstance(n.ast.value.func, ast.Attribute) and n.ast.value.func.attr in ("deepcopy", "__deepcopy__")
              and ("path_to_replacement" in norm(n.ast.value.func.value) or "replacement" in norm(n.ast.value.func.value))]
    if len(copies) != 1:
        raise AnalysisError(f"replace_multiple: the copy of the replacement subtree was not recognised ({len(copies)} candidates)")
    cp = copies[0]
    var = cp.ast.targets[0].id  # type: ignore[union-attr]
    rets = [n.id for n in cfg.nodes if n.kind == "stmt" and isinstance(n.ast, ast.Return) and n.ast.value is not None and norm(n.ast.value) == var]
    if not rets:
        raise AnalysisError(f"replace_multiple: `return {var}` not found")
    for fld, own in (("origin_repetitions", ("self.origin_repetitions", "self._origin_repetitions")), ("_parent", ("self.parent", "self._parent"))):
        hand = [n.id for n in cfg.nodes if n.kind == "stmt" and isinstance(n.ast, ast.Assign) and any(isinstance(t, ast.Attribute) and norm(t.value) == var and t.attr.lstrip("_") == fld.lstrip("_")
                                                                                                       for t in n.ast.targets)
                and any(o in norm(n.ast.value) for o in own)]
        p = cfg.find_path(cp.id, rets, avoid=hand)
        if p is None and hand:
            chk.ok(rule, rm.fq, cfg.nodes[hand[0]].line, f"the node that takes the place inherits `{fld}` of the replaced node on every path")
        else:
            chk.bad(rule, eng.relfile(rm), cp.line, rm.fq, f"the replacement returned by replace_multiple does not take over `{fld}` from the node it replaces",
                    "the repetition tags (or the parent link) of the copy describe the place the subtree was taken from: a swapped repetition element is no longer counted by its "
                    "repetition, the bounds constraint 'repairs' the tree by inserting elements and the over-long tree is emitted as a solution",
                    path=cfg.describe_path(p) if p else [], keyparts=f"position-field|{fld}")


def settings_keys(eng: Engine) -> dict[str, object]:
    mod = eng.module(f"{NODES}.node")
    for st in mod.tree.body:  # type: ignore[union-attr]
        if isinstance(st, ast.Assign) and any(isinstance(t, ast.Name) and t.id == "NODE_SETTINGS_DEFAULTS" for t in st.targets) and isinstance(st.value, ast.Dict):
            out = {}
            for k, v in zip(st.value.keys, st.value.values):
                if isinstance(k, ast.Constant) and isinstance(v, ast.Constant):
                    out[k.value] = v.value
            return out
    raise AnalysisError("NODE_SETTINGS_DEFAULTS not found")


def rule_b(chk: Check, eng: Engine) -> None:
    defaults = settings_keys(eng)
    base = eng.cls(f"{NODES}.node", "Node")
    used_keys: set[str] = set()
    for c in sorted(base.family(), key=lambda c: c.fq):
        fn = c.methods.get("fuzz")
        if fn is None:
            continue
        eng.consult(fn.module)
        cfg = eng.cfg(fn)
        # guard nodes: if-tests that (transitively through one local) read self.settings.get(K)
        local_keys: dict[str, set[str]] = {}
        for n in walk_local(fn.node):
            if isinstance(n, ast.Assign) and len(n.targets) == 1 and isinstance(n.targets[0], ast.Name):
                ks = _keys_in(n.value)
                if ks:
                    local_keys[n.targets[0].id] = ks
        guard_keys: dict[int, set[str]] = {}

        def implied_keys(t: ast.AST) -> set[str]:
            """Setting keys whose test is implied by `t` being true (conjuncts yes, disjuncts only if in all)."""
            if isinstance(t, ast.BoolOp) and isinstance(t.op, ast.And):
                out: set[str] = set()
                for v in t.values:
                    out |= implied_keys(v)
                return out
            if isinstance(t, ast.BoolOp) and isinstance(t.op, ast.Or):
                sets = [implied_keys(v) for v in t.values]
                return set.intersection(*sets) if sets else set()
            if isinstance(t, ast.UnaryOp) and isinstance(t.op, ast.Not):
                return set()
            ks = _keys_in(t)
            if isinstance(t, ast.Name):
                ks |= local_keys.get(t.id, set())
            return ks

        for n in cfg.nodes:
            if n.kind in ("if", "while"):
                ks = implied_keys(n.ast.test)  # type: ignore[union-attr]
                if ks:
                    guard_keys[n.id] = ks
                for nm in names_in(n.ast.test):  # type: ignore[union-attr]
                    used_keys_local = local_keys.get(nm, set())
                    if used_keys_local:
                        used_keys.update(used_keys_local)
                used_keys.update(_keys_in(n.ast.test))  # type: ignore[union-attr]
        for ks in list(guard_keys.values()) + list(local_keys.values()):
            used_keys |= ks
        regions: dict[int, set[int]] = {g: cfg.true_branch_nodes(g) for g in guard_keys}
        # nested function bodies (get_one in TerminalNode.fuzz) are scanned with their own guards
        nested = [x for x in walk_local(fn.node) if isinstance(x, (ast.FunctionDef,))]

        def guarded(nid: int) -> Optional[set[str]]:
            for g, reg in regions.items():
                if nid in reg:
                    return guard_keys[g]
            return None

        deviations: list[tuple[int, str, ast.AST]] = []
        for n in cfg.nodes:
            if n.ast is None or n.kind not in ("stmt", "for"):
                continue
            exprs = [n.ast] if n.kind == "stmt" else [n.ast.iter]  # type: ignore[union-attr]
            if n.note == "def":
                continue
            for e in exprs:
                for x in ast.walk(e):
                    if isinstance(x, ast.Call) and call_name(x) in ON_THE_FLY and not (isinstance(x.func, ast.Attribute)):
                        deviations.append((n.id, f"builds a {call_name(x)} node on the fly", x))
                    if isinstance(x, ast.Attribute) and x.attr == "MAX_REPETITIONS":
                        deviations.append((n.id, "uses the global repetition cap as a count", x))
                    if isinstance(x, ast.Attribute) and x.attr == "rules" and isinstance(x.value, ast.Name) and x.value.id == "grammar" and c.name == "NonTerminalNode":
                        deviations.append((n.id, "looks at other rules of the grammar", x))
        # nop returns: a bare return reachable from entry without any add_child / .fuzz( call
        producers = [n.id for n in cfg.nodes if n.ast is not None and n.kind in ("stmt", "for", "if") and n.note != "def" and any(
            isinstance(x, ast.Call) and call_name(x) in ("add_child", "fuzz", "set_children") for x in ast.walk(n.ast if n.kind == "stmt" else getattr(n.ast, "test", None) or getattr(n.ast, "iter", n.ast)))]
        for n in cfg.nodes:
            if n.kind == "stmt" and isinstance(n.ast, ast.Return) and n.ast.value is None:
                if cfg.find_path(cfg.entry, [n.id], avoid=producers) is not None or cfg.entry == n.id:
                    if c is base:
                        continue
                    deviations.append((n.id, "returns without producing anything", n.ast))
        for nid, what, x in deviations:
            ks = guarded(nid)
            if ks is None:
                chk.bad("R01-b", eng.relfile(fn), cfg.nodes[nid].line, fn.fq, f"`{cfg.nodes[nid].text()}` {what} outside any settings-guarded region",
                        "plain generation departs from the grammar (a Gmutator-style deviation that is not switched off by default): emitted words are not in the language",
                        keyparts=f"unguarded-deviation|{what}")
                continue
            bad = [k for k in ks if k not in defaults or defaults[k]]
            if bad:
                chk.bad("R01-b", eng.relfile(fn), cfg.nodes[nid].line, fn.fq, f"`{cfg.nodes[nid].text()}` {what} under setting(s) {sorted(ks)} whose default is not falsy",
                        "the deviation is active by default", keyparts=f"default-on|{','.join(sorted(bad))}")
            else:
                chk.ok("R01-b", fn.fq, cfg.nodes[nid].line, f"{c.name}.fuzz: `{short(x, 50)}` ({what}) only under {sorted(ks)} (default {[defaults[k] for k in sorted(ks)]})")
        # nested helper (regex inversion)
        for nf in nested:
            for x in ast.walk(nf):
                if isinstance(x, ast.Call) and call_name(x) == "getone" and x.args and isinstance(x.args[0], ast.Constant) and x.args[0].value == ".*":
                    # must be inside an if testing invert_regex
                    from ..core import parents_map, ancestors

                    pm = parents_map(nf)
                    ifs = [a for a in ancestors(pm, x) if isinstance(a, ast.If) and _keys_in(a.test)]
                    ks = set()
                    for a in ifs:
                        ks |= _keys_in(a.test)
                    used_keys |= ks
                    if ks and all(k in defaults and not defaults[k] for k in ks):
                        chk.ok("R01-b", fn.fq, x.lineno, f"{c.name}.fuzz: arbitrary-string generation `{short(x)}` only under {sorted(ks)} (default off)")
                    else:
                        chk.bad("R01-b", eng.relfile(fn), x.lineno, fn.fq, f"`{short(x)}` (a string outside the regex) is generated outside a default-off setting",
                                "regex terminals are instantiated with non-matching text by default", keyparts="unguarded-deviation|regex-inversion")
    # every probability-style key is used somewhere and defaults to a falsy value
    for k in sorted(used_keys):
        if k in defaults and not defaults[k]:
            chk.ok("R01-b", f"{NODES}.node:NODE_SETTINGS_DEFAULTS", 0, f"deviation switch `{k}` defaults to {defaults[k]!r}")
        elif k in ("max_out_of_regex_tries", "max_stack_pow"):
            continue
        else:
            chk.bad("R01-b", f"src/fandango/language/grammar/nodes/node.py", 0, "NODE_SETTINGS_DEFAULTS", f"deviation switch `{k}` has default {defaults.get(k)!r}",
                    "a grammar-deviating mutation is active without being asked for", keyparts=f"default-on|{k}")


def _keys_in(e: ast.AST) -> set[str]:
    out = set()
    for x in ast.walk(e):
        if isinstance(x, ast.Call) and call_name(x) == "get" and isinstance(x.func, ast.Attribute) and "settings" in norm(x.func.value) and x.args and isinstance(x.args[0], ast.Constant):
            out.add(x.args[0].value)
    return out


def rule_c(chk: Check, eng: Engine) -> None:
    rep = eng.cls(f"{NODES}.repetition", "Repetition")
    fz = eng.method(rep, "fuzz", inherited=False)
    loops = [n for n in walk_local(fz.node) if isinstance(n, ast.For) and isinstance(n.iter, ast.Call) and call_name(n.iter) == "range"]
    if len(loops) != 1:
        raise AnalysisError("Repetition.fuzz: expected one `for .. in range(..)` loop")
    lp = loops[0]
    bound = lp.iter.args[0] if len(lp.iter.args) == 1 else None  # type: ignore[union-attr]
    if not isinstance(bound, ast.Name):
        raise AnalysisError("Repetition.fuzz: loop bound is not a local name")
    defs = [n for n in walk_local(fz.node) if isinstance(n, ast.Assign) and any(isinstance(t, ast.Name) and t.id == bound.id for t in n.targets)]
    ok_defs = True
    def is_bounded_draw(v: ast.AST, depth: int = 0) -> bool:
        if isinstance(v, ast.Call) and norm(v.func) == "random.randint" and len(v.args) == 2 and norm(v.args[0]) == "self.min" and norm(v.args[1]) == "self.max":
            return True
        if isinstance(v, ast.Name) and depth < 3:
            ds = [n for n in walk_local(fz.node) if isinstance(n, ast.Assign) and any(isinstance(t, ast.Name) and t.id == v.id for t in n.targets)]
            return bool(ds) and all(is_bounded_draw(x.value, depth + 1) for x in ds)
        return False

    for d in defs:
        v = d.value
        if is_bounded_draw(v):
            chk.ok("R01-c", fz.fq, d.lineno, f"`{short(d)}`: count drawn within the declared bounds")
        elif all(nm.startswith("override_") or nm in ("self",) for nm in names_in(v)):
            # only reachable when an override was passed: true branch of `override... is not None`, or else branch of `override... is None`
            from ..core import parents_map, enclosing

            pm = parents_map(fz.node)
            iff = enclosing(pm, d, (ast.If,))
            given = False
            if iff is not None and isinstance(iff.test, ast.Compare) and len(iff.test.ops) == 1 and "override" in norm(iff.test.left) \
                    and isinstance(iff.test.comparators[0], ast.Constant) and iff.test.comparators[0].value is None:
                in_body = any(d is x for b in iff.body for x in ast.walk(b))
                given = (isinstance(iff.test.ops[0], ast.IsNot) and in_body) or (isinstance(iff.test.ops[0], ast.Is) and not in_body)
            if given:
                chk.ok("R01-c", fz.fq, d.lineno, f"`{short(d)}`: only when the caller passed override parameters")
            else:
                ok_defs = False
        else:
            ok_defs = False
        if not ok_defs:
            chk.bad("R01-c", eng.relfile(fz), d.lineno, fz.fq, f"repetition count is defined by `{short(d)}`",
                    "the number of iterations is not drawn from [min, max]: emitted trees violate the declared repetition bounds", keyparts="count-provenance|" + short(d.value, 40))
            ok_defs = True
    # the early break keeps at least min iterations
    for b in [x for x in ast.walk(lp) if isinstance(x, ast.Break)]:
        from ..core import parents_map, enclosing

        pm = parents_map(fz.node)
        iff = enclosing(pm, b, (ast.If,))
        t = norm(iff.test) if iff is not None else ""
        if iff is not None and ">= self.min" in t:
            chk.ok("R01-c", fz.fq, b.lineno, f"early break only when `{short(iff.test)}`")
        else:
            chk.bad("R01-c", eng.relfile(fz), b.lineno, fz.fq, f"early break under `{t}` does not require the minimum count",
                    "fewer iterations than the declared minimum are emitted when the node budget runs out", keyparts="break-below-min")
    # who passes override parameters
    callers = []
    fuzz_params = [a.arg for a in fz.node.args.args][1:]  # type: ignore[attr-defined]  # without self

    def override_args(c: ast.Call) -> list[tuple[str, ast.AST]]:
        """(parameter name, argument) for every override_* parameter of Repetition.fuzz that the call sets, by keyword or by position."""
        out = [(k.arg, k.value) for k in c.keywords if k.arg and k.arg.startswith("override_")]
        if not any(isinstance(a, ast.Starred) for a in c.args):
            out += [(nm, a) for nm, a in zip(fuzz_params, c.args) if nm.startswith("override_")]
        return out

    for f in eng.ix.all_functions:
        own_params = {a.arg for a in f.node.args.args + f.node.args.kwonlyargs}  # type: ignore[attr-defined]
        stored = {t.id for n in walk_local(f.node) for t in ast.walk(n) if isinstance(t, ast.Name) and isinstance(t.ctx, ast.Store)}
        for c in walk_local(f.node):
            if isinstance(c, ast.Call) and call_name(c) == "fuzz":
                ov = override_args(c)
                # handing on one's own, never reassigned, parameter of the same name dictates nothing: the decision is the outer caller's
                ov = [(nm, a) for nm, a in ov if not (isinstance(a, ast.Name) and a.id == nm and nm in own_params and nm not in stored)]
                if ov:
                    callers.append((f, c))
    allowed = {"RepetitionBoundsSuggestion._insert_repetitions"}
    for f, c in callers:
        if f.qualname in allowed:
            chk.ok("R01-c", f.fq, c.lineno, "override parameters passed by the repetition-bounds repair only")
        else:
            chk.bad("R01-c", eng.relfile(f), c.lineno, f.fq, f"`{short(c, 70)}` overrides the repetition count",
                    "a caller other than the bounds repair dictates iteration counts outside [min, max]", keyparts="override-caller")
    # Alternative
    alt = eng.cls(f"{NODES}.alternative", "Alternative")
    af = eng.method(alt, "fuzz", inherited=False)
    last = af.node.body[-1]  # type: ignore[attr-defined]
    src = norm(last)
    if isinstance(last, ast.Expr) and src.startswith("random.choice(") and ".fuzz(" in src:
        pool = last.value.func.value.args[0]  # type: ignore[union-attr]
        chk.ok("R01-c", af.fq, last.lineno, f"exactly one alternative is expanded: `{short(last, 70)}`")
        if isinstance(pool, ast.Name):
            pdefs = [n for n in walk_local(af.node) if isinstance(n, (ast.Assign, ast.AnnAssign)) and any(isinstance(t, ast.Name) and t.id == pool.id for t in (n.targets if isinstance(n, ast.Assign) else [n.target]))]
            for d in pdefs:
                v = d.value
                s = norm(v) if v is not None else ""
                if "self.alternatives" in s:
                    chk.ok("R01-c", af.fq, d.lineno, f"candidate pool `{pool.id}` is a selection of self.alternatives")
                elif s == "concats":
                    continue  # inside the default-off region (R01-b)
                else:
                    chk.bad("R01-c", eng.relfile(af), d.lineno, af.fq, f"candidate pool defined as `{short(d)}`", "something other than one of the rule's alternatives is expanded", keyparts="alt-pool|" + short(v, 40) if v is not None else "alt-pool")
    else:
        chk.bad("R01-c", eng.relfile(af), last.lineno, af.fq, f"Alternative.fuzz does not end in `random.choice(pool).fuzz(...)`", "zero or several alternatives may be expanded", keyparts="alt-dispatch")
    # Concatenation
    con = eng.cls(f"{NODES}.concatenation", "Concatenation")
    cf_ = eng.method(con, "fuzz", inherited=False)
    cl = [n for n in cf_.node.body if isinstance(n, ast.For)]  # type: ignore[attr-defined]
    if len(cl) == 1 and self_attr(cl[0].iter) == "nodes":
        cfg = eng.cfg(cf_)
        head = cfg.nodes_of(cl[0], {"for"})[0]
        tgt = cl[0].target.id if isinstance(cl[0].target, ast.Name) else ""
        calls = [n.id for n in cfg.nodes if n.kind == "stmt" and n.ast is not None and any(isinstance(x, ast.Call) and call_name(x) == "fuzz" and isinstance(x.func, ast.Attribute)
                                                                                              and isinstance(x.func.value, ast.Name) and x.func.value.id == tgt for x in ast.walk(n.ast))]
        p = cfg.find_path(head, [head], avoid=calls, ignore=("exc-out", "raise-out", "abandon", "exhausted"))
        if calls and p is None:
            chk.ok("R01-c", cf_.fq, cl[0].lineno, "every element of self.nodes is expanded on every path through the loop body, in order")
        else:
            chk.bad("R01-c", eng.relfile(cf_), cl[0].lineno, cf_.fq, "an iteration of the concatenation loop can skip expanding its element",
                    "a symbol of the rule's right-hand side is missing from the derivation", path=cfg.describe_path(p) if p else [], keyparts="concat-skip")
        if any(isinstance(x, (ast.Break, ast.Continue)) for x in ast.walk(cl[0])) and not any(isinstance(x, ast.Break) and False for x in ast.walk(cl[0])):
            inner_breaks = [x for x in ast.walk(cl[0]) if isinstance(x, (ast.Break, ast.Continue))]
            from ..core import parents_map, enclosing

            pm = parents_map(cf_.node)
            outer = [b for b in inner_breaks if enclosing(pm, b, (ast.For, ast.While)) is cl[0]]
            for b in outer:
                chk.bad("R01-c", eng.relfile(cf_), b.lineno, cf_.fq, f"`{short(b)}` leaves the concatenation loop", "trailing symbols of the rule are not expanded", keyparts="concat-break")
    else:
        chk.bad("R01-c", eng.relfile(cf_), cf_.line, cf_.fq, "Concatenation.fuzz does not iterate self.nodes itself", "elements are skipped, reordered or repeated", keyparts="concat-iter")


def rule_d(chk: Check, eng: Engine) -> None:
    sug = eng.cls("fandango.constraints.comparison", "EqualComparisonSuggestion")
    gr = eng.method(sug, "get_replacements", inherited=False)
    parses = [c for c in walk_local(gr.node) if isinstance(c, ast.Call) and call_name(c) == "parse" and isinstance(c.func, ast.Attribute) and norm(c.func.value) == "grammar"]
    if not parses:
        raise AnalysisError("EqualComparisonSuggestion.get_replacements: grammar.parse call not found")
    for c in parses:
        st = get_kwarg(c, "start") or (c.args[1] if len(c.args) > 1 else None)
        ok = False
        if isinstance(st, ast.Name):
            defs = [n for n in walk_local(gr.node) if isinstance(n, ast.Assign) and any(isinstance(t, ast.Name) and t.id == st.id for t in n.targets)]
            ok = len(defs) == 1 and norm(defs[0].value) == "self._target.symbol"
        elif st is not None:
            ok = norm(st) == "self._target.symbol"
        if ok:
            chk.ok("R01-d", gr.fq, c.lineno, f"`{short(c)}` parses the wanted value under the target's own symbol")
        else:
            chk.bad("R01-d", eng.relfile(gr), c.lineno, gr.fq, f"`{short(c)}` does not parse under the target's symbol",
                    "the repaired subtree derives from another symbol than the node it replaces", keyparts="repair-start")
    # the shortcut that installs (a copy of) the other side's tree itself: an `if` whose body returns a pair built from self._source
    src_locals = {t.id for n in walk_local(gr.node) if isinstance(n, ast.Assign) and "self._source" in norm(n.value) and not any(isinstance(c, ast.Call) and call_name(c) == "parse" for c in ast.walk(n.value))
                  for t in n.targets if isinstance(t, ast.Name)}

    def returns_source(body: list[ast.stmt]) -> bool:
        for st in body:
            for r in ast.walk(st):
                if isinstance(r, ast.Return) and r.value is not None:
                    for tup in ast.walk(r.value):
                        if isinstance(tup, ast.Tuple) and len(tup.elts) == 2 and (norm(tup.elts[1]) == "self._source" or (isinstance(tup.elts[1], ast.Name) and tup.elts[1].id in src_locals)):
                            return True
        return False

    short_ifs = [n for n in walk_local(gr.node) if isinstance(n, ast.If) and returns_source(n.body)]
    for n in short_ifs:
        if "symbol == self._source.symbol" in norm(n.test) or "self._source.symbol == symbol" in norm(n.test):
            chk.ok("R01-d", gr.fq, n.lineno, f"same-symbol shortcut guarded by `{short(n.test, 70)}`")
        else:
            chk.bad("R01-d", eng.relfile(gr), n.lineno, gr.fq, f"the copy shortcut is guarded by `{short(n.test, 70)}` without symbol equality",
                    "a tree of another symbol is copied below the target", keyparts="shortcut-guard")
    # crossover
    cx = eng.cls("fandango.evolution.crossover", "SimpleSubtreeCrossover")
    cm = eng.method(cx, "crossover", inherited=False)
    finds = [c for c in walk_local(cm.node) if isinstance(c, ast.Call) and call_name(c) == "find_all_nodes"]
    syms = {norm(c.args[0]) for c in finds if c.args}
    if len(finds) == 2 and len(syms) == 1:
        chk.ok("R01-d", cm.fq, finds[0].lineno, f"both crossover points are found under the same symbol `{next(iter(syms))}`")
    else:
        chk.bad("R01-d", eng.relfile(cm), cm.line, cm.fq, f"crossover points are searched under {sorted(syms)}", "subtrees of different symbols are swapped", keyparts="crossover-symbols")
    mu = eng.cls("fandango.evolution.mutation", "SimpleMutation")
    mm = eng.method(mu, "mutate", inherited=False)
    fz = [c for c in walk_local(mm.node) if isinstance(c, ast.Call) and call_name(c) == "fuzz" and norm(c.func.value) == "grammar"]  # type: ignore[union-attr]
    rp = [c for c in walk_local(mm.node) if isinstance(c, ast.Call) and call_name(c) == "replace"]
    if fz and rp and fz[0].args and rp[0].args and len(rp[0].args) >= 2 and norm(fz[0].args[0]) == norm(rp[0].args[1]) + ".symbol":
        chk.ok("R01-d", mm.fq, fz[0].lineno, f"mutation re-fuzzes `{norm(fz[0].args[0])}` and replaces `{norm(rp[0].args[1])}`")
    else:
        chk.bad("R01-d", eng.relfile(mm), mm.line, mm.fq, "the symbol that is re-fuzzed is not the symbol of the replaced node", "mutation installs a subtree of another symbol", keyparts="mutation-symbol")


KIND_ATTRS = {"is_terminal", "is_non_terminal", "is_regex"}
KIND_CLASSES = {"Terminal", "NonTerminal", "Slice"}


def _kind_filters(root: ast.AST) -> list[ast.AST]:
    """Conditions (if tests, comprehension filters, loop-continue guards) that discriminate nodes by the kind of their symbol."""
    out = []
    conds: list[ast.AST] = []
    for n in walk_local(root):
        if isinstance(n, (ast.If, ast.IfExp, ast.While)):
            conds.append(n.test)
        elif isinstance(n, ast.comprehension):
            conds.extend(n.ifs)
        elif isinstance(n, ast.Call) and call_name(n) == "filter" and n.args:
            conds.append(n.args[0])
    for c in conds:
        for m in ast.walk(c):
            if isinstance(m, ast.Attribute) and m.attr in KIND_ATTRS:
                out.append(c)
                break
            if isinstance(m, ast.Call) and call_name(m) == "isinstance" and len(m.args) == 2 and any(isinstance(k, ast.Name) and k.id in KIND_CLASSES for k in ast.walk(m.args[1])) \
                    and "symbol" in norm(m.args[0]):
                out.append(c)
                break
    return out


def rule_f(chk: Check, eng: Engine) -> None:
    """R01-f: the repetition tags (`origin_repetitions`) are the only link between a computed repetition and the nodes it
    produced; the repair counts, extends and deletes rounds through them.  Every reader must therefore enumerate the same
    nodes the writers tag: a reader that skips nodes by the kind of their symbol, while no writer does, miscounts rounds."""
    TAG = "origin_repetitions"
    writers, readers = [], []
    for f in eng.ix.all_functions:
        if not f.module.startswith(("fandango.language.tree", "fandango.language.grammar", "fandango.constraints.repetition_bounds")):
            continue
        w = r = False
        # tags that are merely carried over to a copy (`origin_repetitions=list(x.origin_repetitions)`, `y.origin_repetitions = ...`) are not reads
        carried: set[int] = set()
        for n in walk_local(f.node):
            if isinstance(n, ast.keyword) and n.arg == TAG:
                carried |= {id(m) for m in ast.walk(n.value)}
            if isinstance(n, ast.Assign) and any(isinstance(t, ast.Attribute) and t.attr == TAG for t in n.targets):
                carried |= {id(m) for m in ast.walk(n.value)}
        for n in walk_local(f.node):
            if isinstance(n, ast.Attribute) and n.attr == TAG:
                if isinstance(n.ctx, ast.Store):
                    w = True
                elif id(n) not in carried:
                    r = True
            if isinstance(n, ast.Call) and isinstance(n.func, ast.Attribute) and n.func.attr in ("insert", "append", "extend") and isinstance(n.func.value, ast.Attribute) and n.func.value.attr == TAG:
                w = True
        # constructors / copies that merely carry the tags along are neither
        if w and f.name not in ("__init__", "__deepcopy__", "deepcopy"):
            writers.append(f)
        elif r and f.name not in ("__init__", "__deepcopy__", "deepcopy"):
            readers.append(f)
    tagging = [f for f in writers if any(isinstance(n, ast.Call) and isinstance(n.func, ast.Attribute) and n.func.attr in ("insert", "append") and isinstance(n.func.value, ast.Attribute)
                                         and n.func.value.attr == TAG for n in walk_local(f.node))]
    if not tagging:
        raise AnalysisError("no function tags nodes with origin_repetitions any more")
    if len(readers) < 3:
        raise AnalysisError(f"only {len(readers)} reader(s) of origin_repetitions found")
    wf = {norm(c) for f in tagging for c in _kind_filters(f.node)}
    for f in tagging:
        chk.ok("R01-f", f.fq, f.line, f"tags every child a repetition round adds; kind filters: {sorted(wf) or 'none'}")
    for f in readers:
        extra = [c for c in _kind_filters(f.node) if norm(c) not in wf]
        if extra:
            chk.bad("R01-f", eng.relfile(f), extra[0].lineno, f.fq, f"reads the repetition tags only of nodes with `{short(extra[0], 60)}`, but the writers tag nodes of every kind",
                    "rounds of a computed repetition whose body is or ends in a terminal are not found or their end is misplaced: the count is never enforced, "
                    "or new rounds are inserted inside the last round - the emitted tree is not a derivation", keyparts="reader-kind-filter|" + norm(extra[0])[:60])
        else:
            chk.ok("R01-f", f.fq, f.line, "reads the repetition tags of every node it visits (no filter by symbol kind)")


START_TAKERS = {"parse": 1, "fuzz": 0, "parse_forest": 1, "parse_multiple": 1}  # Grammar method -> positional index of `start`


def rule_g(chk: Check, eng: Engine) -> None:
    """R01-g: Grammar.parse / fuzz / parse_forest / parse_multiple default to '<start>'.  The search, the API and the repair
    work under a *requested* start symbol (or under the symbol of the node they replace): a call that relies on the default
    yields trees of another symbol whenever the two differ."""
    gcls = eng.cls("fandango.language.grammar.grammar", "Grammar")
    for mname, idx in START_TAKERS.items():
        m = eng.method(gcls, mname)
        ps = [p for p in m.params() if p != "self"]
        if len(ps) <= idx or ps[idx] != "start":
            raise AnalysisError(f"Grammar.{mname}: parameter `start` is no longer at position {idx}")
    n = 0
    for f in eng.ix.all_functions:
        if not f.module.startswith(("fandango.evolution", "fandango.api", "fandango.constraints", "fandango.io", "fandango.cli")):
            continue
        holder_attrs = set()
        if f.cls is not None:
            holder_attrs = {a for a in f.cls.instance_attr_annotations() if "start_symbol" in a} | \
                           {x.attr for mm in f.cls.methods.values() for x in ast.walk(mm.node) if isinstance(x, ast.Attribute) and isinstance(x.ctx, ast.Store) and "start_symbol" in x.attr}
        tenv = None
        for c in walk_local(f.node):
            if not (isinstance(c, ast.Call) and isinstance(c.func, ast.Attribute) and c.func.attr in START_TAKERS):
                continue
            recv = c.func.value
            rname = norm(recv)
            if tenv is None:
                tenv = eng.env(f)
            rt = tenv.type_of(recv)
            is_grammar = any(t.endswith(":Grammar") for t in rt) or (not rt and rname.split(".")[-1] in ("grammar", "_grammar"))
            if not is_grammar:
                continue
            n += 1
            idx = START_TAKERS[c.func.attr]
            arg = get_kwarg(c, "start")
            if arg is None and len(c.args) > idx and not any(isinstance(a, ast.Starred) for a in c.args[:idx + 1]):
                arg = c.args[idx]
            if arg is None:
                chk.bad("R01-g", eng.relfile(f), c.lineno, f.fq, f"`{short(c, 70)}` relies on the default start symbol '<start>'",
                        "with a requested start symbol other than <start> the tree is parsed / generated under the wrong symbol: valid inputs are rejected and "
                        "trees of another symbol are emitted", keyparts=f"default-start|{c.func.attr}")
            elif holder_attrs and not any(isinstance(x, ast.Attribute) and x.attr in holder_attrs for x in ast.walk(arg)) and not (names_in(arg) & {"start_symbol", "start", "symbol"}):
                chk.bad("R01-g", eng.relfile(f), c.lineno, f.fq, f"`{short(c, 70)}` passes `{short(arg, 30)}`, not the start symbol this object was configured with ({sorted(holder_attrs)})",
                        "the requested start symbol is ignored", keyparts=f"other-start|{c.func.attr}")
            else:
                chk.ok("R01-g", f.fq, c.lineno, f"`{short(c, 60)}` names its start symbol: `{short(arg, 40)}`")
    if n < 4:
        raise AnalysisError(f"only {n} Grammar.parse/fuzz call sites found in the search, API and repair code")


def surgery_bracket_rule(chk: Check, eng: Engine, rule: str) -> None:
    """R01-h.  The repair of a computed repetition empties the live parent node (`tree.set_children([])`), fuzzes the missing rounds into it and
    then puts the children back - a save/restore bracket around in-place surgery on a tree of the population.  The bracket is not protected by
    try/finally; that is sound only as long as an exception raised inside it ends the run.  If any caller up the chain catches the exception
    and carries on, the mutilated individual stays in the population (and may be emitted: with its rounds gone the bound constraint is vacuous)."""
    cg = eng.cg
    brackets = []
    for f in eng.ix.all_functions:
        if not f.module.startswith(("fandango.constraints", "fandango.evolution", "fandango.language.tree")):
            continue
        saves = {}
        for a in walk_local(f.node):
            if isinstance(a, ast.Assign) and isinstance(a.value, ast.Attribute) and a.value.attr in ("children", "_children") and isinstance(a.targets[0], ast.Name):
                saves[a.targets[0].id] = norm(a.value.value)
        empties = [c for c in walk_local(f.node) if isinstance(c, ast.Call) and call_name(c) == "set_children" and c.args and isinstance(c.args[0], ast.List) and not c.args[0].elts
                   and isinstance(c.func, ast.Attribute)]
        for e in empties:
            recv = norm(e.func.value)
            restores = [c for c in walk_local(f.node) if isinstance(c, ast.Call) and call_name(c) == "set_children" and c.args and isinstance(c.args[0], ast.Name)
                        and saves.get(c.args[0].id) == recv and isinstance(c.func, ast.Attribute) and norm(c.func.value) == recv and c.lineno > e.lineno]
            if restores:
                brackets.append((f, e, restores[0]))
    if not brackets:
        raise AnalysisError("no save/restore bracket around in-place tree surgery found (RepetitionBoundsSuggestion._insert_repetitions was the confirmed instance)")
    from ..core import parents_map, ancestors
    for f, e, r in brackets:
        pm = parents_map(f.node)
        in_finally = any(isinstance(a, ast.Try) and any(r is x or any(r is y for y in ast.walk(x)) for x in a.finalbody) for a in ancestors(pm, r))
        if in_finally:
            chk.ok(rule, f.fq, e.lineno, f"the bracket `{short(e, 40)}` ... `{short(r, 40)}` restores in a finally block")
            continue
        # walk up the callers: any catch-and-continue handler around a call on the chain?
        seen = {f.fq}
        frontier = [(f.fq, [f.qualname])]
        offender = None
        depth = 0
        while frontier and offender is None and depth < 6:
            depth += 1
            nxt = []
            for fq, chain in frontier:
                for caller_fq in sorted(cg.callers_of(fq)):
                    caller = cg.funcs.get(caller_fq)
                    if caller is None or not caller.module.startswith(("fandango.constraints", "fandango.evolution", "fandango.api")):
                        continue
                    cpm = parents_map(caller.node)
                    for call, targets, _how in cg.sites.get(caller_fq, []):
                        if fq not in targets:
                            continue
                        for a in ancestors(cpm, call):
                            if isinstance(a, ast.Try) and any(call is x for b in a.body for x in ast.walk(b)):
                                for h in a.handlers:
                                    catches = h.type is None or any(n_ in norm(h.type) for n_ in ("Exception", "BaseException"))
                                    # does the handler end by raising on every path?  (last statement a bare/explicit raise)
                                    always_raises = bool(h.body) and isinstance(h.body[-1], ast.Raise) and not any(isinstance(x, (ast.Return, ast.Continue, ast.Break)) for x in ast.walk(h))
                                    if catches and not always_raises:
                                        offender = (caller, h, chain + [caller.qualname])
                    if caller_fq not in seen:
                        seen.add(caller_fq)
                        nxt.append((caller_fq, chain + [caller.qualname]))
            frontier = nxt
        if offender is None:
            chk.ok(rule, f.fq, e.lineno, f"the unprotected bracket `{short(e, 40)}` ... `{short(r, 40)}`: no caller within {depth} levels ({len(seen)} functions) catches an exception and carries on")
        else:
            caller, h, chain = offender
            chk.bad(rule, eng.relfile(caller), h.lineno, caller.fq, f"`except {short(h.type, 30) if h.type is not None else ''}` in {caller.qualname} swallows exceptions raised inside the unprotected surgery bracket of "
                    f"{f.qualname} (`{short(e, 40)}` ... `{short(r, 40)}`)",
                    "an exception between emptying the live node and restoring it (a generator that raises while the missing rounds are fuzzed) leaves a mutilated individual in the "
                    "population; with its repetition rounds gone the bound constraint is vacuously satisfied and the tree can be emitted",
                    path=list(reversed(chain)), keyparts=f"bracket-swallowed|{caller.qualname}")


def run(chk: Check, eng: Engine) -> None:
    chk.rule("R01-j", "a node installed by replace_multiple inherits the parent link and the repetition tags of the node it replaces", floor=2)
    position_bookkeeping_rule(chk, eng, "R01-j")
    chk.rule("R01-i", "the subtree Grammar.generate attaches for a generator-defined symbol is the parse result of the generator's value under that symbol "
             "(a derivation by construction): a misfit raises, nothing is substituted for the parsed tree", floor=3)
    from .c16 import generate_parse_rule
    generate_parse_rule(chk, eng, "R01-i")
    chk.rule("R01-h", "in-place surgery on a live tree is bracketed exception-safely, or no caller swallows exceptions raised inside the bracket", floor=1)
    surgery_bracket_rule(chk, eng, "R01-h")
    chk.rule("R01-g", "no parse / fuzz issued by the search, the API or the repair relies on the default start symbol", floor=4)
    rule_g(chk, eng)
    chk.rule("R01-f", "readers of the repetition tags enumerate the same nodes the writers tag (no filter by symbol kind on one side only)", floor=4)
    rule_f(chk, eng)
    chk.rule("R01-a", "foreign subtrees are installed only behind path-match and same-symbol and not-read-only", floor=4)
    chk.rule("R01-b", "every grammar-deviating statement of a fuzz() method is control-dependent on a settings switch whose default is falsy", floor=10)
    chk.rule("R01-c", "repetition counts come from [min, max] (or the repair's overrides), one alternative is expanded, every concatenation element is expanded in order", floor=7)
    chk.rule("R01-d", "repair / crossover / mutation operate under one symbol", floor=4)
    chk.not_decided.append("that budget steering, generators and the parse used by repair really yield derivations (values)")
    chk.rule("R01-e", "repair and structural operators locate nodes by reference, never by structural equality (an equal sibling is another node)", floor=2)
    from .c10 import lookup_by_reference

    lookup_by_reference(chk, eng, "R01-e")
    replace_guard(chk, eng, "R01-a", {"path", "symbol", "read_only"})
    rule_b(chk, eng)
    rule_c(chk, eng)
    rule_d(chk, eng)


# ------------------------------------------------------------------ self-test variants
from ..mutants import M  # noqa: E402

_T = "src/fandango/language/tree.py"
_R = "src/fandango/language/grammar/nodes/repetition.py"
_A = "src/fandango/language/grammar/nodes/alternative.py"
_C = "src/fandango/language/grammar/nodes/concatenation.py"
_TN = "src/fandango/language/grammar/nodes/terminal.py"
_N = "src/fandango/language/grammar/nodes/node.py"
_CMP = "src/fandango/constraints/comparison.py"
_CX = "src/fandango/evolution/crossover.py"
MUTANTS = [
    M("tuple-generator-keeps-its-own-tree", "src/fandango/language/grammar/grammar.py", "            string = str(DerivationTree.from_tree(string))\n        tree = self.parse(string, symbol)\n",
      "            given = DerivationTree.from_tree(string)\n            string = str(given)\n        else:\n            given = None\n        tree = self.parse(string, symbol)\n        if tree is not None and given is not None and given.symbol == symbol:\n            tree = given\n", "R01-i"),
    M("replacement-keeps-its-own-repetition-tags", "src/fandango/language/tree.py", "            new_subtree.origin_repetitions = list(self.origin_repetitions)\n", "", "R01-j"),
    M("repair-errors-swallowed", "src/fandango/evolution/population.py", "            suggested_replacements = suggestion.get_replacements(\n                individual, self._grammar\n            )\n",
      "            try:\n                suggested_replacements = suggestion.get_replacements(\n                    individual, self._grammar\n                )\n            except Exception as e:\n                LOGGER.warning(f\"no repair: {e}\")\n                return individual, fixes_made\n", "R01-h"),
    M("guard-checks-the-replacements-flag", "src/fandango/language/tree.py", "        if (\n            current_path in path_to_replacement\n            and self.symbol == path_to_replacement[current_path].symbol\n            and not self.read_only\n        ):\n            new_subtree = path_to_replacement[current_path].deepcopy(\n", "        replacement = path_to_replacement.get(current_path)\n        if (\n            replacement is not None\n            and replacement.symbol == self.symbol\n            and not replacement.read_only\n        ):\n            new_subtree = replacement.deepcopy(\n", "R01-a"),
    M("initial-population-default-start", "src/fandango/evolution/algorithm.py", "                tree = self.grammar.parse(individual, start=self.start_symbol)\n", "                tree = self.grammar.parse(individual)\n", "R01-g"),
    M("api-parse-default-start", "src/fandango/api.py", "            word, mode=mode, start=self._start_symbol, **settings\n", "            word, mode=mode, **settings\n", "R01-g"),
    M("population-fuzz-fixed-start", "src/fandango/evolution/population.py", "        return self._grammar.fuzz(self._start_symbol, max_nodes)\n", "        return self._grammar.fuzz(\"<start>\", max_nodes)\n", "R01-g"),
    M("tag-reader-skips-terminals", _T, "                child.find_by_origin(node_id)\n                for child in [*self._children, *self._sources]\n",
      "                child.find_by_origin(node_id)\n                for child in [*self._children, *self._sources]\n                if child.symbol.is_non_terminal\n", "R01-f"),
    M("delete-rounds-skips-terminals", "src/fandango/constraints/repetition_bounds.py", "            if len(matching_o_nodes) == 0:\n", "            if len(matching_o_nodes) == 0 or child.symbol.is_terminal:\n", "R01-f"),
    M("insert-position-by-value", "src/fandango/constraints/repetition_bounds.py", "        index = index_by_reference(tree, self._ending_rep_tree)\n", "        index = tree.children.index(self._ending_rep_tree)\n", "R01-e"),
    M("guard-drops-symbol", _T, "            current_path in path_to_replacement\n            and self.symbol == path_to_replacement[current_path].symbol\n            and not self.read_only\n",
      "            current_path in path_to_replacement\n            and not self.read_only\n", "R01-a"),
    M("guard-or", _T, "            current_path in path_to_replacement\n            and self.symbol == path_to_replacement[current_path].symbol\n            and not self.read_only\n",
      "            current_path in path_to_replacement\n            and (self.symbol == path_to_replacement[current_path].symbol\n            or not self.read_only)\n", "R01-a"),
    M("plus-nop-unguarded", _R, "        if random.random() < self.settings.get(\"plus_should_return_nothing\"):\n            return  # nop, don't add a node", "        if max_nodes <= 0:\n            return  # nop, don't add a node", "R01-b"),
    M("terminal-repeat-default-on", _N, "    \"terminal_should_repeat\": 0.0,", "    \"terminal_should_repeat\": 0.05,", "R01-b"),
    M("option-multiple-unguarded", _R, "        if should_return_multiple:\n            repetition = Repetition(", "        if should_return_multiple or max_nodes > 500:\n            repetition = Repetition(", "R01-b"),
    M("rep-count-from-cap", _R, "        rep_goal = random.randint(self.min, self.max)\n", "        rep_goal = random.randint(self.min, max(self.max, nodes.MAX_REPETITIONS))\n", "R01-c"),
    M("plus-dictates-one-iteration-positionally", _R, "            return  # nop, don't add a node\n        else:\n            return super().fuzz(\n                parent,\n                grammar,\n                max_nodes,\n                in_message,\n                override_current_iteration,\n                override_starting_repetition,\n                override_iterations_to_perform,\n            )\n", "            return  # nop, don't add a node\n        else:\n            return super().fuzz(\n                parent,\n                grammar,\n                max_nodes,\n                in_message,\n                override_current_iteration,\n                override_starting_repetition,\n                override_iterations_to_perform or 1,\n            )\n", "R01-c"),
    M("rep-break-below-min", _R, "                if rep >= self.min and override_iterations_to_perform is None:\n                    break", "                if override_iterations_to_perform is None:\n                    break", "R01-c"),
    M("alternative-expands-two", _A, "        random.choice(in_range_nodes).fuzz(parent, grammar, max_nodes, in_message)\n", "        random.choice(in_range_nodes).fuzz(parent, grammar, max_nodes, in_message)\n        if max_nodes > 1000:\n            random.choice(in_range_nodes).fuzz(parent, grammar, max_nodes, in_message)\n", "R01-c"),
    M("concatenation-skips-on-budget", _C, "            if node.distance_to_completion >= max_nodes:\n                node.fuzz(parent, grammar, 0, in_message)", "            if node.distance_to_completion >= max_nodes:\n                if max_nodes < -50:\n                    continue\n                node.fuzz(parent, grammar, 0, in_message)", "R01-c"),
    M("repair-parses-under-start", _CMP, "        elif suggested_tree := grammar.parse(self._source, start=symbol):", "        elif suggested_tree := grammar.parse(self._source, start=individual.symbol):", "R01-d"),
    M("crossover-different-symbols", _CX, "        nodes2 = parent2.find_all_nodes(symbol)\n", "        nodes2 = parent2.find_all_nodes(random.choice(list(common_symbols)))\n", "R01-d"),
]
TWINS = [
    M("twin-initial-population-start-positional", "src/fandango/evolution/algorithm.py", "                tree = self.grammar.parse(individual, start=self.start_symbol)\n", "                tree = self.grammar.parse(individual, self.start_symbol)\n", None),
    M("twin-tag-reader-renamed-loop-var", _T, "                child.find_by_origin(node_id)\n                for child in [*self._children, *self._sources]\n", "                kid.find_by_origin(node_id)\n                for kid in [*self._children, *self._sources]\n", None),
    M("twin-guard-with-hoisted-lookup", "src/fandango/language/tree.py", "        if (\n            current_path in path_to_replacement\n            and self.symbol == path_to_replacement[current_path].symbol\n            and not self.read_only\n        ):\n            new_subtree = path_to_replacement[current_path].deepcopy(\n", "        replacement = path_to_replacement.get(current_path)\n        if (\n            replacement is not None\n            and replacement.symbol == self.symbol\n            and not self.read_only\n        ):\n            new_subtree = replacement.deepcopy(\n", None),
    M("twin-guard-reordered", _T, "            current_path in path_to_replacement\n            and self.symbol == path_to_replacement[current_path].symbol\n            and not self.read_only\n",
      "            current_path in path_to_replacement\n            and not self.read_only\n            and self.symbol == path_to_replacement[current_path].symbol\n", None),
    M("twin-plus-forwards-overrides-by-keyword", _R, "            return  # nop, don't add a node\n        else:\n            return super().fuzz(\n                parent,\n                grammar,\n                max_nodes,\n                in_message,\n                override_current_iteration,\n                override_starting_repetition,\n                override_iterations_to_perform,\n            )\n", "            return  # nop, don't add a node\n        return super().fuzz(\n            parent,\n            grammar,\n            max_nodes=max_nodes,\n            in_message=in_message,\n            override_current_iteration=override_current_iteration,\n            override_starting_repetition=override_starting_repetition,\n            override_iterations_to_perform=override_iterations_to_perform,\n        )\n", None),
    M("twin-rep-goal-comment", _R, "        rep_goal = random.randint(self.min, self.max)\n", "        # draw the number of repetitions\n        rep_goal = random.randint(self.min, self.max)\n", None),
]
