"""C10 - tree bookkeeping stays consistent; edits never alias.

R10-a  read-only accessors are pure: the effect summary (effects.py) of every accessor of the
       DerivationTree family, of every selector search (find/find_direct/quantify/find_all) and of
       every Container method contains no write to a structure field of a borrowed tree.
R10-b  operators do not write their inputs: the same for mutation, crossover, fix_individual,
       every Suggestion.get_replacements, replace/replace_multiple and the copying forms of
       split_end/prefix; call sites passing copy_tree=False are enumerated.
R10-c  invalidation completeness: every write of a field that __hash__ reads is followed on all
       normal paths by invalidate_hash(); invalidate_hash clears the memo, recomputes the size
       and propagates to the parent; identity = exactly symbol, sender, recipient, children;
       nobody outside the tree modules writes those fields; outside writers of _parent are frozen.
R10-d  copy completeness: __deepcopy__ re-creates every constructor attribute; list-valued ones
       through a copying expression; constructor calls that hand another tree's list on by
       reference are enumerated.
"""

from __future__ import annotations

import ast
from typing import Optional

from ..core import AnalysisError, ClassInfo, FuncInfo, call_name, get_kwarg, norm, self_attr, short, walk_local
from ..effects import STRUCT_FIELDS, EffectAnalysis, base_of, split_region
from ..engine import Engine
from ..report import Check

TREE_MOD = "fandango.language.tree"
PTREE_MOD = "fandango.language.grammar.parser.parser_tree"

ACCESSOR_PREFIXES = ("find_", "get_", "to_", "contains_", "is_", "_get_", "_contains_")
ACCESSOR_NAMES = {
    "__getitem__", "__iter__", "__len__", "__str__", "__bytes__", "__int__", "__eq__", "__ne__", "__hash__", "__repr__", "__tree__",
    "children_values", "descendants", "descendant_values", "flatten", "value", "size", "count_terminals", "protocol_msgs",
    "should_be_serialized_to_bytes", "parseable_from", "children", "parent", "symbol", "sender", "recipient", "sources",
    "nonterminal", "terminal",
}

# effects that are accepted, each with the reason confirmed by reading; keyed by
# (function qualname, field, first hop of the witness chain)
ACCEPTED = {
    # (function performing the call, field, marker that must occur in that hop of the witness chain)
    ("RepetitionBoundsSuggestion._insert_repetitions", "_parent", "copy_parent.set_children("):
        "the children re-parented by copy_parent.set_children(...) are the nodes Repetition.fuzz created inside the save/restore bracket "
        "(tree.set_children([]) ... tree.set_children(old)); they are new objects that were only temporarily attached to the borrowed node",
}


def adopted_nodes_are_fresh(eng: Engine) -> Optional[str]:
    """The table entry above is about *which* nodes `copy_parent.set_children(...)` adopts: only nodes taken from the borrowed node while the
    bracket is open (what Repetition.fuzz has just created) and nodes of the copy itself.  Returns the offending operand if the argument also
    contains nodes that were the borrowed node's children before the bracket was opened (they would be re-parented to the copy)."""
    cls = eng.cls("fandango.constraints.repetition_bounds", "RepetitionBoundsSuggestion")
    fn = cls.methods.get("_insert_repetitions")
    if fn is None:
        return "function not found"
    calls = [c for c in walk_local(fn.node) if isinstance(c, ast.Call) and isinstance(c.func, ast.Attribute) and c.func.attr == "set_children" and isinstance(c.func.value, ast.Name)]
    borrowed = None
    open_line = close_line = None
    for c in calls:
        if c.args and isinstance(c.args[0], ast.List) and not c.args[0].elts:
            borrowed, open_line = c.func.value.id, c.lineno  # type: ignore[union-attr]
    if borrowed is None:
        return "bracket not found"
    for c in calls:
        if c.func.value.id == borrowed and c.lineno > open_line and c.args and isinstance(c.args[0], ast.Name):  # type: ignore[union-attr]
            close_line = c.lineno
    if close_line is None:
        return "bracket is not closed"
    for c in calls:
        recv = c.func.value.id  # type: ignore[union-attr]
        if recv == borrowed or not c.args:
            continue
        for n in ast.walk(c.args[0]):
            if isinstance(n, ast.Attribute) and isinstance(n.value, ast.Name) and n.value.id == recv:
                continue
            if isinstance(n, ast.Name) and isinstance(n.ctx, ast.Load) and n.id != recv:
                defs = [a for a in walk_local(fn.node) if isinstance(a, ast.Assign) and any(isinstance(t, ast.Name) and t.id == n.id for t in a.targets)]
                if not defs:
                    continue  # a parameter / index: not a node list
                for a in defs:
                    from_borrowed = isinstance(a.value, ast.Attribute) and isinstance(a.value.value, ast.Name) and a.value.value.id == borrowed and a.value.attr in ("children", "_children")
                    if from_borrowed and not (open_line < a.lineno < close_line):
                        return f"`{n.id}` (line {a.lineno}: the children `{borrowed}` had before the bracket was opened)"
    return None


def tree_typed_roots(eng: Engine, fn: FuncInfo, tree_family: set[str]) -> set[str]:
    """'self' if the receiver is a tree / holds trees, plus p:<param> for tree-typed parameters
    (including lists / tuples of trees)."""
    from ..core import ann_class_names, ann_elem_class_names

    roots = set()
    if fn.cls is not None:
        roots.add("self")
    a = fn.node.args  # type: ignore[attr-defined]
    names = {c.split(":")[1] for c in tree_family}
    for arg in a.posonlyargs + a.args + a.kwonlyargs:
        if arg.arg in ("self", "cls"):
            continue
        ann = arg.annotation
        if ann is None:
            continue
        txt = norm(ann)
        if any(nm in txt for nm in names):
            roots.add(f"p:{arg.arg}")
    return roots


# value-based lookups that are accepted, with the reason
BY_VALUE_OK = {
    ("fandango.language.tree:DerivationTree.get_choices_path", "parent.sources.index(current)"):
        "documented fallback after the lookup by reference failed (a source that was copied)",
    ("fandango.language.tree:DerivationTree.get_index", "flat.index(target)"):
        "public query whose contract is 'first structurally equal node of the flattened tree'",
}


def lookup_by_reference(chk: Check, eng: Engine, rule: str) -> None:
    """Tree equality is structural (hash equality), so `list.index(x)`, `list.remove(x)` and `x in list` on
    a children/sources list find the first *equal* node, not the node itself.  Positions of nodes
    must be looked up with index_by_reference."""
    n_ref = 0
    for f in eng.ix.all_functions:
        if not f.module.startswith(("fandango.language.tree", "fandango.constraints", "fandango.evolution", "fandango.language.grammar.grammar", "fandango.language.search")):
            continue
        tenv = None
        kid_locals = set()
        for n in walk_local(f.node):
            if isinstance(n, ast.Assign) and len(n.targets) == 1 and isinstance(n.targets[0], ast.Name) and isinstance(n.value, ast.Attribute) \
                    and n.value.attr in ("children", "_children", "sources", "_sources"):
                kid_locals.add(n.targets[0].id)
        for n in walk_local(f.node):
            if isinstance(n, ast.Call) and call_name(n) == "index_by_reference":
                n_ref += 1
            recv = arg = None
            how = ""
            if isinstance(n, ast.Call) and isinstance(n.func, ast.Attribute) and n.func.attr in ("index", "remove", "count") and len(n.args) >= 1:
                recv, arg, how = n.func.value, n.args[0], n.func.attr
            elif isinstance(n, ast.Compare) and len(n.ops) == 1 and isinstance(n.ops[0], (ast.In, ast.NotIn)):
                recv, arg, how = n.comparators[0], n.left, "in"
            if recv is None:
                continue
            is_kids = (isinstance(recv, ast.Attribute) and recv.attr in ("children", "_children")) or (isinstance(recv, ast.Name) and recv.id in kid_locals)
            is_flat = isinstance(recv, ast.Name) and recv.id in ("flat",)
            is_src = isinstance(recv, ast.Attribute) and recv.attr in ("sources", "_sources")
            if not (is_kids or is_src or is_flat):
                continue
            if tenv is None:
                tenv = eng.env(f)
            aty = tenv.type_of(arg)
            if aty and not any(t.endswith(":DerivationTree") or t.endswith("Tree") for t in aty):
                continue
            if not aty and not (isinstance(arg, ast.Name) or isinstance(arg, ast.Attribute)):
                continue
            key = (f.fq, short(n if how != "in" else n, 60))
            if how == "in":
                # membership is a yes/no question: structural equality can only confuse equal siblings, which cannot change the answer for a
                # node that is a member (the uses walk from a node to its own parent); positions are what must be found by reference
                chk.ok(rule, f.fq, n.lineno, f"`{short(n, 60)}`: membership test (yes/no, position-free)", nontrivial=False)
                continue
            if key in BY_VALUE_OK:
                chk.ok(rule, f.fq, n.lineno, f"`{short(n, 60)}` by value accepted: {BY_VALUE_OK[key]}", nontrivial=False)
                continue
            chk.bad(rule, eng.relfile(f), n.lineno, f.fq, f"`{short(n, 70)}` looks a node up by structural equality ({how})",
                    "two equal subtrees under one parent are indistinguishable for ==: the first equal sibling is found instead of the node itself, so an "
                    "insertion / deletion / path is computed for the wrong position (the repaired tree is no longer a derivation; edits hit another node)",
                    keyparts=f"by-value|{how}|{short(recv, 30)}")
    if n_ref < 4:
        raise AnalysisError(f"only {n_ref} index_by_reference call sites found")
    chk.ok(rule, "fandango.*", 0, f"{n_ref} position lookups use index_by_reference")


def symbol_hash_rule(chk: Check, eng: Engine, rule: str) -> None:
    """R10-f.  Tree identity is the structural hash, and that hash is built from hash(node.symbol).  Symbol.__eq__ distinguishes the symbol
    classes (`type(self) is type(other)`), so the hash of every concrete symbol class has to carry a kind discriminator too (its SymbolType or
    its class): otherwise the terminal '<x>' and a childless nonterminal <x> hash alike and the two *trees* compare equal."""
    sym = eng.cls("fandango.language.symbols.symbol", "Symbol")
    eq = sym.lookup("__eq__")
    if eq is None:
        raise AnalysisError("Symbol.__eq__ not found")
    eq_src = norm(eq.node)
    eq_by_kind = "type(self)" in eq_src or "__class__" in eq_src or "isinstance" in eq_src or "_type" in eq_src
    if not eq_by_kind:
        chk.ok(rule, eq.fq, eq.line, "Symbol.__eq__ does not distinguish symbol kinds (then the hash need not either)", nontrivial=False)
        return
    n = 0
    for k in sym.all_subclasses():
        if any("ABC" in b or "abc." in b for b in k.base_exprs) and not k.methods:
            continue
        h = k.lookup("__hash__")
        if h is None:
            continue
        abstract = any("abstractmethod" in d for d in h.decorators())
        if abstract:
            chk.bad(rule, eng.relfile(h), h.line, k.fq, f"{k.name} inherits an abstract __hash__", "instances cannot be hashed", keyparts=f"symbol-hash-abstract|{k.name}")
            continue
        n += 1
        src = norm(h.node)
        if "_type" in src or "type(self)" in src or "__class__" in src:
            chk.ok(rule, h.fq, h.line, f"{k.name}.__hash__ carries the symbol kind (`{short(h.node.body[-1], 60)}`)")  # type: ignore[attr-defined]
        else:
            chk.bad(rule, eng.relfile(h), h.line, h.fq, f"{k.name}.__hash__ (`{short(h.node.body[-1], 60)}`) does not include the symbol kind although Symbol.__eq__ compares the class",  # type: ignore[attr-defined]
                    "DerivationTree equality is equality of structural hashes built from hash(symbol): a terminal leaf '<x>' and an empty nonterminal <x> at the same position make two "
                    "different trees compare equal (one is dropped as a duplicate of the other; caches answer for the wrong tree)", keyparts=f"symbol-hash-kind|{k.name}")
    if n < 2:
        raise AnalysisError(f"only {n} concrete symbol classes with a __hash__ found")


def run(chk: Check, eng: Engine) -> None:
    chk.rule("R10-f", "the hash of every symbol class carries the symbol kind that Symbol.__eq__ compares (tree identity is the structural hash over hash(symbol))", floor=2)
    symbol_hash_rule(chk, eng, "R10-f")
    chk.rule("R10-g", "no accessor of a derivation tree (or what it calls) is memoised by a decorator whose key leaves out something it reads "
             "(tree identity is the structural hash; parents, sources and tags are not part of it)", floor=1)
    from .common_memo import decorated_memo_rule
    decorated_memo_rule(chk, eng, "R10-g", [f.fq for f in eng.ix.all_functions if f.cls is not None and f.cls.name in ("DerivationTree", "TreeValue")], "tree bookkeeping")
    chk.rule("R10-e", "positions of nodes in children/sources lists are looked up by reference, never by structural equality (index/remove/in)", floor=2)
    lookup_by_reference(chk, eng, "R10-e")
    chk.rule("R10-a", "read-only accessors (tree accessors, selector searches, containers) have no structure-write effect on borrowed trees", floor=60)
    chk.rule("R10-b", "operators (mutation, crossover, repair, replace, copying split/prefix) have no structure-write effect on their input trees", floor=8)
    chk.rule("R10-c", "every write of a hashed field is followed by invalidate_hash(); identity fields are exactly symbol/sender/recipient/children; "
             "no outside writer of hashed fields; outside _parent writers frozen", floor=10)
    chk.rule("R10-d", "__deepcopy__ re-creates every constructor attribute, lists by copying; list arguments aliasing another tree's list are enumerated", floor=6)
    chk.not_decided.append("equivalence with a from-scratch model over all operation sequences; values flowing through generators' yields are not tracked by the effect analysis")

    ea = EffectAnalysis(eng)
    T = ea.tree_cls
    fam = ea.tree_family

    pending: list[dict] = []
    stale_operand = adopted_nodes_are_fresh(eng)

    def report(rule: str, fn: FuncInfo, selfcls: Optional[ClassInfo], roots: set[str], consts: Optional[dict] = None, label: str = "") -> None:
        s = ea.summary(fn, selfcls, consts)
        bad = []
        for (region, fld) in sorted(s.effects):
            if fld not in STRUCT_FIELDS:
                continue
            if base_of(region) not in roots:
                continue
            bad.append((region, fld))
        name = fn.qualname + (f"[{selfcls.name}]" if selfcls is not None and fn.cls is not None and selfcls.fq != fn.cls.fq else "") + label
        if not bad:
            chk.ok(rule, fn.fq, fn.line, f"{name}: no structure write on {sorted(roots)}")
            return
        for region, fld, w in [(r_, f_, w_) for (r_, f_) in bad for w_ in (s.witnesses.get((r_, f_)) or [s.witness.get((r_, f_), "")])]:
            hops = [h.strip() for h in w.split("->")]
            accepted = None
            for (hop_fn, afld, marker), why in ACCEPTED.items():
                if afld == fld and any(h.startswith(hop_fn + ":") and marker in h for h in hops):
                    if any("is restored at" in b and "_insert_repetitions" in b for b in ea.dropped_brackets) and stale_operand is None:
                        accepted = why
            if accepted:
                chk.ok(rule, fn.fq, fn.line, f"{name}: write of {fld} on {region} accepted - {accepted}", nontrivial=False)
                continue
            # the function in which the offending write is performed on a borrowed object: the last hop whose
            # own summary still attributes the write to a borrowed region is the origin; everything above is a consequence
            origin = hops[-1].split(":")[0] if hops else fn.qualname
            pending.append({"rule": rule, "fn": fn, "name": name, "region": region, "fld": fld, "hops": hops, "origin": origin})

    def flush() -> None:
        # group by (origin write, field): report once at the innermost checked function, list the others as affected
        groups: dict[tuple, list[dict]] = {}
        for p in pending:
            groups.setdefault((p["hops"][-1] if p["hops"] else "", p["fld"]), []).append(p)
        for (last, fld), items in sorted(groups.items(), key=lambda kv: kv[0]):
            items.sort(key=lambda p: (len(p["hops"]), p["fn"].fq))
            head = items[0]
            fn = head["fn"]
            affected = sorted({i["name"] for i in items[1:]})
            chk.bad(head["rule"], eng.relfile(fn), fn.line, fn.fq,
                    f"{head['name']} may write `{fld}` of a borrowed tree ({head['region']})" + (f"; {len(affected)} more accessor(s)/operator(s) inherit this effect" if affected else ""),
                    "an accessor / operator that re-parents, re-labels or re-shapes nodes of a tree it was only given to read changes that tree for "
                    "everybody else holding it (population members, emitted solutions): parent links, hashes and later search results change",
                    path=head["hops"] + ([f"also affected: {', '.join(affected[:30])}"] if affected else []),
                    keyparts=f"effect|{fld}|{last.split(':')[0]}|{last.split(': ', 1)[1][:60] if ': ' in last else ''}")

    # ---- R10-a ------------------------------------------------------------
    n_acc = 0
    for c in T.family():
        if c.module == PTREE_MOD:
            continue
        for name, m in sorted(c.methods.items()):
            if name.endswith(".setter") or name.endswith(".deleter"):
                continue
            if name in ACCESSOR_NAMES or name.startswith(ACCESSOR_PREFIXES):
                if name in ("get_choices_path",):
                    pass
                report("R10-a", m, c, {"self"} | {r for r in tree_typed_roots(eng, m, fam)})
                n_acc += 1
    search_mod = "fandango.language.search"
    for base_name in ("NonTerminalSearch", "Container"):
        base = eng.cls(search_mod, base_name)
        for c in base.family():
            for name, m in sorted(c.methods.items()):
                if name in ("__init__", "format_as_spec", "get_access_points", "__repr__", "__str__", "annotation", "inner"):
                    continue
                roots = tree_typed_roots(eng, m, fam)
                roots.add("self")  # containers hold trees
                report("R10-a", m, c, roots)
                n_acc += 1
    # the forwarding methods installed by forward_to_tree_value_methods go through value(): covered by value()

    # ---- R10-b ------------------------------------------------------------
    ops: list[tuple[FuncInfo, Optional[ClassInfo], set[str], Optional[dict], str]] = []
    mut_base = eng.cls("fandango.evolution.mutation", "MutationOperator")
    for c in mut_base.all_subclasses():
        if "mutate" in c.methods:
            ops.append((c.methods["mutate"], c, {"p:individual"}, None, ""))
    cx_base = eng.cls("fandango.evolution.crossover", "CrossoverOperator")
    for c in cx_base.all_subclasses():
        if "crossover" in c.methods:
            ops.append((c.methods["crossover"], c, {"p:parent1", "p:parent2"}, None, ""))
    pm = eng.cls("fandango.evolution.population", "PopulationManager")
    ops.append((eng.method(pm, "fix_individual"), pm, {"p:individual", "p:suggestion"}, None, ""))
    sug = eng.cls("fandango.constraints.failing_tree", "Suggestion")
    for c in sug.family():
        if "get_replacements" in c.methods:
            ops.append((c.methods["get_replacements"], c, {"self", "p:individual"}, None, ""))
    for name in ("replace", "replace_multiple"):
        ops.append((eng.method(T, name), T, {"self", "p:replacements", "p:tree_to_replace", "p:new_subtree"}, None, ""))
    for name in ("split_end", "prefix"):
        ops.append((eng.method(T, name), T, {"self"}, {"copy_tree": True}, " (copy_tree=True)"))
    ops.append((eng.method(T, "__deepcopy__"), T, {"self"}, None, ""))
    ops.append((eng.method(T, "deepcopy"), T, {"self"}, None, ""))
    for fn, sc, roots, consts, label in ops:
        report("R10-b", fn, sc, roots, consts, label)
    # call sites that switch the copy off
    n_nocopy = 0
    for f in eng.ix.all_functions:
        for c in walk_local(f.node):
            if isinstance(c, ast.Call) and call_name(c) in ("split_end", "prefix") and f.qualname not in ("DerivationTree.prefix",):
                arg = get_kwarg(c, "copy_tree") or (c.args[0] if c.args else None)
                if arg is not None and not (isinstance(arg, ast.Constant) and arg.value is True):
                    n_nocopy += 1
                    if isinstance(arg, ast.Constant) and arg.value is False:
                        chk.bad("R10-b", eng.relfile(f), c.lineno, f.fq, f"`{short(c)}` switches the protective copy off",
                                "the caller's tree is truncated in place", keyparts="copy-off|" + short(c, 40))
                    else:
                        chk.bad("R10-b", eng.relfile(f), c.lineno, f.fq, f"`{short(c)}` passes a non-constant copy_tree",
                                "whether the caller's tree is truncated in place depends on a runtime flag", keyparts="copy-dyn|" + short(c, 40))
    chk.ok("R10-b", "fandango.*", 0, f"split_end()/prefix() call sites that disable the copy: {n_nocopy}")

    # ---- R10-c ------------------------------------------------------------
    h = eng.method(T, "__hash__", inherited=False)
    from .c06 import fields_read

    memo = {"hash_cache"}
    H = fields_read(T, h) - memo
    want = {"_symbol", "_sender", "_recipient", "_children"}
    if H == want:
        chk.ok("R10-c", h.fq, h.line, f"identity fields = {sorted(H)}")
    else:
        for x in sorted(want - H):
            chk.bad("R10-c", eng.relfile(h), h.line, h.fq, f"__hash__ does not read `{x}`",
                    "trees that differ in that component compare equal (equality is hash equality): de-duplication and memo tables conflate them",
                    keyparts=f"hash-misses|{x}")
        for x in sorted(H - want):
            chk.bad("R10-c", eng.relfile(h), h.line, h.fq, f"__hash__ additionally reads `{x}`",
                    "trees with the same symbols, parties and shape are no longer equal", keyparts=f"hash-extra|{x}")
    # children contribute through their own hash (recursively), not through identity
    src = norm(h.node)
    if "hash(child)" in src or "hash(c)" in src or "tuple(self._children)" in src or "tuple(self.children)" in src:
        chk.ok("R10-c", h.fq, h.line, "children enter the hash through their own structural hash, in order")
    else:
        chk.bad("R10-c", eng.relfile(h), h.line, h.fq, "children do not enter the hash through hash(child) in order",
                "shape is not part of the identity", keyparts="hash-children-shape")
    eqm = eng.method(T, "__eq__", inherited=False)
    eqsrc = norm(eqm.node)
    if "hash(self) == hash(other)" in eqsrc:
        chk.ok("R10-c", eqm.fq, eqm.line, "tree equality is hash equality (so identity fields of __hash__ are the identity)")
    else:
        raise AnalysisError("DerivationTree.__eq__ no longer compares hashes: identity argument must be re-derived")

    inv = eng.method(T, "invalidate_hash", inherited=False)
    invcfg = eng.cfg(inv)
    clears = [n for n in invcfg.nodes if n.kind == "stmt" and isinstance(n.ast, ast.Assign) and any(self_attr(t) == "hash_cache" for t in n.ast.targets)
              and isinstance(n.ast.value, ast.Constant) and n.ast.value.value is None]
    if clears and invcfg.find_path(invcfg.entry, [invcfg.exit], avoid=[c.id for c in clears]) is None:
        chk.ok("R10-c", inv.fq, inv.line, "hash_cache = None on every path")
    else:
        chk.bad("R10-c", eng.relfile(inv), inv.line, inv.fq, "a path through invalidate_hash keeps the memoised hash",
                "a node keeps a stale hash after an edit: equality and set membership answer for the old structure", keyparts="no-clear")
    sizes = [n for n in invcfg.nodes if n.kind == "stmt" and isinstance(n.ast, ast.Assign) and any(self_attr(t) == "_size" for t in n.ast.targets)]
    size_ok = False
    for n in sizes:
        v = norm(n.ast.value)  # type: ignore[union-attr]
        if "size()" in v and "_children" in v and v.lstrip().startswith("1 +"):
            size_ok = True
    if size_ok:
        # skipped only under update_size false
        ige = {(g.id, "true") for g in invcfg.nodes if g.kind == "if" and isinstance(g.ast.test, ast.Name) and g.ast.test.id == "update_size"}  # type: ignore[union-attr]
        p = invcfg.find_path(invcfg.entry, [s.id for s in sizes], ignore_edges=ige)
        dflt = [d for a, d in zip(inv.node.args.args[-len(inv.node.args.defaults):], inv.node.args.defaults) if a.arg == "update_size"]  # type: ignore[attr-defined]
        if p is None and dflt and isinstance(dflt[0], ast.Constant) and dflt[0].value is True:
            chk.ok("R10-c", inv.fq, inv.line, "_size = 1 + sum(child.size()) unless update_size=False (default True)")
        elif not ige:
            chk.ok("R10-c", inv.fq, inv.line, "_size = 1 + sum(child.size()) unconditionally")
        else:
            chk.bad("R10-c", eng.relfile(inv), inv.line, inv.fq, "size recomputation is not the default", "reported sizes go stale", keyparts="size-default")
    else:
        chk.bad("R10-c", eng.relfile(inv), inv.line, inv.fq, "invalidate_hash does not recompute _size as 1 + sum of the children's sizes",
                "size() reports a stale node count after edits (node budgets, adaptive limits)", keyparts="size-formula")
    props = [n for n in invcfg.nodes if n.kind == "stmt" and n.ast is not None and any(
        isinstance(c, ast.Call) and call_name(c) == "invalidate_hash" and isinstance(c.func, ast.Attribute) and self_attr(c.func.value) in ("_parent", "parent")
        for c in ast.walk(n.ast))]
    if props:
        ige = set()
        for g in invcfg.nodes:
            if g.kind == "if" and "_parent" in norm(g.ast.test) and "None" in norm(g.ast.test):  # type: ignore[union-attr]
                ige.add((g.id, "true"))
        p = invcfg.find_path(invcfg.entry, [invcfg.exit], avoid=[x.id for x in props], ignore_edges={(g, "false") for g, _ in ige} if False else set())
        # every path either propagates or took the "no parent" branch
        ok = True
        for g in invcfg.nodes:
            if g.kind == "if" and "_parent" in norm(g.ast.test):  # type: ignore[union-attr]
                tb = invcfg.true_branch_nodes(g.id)
                if not any(x.id in tb for x in props):
                    ok = False
        call = [c for c in ast.walk(props[0].ast) if isinstance(c, ast.Call) and call_name(c) == "invalidate_hash"][0]  # type: ignore[arg-type]
        args_ok = not call.args and all(not (k.arg == "update_size" and isinstance(k.value, ast.Constant) and k.value.value is False) for k in call.keywords)
        if ok and args_ok:
            chk.ok("R10-c", inv.fq, props[0].line, "propagates to the parent (with size update) whenever there is one")
        else:
            chk.bad("R10-c", eng.relfile(inv), props[0].line, inv.fq, "parent propagation is conditional on more than `parent is not None` or skips the size",
                    "ancestors keep stale hashes / sizes", keyparts="propagation-weak")
    else:
        chk.bad("R10-c", eng.relfile(inv), inv.line, inv.fq, "invalidate_hash does not propagate to the parent",
                "ancestors keep their memoised hash and size after a descendant was edited", keyparts="no-propagation")

    # writers of hashed fields inside the tree modules
    tree_modules = {TREE_MOD, PTREE_MOD}
    hashed_props = {"symbol": "_symbol", "sender": "_sender", "recipient": "_recipient"}
    for c in T.family():
        for name, m in sorted(c.methods.items()):
            cfg = eng.cfg(m)
            for n in cfg.nodes:
                if n.kind != "stmt" or n.ast is None:
                    continue
                a = n.ast
                wrote = None
                if isinstance(a, (ast.Assign, ast.AnnAssign, ast.AugAssign)):
                    ts = a.targets if isinstance(a, ast.Assign) else [a.target]
                    for t in ts:
                        b = t.value if isinstance(t, ast.Subscript) else t
                        if self_attr(b) in H:
                            wrote = self_attr(b)
                elif isinstance(a, ast.Expr) and isinstance(a.value, ast.Call) and isinstance(a.value.func, ast.Attribute) \
                        and a.value.func.attr in ("append", "extend", "insert", "remove", "pop", "clear", "sort", "reverse") and self_attr(a.value.func.value) in H:
                    wrote = self_attr(a.value.func.value)
                elif isinstance(a, ast.Delete):
                    for t in a.targets:
                        if isinstance(t, ast.Subscript) and self_attr(t.value) in H:
                            wrote = self_attr(t.value)
                if wrote is None:
                    continue
                invs = [x.id for x in cfg.nodes if x.kind == "stmt" and x.ast is not None and any(
                    isinstance(cc, ast.Call) and call_name(cc) in ("invalidate_hash", "set_children") and self_attr(cc.func) is not None for cc in ast.walk(x.ast))]
                p = cfg.find_path(n.id, [cfg.exit], avoid=invs)
                if p is None:
                    chk.ok("R10-c", m.fq, n.line, f"`{n.text()}` (writes {wrote}) is followed by invalidate_hash() on every normal path")
                else:
                    chk.bad("R10-c", eng.relfile(m), n.line, m.fq, f"`{n.text()}` writes hashed field {wrote} without invalidating the memoised hash",
                            "the node (and its ancestors) keep the hash/size of the old structure: equality, set membership and size() are stale",
                            path=cfg.describe_path(p), keyparts=f"no-invalidate|{wrote}|{short(a, 50)}")
    # memo fields: only the constructor, invalidate_hash and __hash__ may write them (anything else can make them stale)
    MEMO_WRITERS = {"__init__", "invalidate_hash", "__hash__"}
    n_memo = 0
    for f in eng.ix.all_functions:
        for n in walk_local(f.node):
            if isinstance(n, (ast.Assign, ast.AugAssign, ast.AnnAssign)):
                for t in (n.targets if isinstance(n, ast.Assign) else [n.target]):
                    if isinstance(t, ast.Attribute) and t.attr in ("hash_cache", "_size"):
                        if isinstance(n, ast.AnnAssign) and n.value is None:
                            continue
                        owner_is_tree = f.cls is not None and f.cls.fq in fam and isinstance(t.value, ast.Name) and t.value.id == "self"
                        if not owner_is_tree:
                            ty = eng.env(f).type_of(t.value)
                            if ty and not (ty & fam):
                                continue
                            if not ty and not (f.module in tree_modules):
                                continue
                        n_memo += 1
                        if owner_is_tree and f.name in MEMO_WRITERS:
                            chk.ok("R10-c", f.fq, n.lineno, f"memo field `{t.attr}` written by {f.name}", nontrivial=False)
                        else:
                            chk.bad("R10-c", eng.relfile(f), n.lineno, f.fq, f"`{short(n, 70)}` writes the memoised `{t.attr}` outside __init__/invalidate_hash/__hash__",
                                    "a node can carry a hash or size that was not computed from its current structure (e.g. a copy made without children "
                                    "that inherits the hash of the full subtree): equality, set membership and size() then disagree with recomputation",
                                    keyparts=f"memo-writer|{t.attr}|{f.qualname}")
    if n_memo < 3:
        raise AnalysisError(f"only {n_memo} writes of the memo fields hash_cache/_size found")
    # outside writers
    PRIV = {"_symbol", "_sender", "_recipient", "_children", "hash_cache", "_size", "_sources"}
    outside_parent = []
    for f in eng.ix.all_functions:
        if f.module in tree_modules:
            continue
        tenv = None
        for n in walk_local(f.node):
            tgt = None
            if isinstance(n, (ast.Assign, ast.AugAssign, ast.AnnAssign)):
                for t in (n.targets if isinstance(n, ast.Assign) else [n.target]):
                    b = t.value if isinstance(t, ast.Subscript) else t
                    if isinstance(b, ast.Attribute) and (b.attr in PRIV or b.attr == "_parent"):
                        tgt = b
            elif isinstance(n, ast.Call) and isinstance(n.func, ast.Attribute) and n.func.attr in ("append", "extend", "insert", "remove", "pop", "clear") \
                    and isinstance(n.func.value, ast.Attribute) and n.func.value.attr in ("_children", "_sources"):
                tgt = n.func.value
            if tgt is None:
                continue
            if isinstance(tgt.value, ast.Name) and tgt.value.id == "self" and f.cls is not None and f.cls.fq not in fam:
                continue  # another class's own private field of the same name
            if tenv is None:
                tenv = eng.env(f)
            ty = tenv.type_of(tgt.value)
            if ty and not (ty & fam):
                continue
            if tgt.attr == "_parent":
                outside_parent.append((f, n))
            else:
                chk.bad("R10-c", eng.relfile(f), n.lineno, f.fq, f"`{short(n)}` writes the private field {tgt.attr} of a tree from outside the tree module",
                        "the write bypasses invalidate_hash(): hash, equality and size go stale", keyparts=f"outside-write|{tgt.attr}")
    FROZEN_PARENT = {
        "fandango.language.grammar.nodes.non_terminal:NonTerminalNode.fuzz": "detaches the freshly generated subtree from the scratch root before attaching it",
        "fandango.language.grammar.grammar:Grammar.fuzz": "detaches the generated root from the scratch parent",
        "fandango.language.grammar.grammar:Grammar.derive_sources": "attaches freshly parsed generator arguments to their owner",
    }
    for f, n in outside_parent:
        if f.fq in FROZEN_PARENT:
            chk.ok("R10-c", f.fq, n.lineno, f"outside write `{short(n)}` accepted: {FROZEN_PARENT[f.fq]}", nontrivial=False)
        else:
            chk.bad("R10-c", eng.relfile(f), n.lineno, f.fq, f"`{short(n)}` writes _parent of a tree outside the tree module",
                    "a parent link is set without the owning node listing the child: every child's parent link must point to the node that lists it",
                    keyparts="outside-parent")

    # ---- R10-d ------------------------------------------------------------
    init = eng.method(T, "__init__", inherited=False)
    dc = eng.method(T, "__deepcopy__", inherited=False)
    params = [a for a in init.node.args.args[1:] + init.node.args.kwonlyargs]  # type: ignore[attr-defined]
    ctor = [c for c in walk_local(dc.node) if isinstance(c, ast.Call) and call_name(c) in {cl.split(":")[1] for cl in fam} | {"type", "__class__"}]
    if not ctor:
        raise AnalysisError("DerivationTree.__deepcopy__: constructor call not found")
    cc = ctor[0]
    later_assigned = set()
    for n in walk_local(dc.node):
        if isinstance(n, ast.Assign):
            for t in n.targets:
                if isinstance(t, ast.Attribute) and isinstance(t.value, ast.Name) and t.value.id != "self":
                    later_assigned.add(t.attr.lstrip("_"))
        if isinstance(n, ast.Call) and call_name(n) == "set_children":
            later_assigned.add("children")
    pos = [p.arg for p in init.node.args.args[1:]]  # type: ignore[attr-defined]
    for i, p in enumerate(params):
        arg = get_kwarg(cc, p.arg)
        if arg is None and p.arg in pos and pos.index(p.arg) < len(cc.args):
            arg = cc.args[pos.index(p.arg)]
        ann = norm(p.annotation) if p.annotation is not None else ""
        is_list = "list[" in ann
        if arg is None and p.arg not in later_assigned:
            chk.bad("R10-d", eng.relfile(dc), cc.lineno, dc.fq, f"__deepcopy__ does not carry `{p.arg}` over",
                    "a copy differs from its original in that attribute (e.g. read-only marks, origin tags, parties)", keyparts=f"copy-misses|{p.arg}")
            continue
        if is_list and arg is not None:
            bare = isinstance(arg, ast.Attribute) or isinstance(arg, ast.Name)
            if bare:
                chk.bad("R10-d", eng.relfile(dc), cc.lineno, dc.fq, f"__deepcopy__ passes `{p.arg}={short(arg)}` by reference",
                        "copy and original share one list: editing one edits the other", keyparts=f"copy-aliases|{p.arg}")
                continue
        chk.ok("R10-d", dc.fq, cc.lineno, f"`{p.arg}` re-created ({'ctor arg ' + short(arg, 40) if arg is not None else 'assigned after construction'})")
    # children / sources / parent are deep-copied, not shared
    for n in walk_local(dc.node):
        if isinstance(n, ast.Call) and call_name(n) == "set_children" and n.args:
            if "deepcopy" in norm(n.args[0]):
                chk.ok("R10-d", dc.fq, n.lineno, "children are deep-copied")
            else:
                chk.bad("R10-d", eng.relfile(dc), n.lineno, dc.fq, f"`{short(n)}` installs the original's children in the copy",
                        "the copy adopts (re-parents) the original's children", keyparts="copy-shares-children")
        if isinstance(n, ast.Assign) and any(isinstance(t, ast.Attribute) and t.attr in ("sources", "_sources", "_parent") and isinstance(t.value, ast.Name) and t.value.id != "self" for t in n.targets):
            if "deepcopy" in norm(n.value) or (isinstance(n.value, ast.Constant) and n.value.value is None) or isinstance(n.value, ast.List):
                chk.ok("R10-d", dc.fq, n.lineno, f"`{short(n, 60)}` copies")
            else:
                chk.bad("R10-d", eng.relfile(dc), n.lineno, dc.fq, f"`{short(n)}` shares structure with the original", "copy and original are linked", keyparts="copy-shares|" + short(n.targets[0]))
    # list-valued constructor arguments that alias another tree's list, package-wide
    fam_names = {cl.split(":")[1] for cl in fam}
    aliasing = []
    for f in eng.ix.all_functions:
        for c in walk_local(f.node):
            if isinstance(c, ast.Call) and call_name(c) in fam_names:
                for kw in c.keywords:
                    if kw.arg in ("origin_repetitions", "sources") and isinstance(kw.value, ast.Attribute) and kw.value.attr in ("origin_repetitions", "sources", "_sources"):
                        aliasing.append((f, c, kw))
    ALIAS_OK = {
        ("fandango.language.grammar.parser.iterative_parser:IterativeParser._rec_to_derivation_tree", "sources"):
            "the argument is a parser-internal tree that is discarded after conversion; parser trees carry no sources (ParserDerivationTree passes [])",
    }
    for f, c, kw in aliasing:
        key = (f.fq, kw.arg)
        if key in ALIAS_OK:
            chk.ok("R10-d", f.fq, c.lineno, f"`{kw.arg}={short(kw.value)}` by reference accepted: {ALIAS_OK[key]}", nontrivial=False)
        else:
            chk.bad("R10-d", eng.relfile(f), c.lineno, f.fq, f"`{call_name(c)}(... {kw.arg}={short(kw.value)})` hands another tree's list on by reference",
                    "two trees share one list object: an in-place change of one (repetition tags, generator sources) shows up in the other",
                    keyparts=f"ctor-aliases|{kw.arg}")
    flush()
    chk.extra["effect_analysis"] = {"summaries": len(ea.summaries), "function_analyses": ea.n_analysed, "brackets": sorted(ea.dropped_brackets)}


# ------------------------------------------------------------------ self-test variants
from ..mutants import M  # noqa: E402

_T = "src/fandango/language/tree.py"
_MU = "src/fandango/evolution/mutation.py"
_RB = "src/fandango/constraints/repetition_bounds.py"
_S = "src/fandango/language/search.py"
MUTANTS = [
    M("insert-repair-adopts-the-original-children", _RB, "            copy_children=True,\n            copy_parent=False,\n            copy_params=False,\n        )\n        copy_parent.set_children(\n            copy_parent.children[:insertion_index]\n            + insert_children\n            + copy_parent.children[insertion_index:]\n",
      "            copy_children=False,\n            copy_parent=False,\n            copy_params=False,\n        )\n        copy_parent.set_children(\n            old_tree_children[:insertion_index]\n            + insert_children\n            + old_tree_children[insertion_index:]\n", "R10-b"),
    M("root-lookup-memoised-by-structure", _T, "    def get_root(self, stop_at_argument_begin: bool = False) -> \"DerivationTree\":\n", "    @functools.lru_cache(maxsize=1024)\n    def get_root(self, stop_at_argument_begin: bool = False) -> \"DerivationTree\":\n", "R10-g"),
    M("nonterminal-hash-without-kind", "src/fandango/language/symbols/non_terminal.py", "        return hash((self._value, self._type))\n", "        return hash(self._value)\n", "R10-f"),
    M("deepcopy-inherits-hash", _T, "        memo[id(self)] = copied\n", "        memo[id(self)] = copied\n        copied.hash_cache = self.hash_cache\n", "R10-c"),
    M("delete-repetitions-adopts-originals", _RB, "        for child in copy_parent.children[::-1]:\n            repetition_node_id = self._repetition_id", "        for child in tree.children[::-1]:\n            repetition_node_id = self._repetition_id", "R10-b"),
    M("insert-position-by-value", _RB, "        index = index_by_reference(tree, self._ending_rep_tree)\n", "        index = tree.children.index(self._ending_rep_tree) if self._ending_rep_tree in tree.children else None\n", "R10-e"),
    M("split-end-by-value", _T, "        me_idx = index_by_reference(self.parent.children, self)\n", "        me_idx = self.parent.children.index(self)\n", "R10-e"),
    M("slice-adopts-children", _T, "    def set_children(self, children: list[DerivationTree]) -> None:\n        # A slice is a view on nodes that belong to another tree: it lists the selected\n        # nodes but must not adopt them (their parent stays the node they were taken from).\n        self._children = children\n        self.invalidate_hash()\n",
      "", "R10-a"),
    M("find-direct-marks-readonly", _T, "    def find_direct_trees(self, symbol: NonTerminal) -> list[\"DerivationTree\"]:\n        return [",
      "    def find_direct_trees(self, symbol: NonTerminal) -> list[\"DerivationTree\"]:\n        for child in self._children:\n            child.read_only = child.read_only or False\n        return [", "R10-a"),
    M("flatten-detaches", _T, "        flat = [self]\n        for child in self._children:\n            flat.extend(child.flatten())\n        return flat",
      "        flat = [self]\n        for child in self._children:\n            child._parent = self\n            flat.extend(child.flatten())\n        return flat", "R10-a"),
    M("mutate-without-copy", _MU, "        ctx_tree = node_to_mutate.split_end()\n", "        ctx_tree = node_to_mutate.split_end(False)\n", "R10-b"),
    M("insert-repetitions-no-restore", _RB, "        insert_children = tree.children\n        tree.set_children(old_tree_children)\n", "        insert_children = tree.children\n", "R10-b"),
    M("replace-reuses-unchanged-child", _T, "            new_children.append(new_child)\n            if new_child != child:\n                regen_params = True\n",
      "            if new_child != child:\n                regen_params = True\n                new_children.append(new_child)\n            else:\n                new_children.append(child)\n", "R10-b"),
    M("add-child-no-invalidate", _T, "        self._children.append(child)\n        child._parent = self\n        self.invalidate_hash()\n", "        self._children.append(child)\n        child._parent = self\n", "R10-c"),
    M("symbol-setter-no-invalidate", _T, "        self._symbol = symbol\n        self.invalidate_hash()\n", "        self._symbol = symbol\n", "R10-c"),
    M("hash-ignores-recipient", _T, "                    self.sender,\n                    self.recipient,\n                    tuple(hash(child) for child in self._children),", "                    self.sender,\n                    tuple(hash(child) for child in self._children),", "R10-c"),
    M("invalidate-stops-at-node", _T, "        if self._parent is not None:\n            self._parent.invalidate_hash()\n\n    @property\n    def sender", "        if self._parent is not None and update_size:\n            self._parent.invalidate_hash(update_size=False)\n\n    @property\n    def sender", "R10-c"),
    M("deepcopy-shares-tags", _T, "            origin_repetitions=list(self.origin_repetitions),\n        )\n        memo[id(self)] = copied", "            origin_repetitions=self.origin_repetitions,\n        )\n        memo[id(self)] = copied", "R10-d"),
    M("deepcopy-drops-readonly", _T, "            sources=[],\n            read_only=self.read_only,\n            origin_repetitions=list(self.origin_repetitions),\n        )\n        memo[id(self)] = copied", "            sources=[],\n            origin_repetitions=list(self.origin_repetitions),\n        )\n        memo[id(self)] = copied", "R10-d"),
]
TWINS = [
    M("twin-getitem-local", _T, "        items = self._children.__getitem__(item)\n", "        kids = self._children\n        items = kids.__getitem__(item)\n", None),
    M("twin-add-child-order", _T, "        self._children.append(child)\n        child._parent = self\n        self.invalidate_hash()\n", "        child._parent = self\n        self._children.append(child)\n        self.invalidate_hash()\n", None),
]
