"""C07 - constraint verdicts follow the documented selector/quantifier semantics.

R07-a  operator tables agree: spec token (literal from FandangoLexer.g4) -> Comparison member
       (visitFormula_comparison) -> Python operator in Comparison.compare -> member value; and
       Comparison.invert is the logical complement table.
R07-b  a combination whose evaluation raises makes the constraint fail (the handler obligations
       of C02's R02-c, evaluated on the same family).
R07-c  vacuity: the no-match branch of every sibling that evaluates spec code makes the verdict
       true through the same accumulators, and only when no combination was seen.
R07-d  lazy == eager: in Conjunction/Forall the early exit is `not success` under an `all`
       aggregation, in Disjunction/Exists `success` under `any`; the element that triggered the
       exit is part of the aggregated list; lazy and eager paths feed one aggregation.
R07-e  duality of invert(): Forall <-> Exists and Conjunction <-> Disjunction with inverted
       operands, Implication -> antecedent and not consequent, Expression -> not(...),
       Comparison -> inverted operator.
R07-f  selector dispatch: `.` resolves the attribute with find_direct, `..` with find, bases
       with the method of the same name; the converter maps . .. [] {} * and |..|/len() to the
       corresponding search classes.
"""

from __future__ import annotations

import ast
from typing import Optional

from ..core import AnalysisError, ClassInfo, FuncInfo, call_name, get_kwarg, norm, self_attr, short, walk_local
from ..engine import Engine
from ..report import Check
from . import common_fitness as cf
from .. import g4

CONS = "fandango.constraints"
CONVERT = "fandango.language.parse.convert"
COMPLEMENT = {"==": "!=", "!=": "==", ">": "<=", ">=": "<", "<": ">=", "<=": ">"}


def rule_a(chk: Check, eng: Engine) -> None:
    lg = g4.load(eng, "Lexer")
    comp = eng.cls(f"{CONS}.failing_tree", "Comparison")
    members: dict[str, str] = {}
    for k, v in comp.class_attrs.items():
        if isinstance(v, ast.Constant) and isinstance(v.value, str):
            members[k] = v.value
    if len(members) < 6:
        raise AnalysisError(f"Comparison enum has only {len(members)} members")
    # compare(): case Comparison.X: return bool(left OP right)
    cmpm = eng.method(comp, "compare", inherited=False)
    cmpops = {k: v for k, v in ast._Unparser.cmpops.items()}  # type: ignore[attr-defined]
    seen = set()
    for n in walk_local(cmpm.node):
        if isinstance(n, ast.match_case) and isinstance(n.pattern, ast.MatchValue) and isinstance(n.pattern.value, ast.Attribute):
            mem = n.pattern.value.attr
            cmps = [c for c in ast.walk(ast.Module(body=n.body, type_ignores=[])) if isinstance(c, ast.Compare)]
            if len(cmps) != 1 or mem not in members:
                raise AnalysisError(f"Comparison.compare: unexpected case body for {mem}")
            c = cmps[0]
            sym = cmpops[type(c.ops[0]).__name__]
            lr = isinstance(c.left, ast.Name) and c.left.id == "left" and isinstance(c.comparators[0], ast.Name) and c.comparators[0].id == "right"
            seen.add(mem)
            if sym == members[mem] and lr:
                chk.ok("R07-a", cmpm.fq, n.pattern.lineno, f"Comparison.{mem} ('{members[mem]}') evaluates `left {sym} right`")
            else:
                chk.bad("R07-a", eng.relfile(cmpm), n.pattern.lineno, cmpm.fq, f"Comparison.{mem} ('{members[mem]}') evaluates `{short(c)}`",
                        "the verdict of a comparison constraint is computed with another operator (or swapped operands) than the one written in the spec",
                        keyparts=f"compare|{mem}")
    for mem in sorted(set(members) - seen):
        chk.bad("R07-a", eng.relfile(cmpm), cmpm.line, cmpm.fq, f"Comparison.{mem} has no case in compare()", "that operator raises instead of comparing", keyparts=f"compare-missing|{mem}")
    # invert(): complement table
    inv = eng.method(comp, "invert", inherited=False)
    dicts = [d for d in walk_local(inv.node) if isinstance(d, ast.Dict)]
    if not dicts:
        raise AnalysisError("Comparison.invert: table not found")
    rows = 0
    for k, v in zip(dicts[0].keys, dicts[0].values):
        if isinstance(k, ast.Attribute) and isinstance(v, ast.Attribute) and k.attr in members and v.attr in members:
            rows += 1
            if COMPLEMENT[members[k.attr]] == members[v.attr]:
                chk.ok("R07-a", inv.fq, k.lineno, f"invert: '{members[k.attr]}' -> '{members[v.attr]}' (logical complement)")
            else:
                chk.bad("R07-a", eng.relfile(inv), k.lineno, inv.fq, f"invert maps '{members[k.attr]}' to '{members[v.attr]}', the complement is '{COMPLEMENT[members[k.attr]]}'",
                        "`not (a OP b)` is evaluated as something that is not its negation (e.g. inside an implication or a negated quantifier)", keyparts=f"invert|{k.attr}")
    if rows < 6:
        chk.bad("R07-a", eng.relfile(inv), inv.line, inv.fq, f"invert table has {rows} rows", "some operators cannot be inverted", keyparts="invert-rows")
    # spec token -> member
    cp = eng.cls(CONVERT, "ConstraintProcessor")
    vf = eng.method(cp, "visitFormula_comparison", inherited=False)
    n_tok = 0

    def walk_if(st: ast.stmt) -> None:
        nonlocal n_tok
        if not isinstance(st, ast.If):
            return
        toks = [c.func.attr for c in ast.walk(st.test) if isinstance(c, ast.Call) and isinstance(c.func, ast.Attribute) and isinstance(c.func.value, ast.Name)
                and c.func.value.id == "ctx" and c.func.attr.isupper()]
        mems = [a.attr for a in ast.walk(ast.Module(body=st.body, type_ignores=[])) if isinstance(a, ast.Attribute) and isinstance(a.value, ast.Name) and a.value.id == "Comparison"]
        if toks and len(mems) == 1:
            for t in toks:
                lit = lg.token_literal(t)
                n_tok += 1
                want = members.get(mems[0])
                ok = lit == want or (lit == "<>" and want == "!=")
                if ok:
                    chk.ok("R07-a", vf.fq, st.lineno, f"spec token {t} ('{lit}') -> Comparison.{mems[0]} ('{want}')")
                else:
                    chk.bad("R07-a", eng.relfile(vf), st.lineno, vf.fq, f"spec token {t} ('{lit}') is translated to Comparison.{mems[0]} ('{want}')",
                            "a comparison constraint is evaluated with a different operator than the one written", keyparts=f"token|{t}")
        for o in st.orelse:
            walk_if(o)

    for st in vf.node.body:  # type: ignore[attr-defined]
        walk_if(st)
    if n_tok < 6:
        raise AnalysisError(f"visitFormula_comparison: only {n_tok} token branches recognised")


def rule_bc(chk: Check, eng: Engine) -> None:
    base = eng.cls(f"{CONS}.constraint", "Constraint")
    for c in sorted(base.all_subclasses(), key=lambda c: c.fq):
        fn = c.methods.get("fitness")
        if fn is None:
            continue
        eng.consult(fn.module)
        cfg = eng.cfg(fn)
        v = cf.final_verdict(eng, fn)
        hs = cf.handlers_in_loops(cfg, fn)
        for h, loop, tr in hs:
            if v is None or v.kind not in ("COUNT", "ALL1"):
                raise AnalysisError(f"{fn.fq}: try/except around evaluation but verdict fits no accumulator shape")
            r = cf.check_handler_records_failure(eng, fn, v, h, loop)
            if r is None:
                chk.ok("R07-b", fn.fq, h.lineno, f"raising combination -> failure recorded on every normal handler path [{v.kind}]")
            else:
                desc, path = r
                prot = sorted({short(x.args[0], 40) for x in ast.walk(ast.Module(body=tr.body, type_ignores=[])) if isinstance(x, ast.Call) and call_name(x) == "eval" and x.args})
                chk.bad("R07-b", eng.relfile(fn), h.lineno, fn.fq, f"except in try at line {tr.lineno}: {desc}",
                        "a combination whose evaluation raises does not make the constraint fail (documented: it does)", path=path, keyparts="handler-drops|" + "|".join(prot))
        # vacuity
        flags = [n for n in walk_local(fn.node) if isinstance(n, ast.If) and isinstance(n.test, ast.UnaryOp) and isinstance(n.test.op, ast.Not)
                 and isinstance(n.test.operand, ast.Name) and "combination" in n.test.operand.id]
        if not flags:
            if v is not None and v.kind in ("COUNT", "ALL1") and any(isinstance(n, ast.For) and "combinations" in norm(n.iter) for n in walk_local(fn.node)):
                chk.bad("R07-c", eng.relfile(fn), fn.line, fn.fq, "no `if not has_combinations` branch after the combination loop",
                        "with no match the verdict depends on the empty accumulators instead of being vacuously true by construction", keyparts="no-vacuity-branch")
            continue
        fl = flags[0]
        flag = fl.test.operand.id  # type: ignore[union-attr]
        assert v is not None
        body_ok = False
        if v.kind == "COUNT":
            incs = {n.target.id: n for n in fl.body if isinstance(n, ast.AugAssign) and isinstance(n.target, ast.Name) and isinstance(n.op, ast.Add)}
            body_ok = v.solved in incs and v.total in incs and norm(incs[v.solved].value) == norm(incs[v.total].value)
        elif v.kind == "ALL1":
            body_ok = any(cf.is_success_update(n, v) for n in fl.body) and len(fl.body) == 1
        if body_ok:
            chk.ok("R07-c", fn.fq, fl.lineno, f"no match -> verdict true through the accumulators ({short(fl.body[0], 40)} ...)")
        else:
            chk.bad("R07-c", eng.relfile(fn), fl.lineno, fn.fq, f"the no-match branch `{short(fl, 60)}` does not make the verdict true",
                    "a constraint over symbols that do not occur in the tree is reported as violated (documented: no match = nothing to violate)", keyparts="vacuity-body")
        # flag discipline: initial False, set True at the top of the loop body unconditionally
        sets_true = [n for n in walk_local(fn.node) if isinstance(n, ast.Assign) and any(isinstance(t, ast.Name) and t.id == flag for t in n.targets)
                     and isinstance(n.value, ast.Constant) and n.value.value is True]
        sets_false = [n for n in walk_local(fn.node) if isinstance(n, ast.Assign) and any(isinstance(t, ast.Name) and t.id == flag for t in n.targets)
                      and isinstance(n.value, ast.Constant) and n.value.value is False]
        loops = [n for n in walk_local(fn.node) if isinstance(n, ast.For) and "combinations" in norm(n.iter)]
        ok_flag = bool(loops) and len(sets_true) == 1 and len(sets_false) == 1 and any(sets_true[0] is s or (isinstance(s, ast.Assign) and s is sets_true[0]) for s in loops[0].body[:3])
        if ok_flag:
            chk.ok("R07-c", fn.fq, sets_true[0].lineno, f"`{flag}` is False initially and set True unconditionally at the top of the combination loop")
        else:
            chk.bad("R07-c", eng.relfile(fn), fl.lineno, fn.fq, f"`{flag}` is not set exactly once at the top of the combination loop",
                    "the vacuity branch can fire although combinations were evaluated (or not fire although none was)", keyparts="vacuity-flag")


def rule_d(chk: Check, eng: Engine) -> None:
    want = {"ConjunctionConstraint": "all", "ForallConstraint": "all", "DisjunctionConstraint": "any", "ExistsConstraint": "any"}
    base = eng.cls(f"{CONS}.constraint", "Constraint")
    for c in base.all_subclasses():
        if c.name not in want:
            continue
        fn = c.methods.get("fitness")
        if fn is None:
            raise AnalysisError(f"{c.fq}: no fitness method")
        eng.consult(fn.module)
        v = cf.final_verdict(eng, fn)
        if v is None or v.kind != "AGG":
            raise AnalysisError(f"{fn.fq}: verdict is not an all/any aggregation over sub-verdicts")
        agg = v.agg
        if agg == want[c.name]:
            chk.ok("R07-d", fn.fq, fn.line, f"{c.name}: verdict = {agg}(f.success for f in {v.lst})")
        else:
            chk.bad("R07-d", eng.relfile(fn), fn.line, fn.fq, f"{c.name} aggregates its sub-verdicts with {agg}()",
                    f"a {'conjunction/forall' if want[c.name] == 'all' else 'disjunction/exists'} must aggregate with {want[c.name]}()", keyparts=f"aggregator|{c.name}")
        breaks = [b for b in walk_local(fn.node) if isinstance(b, ast.Break)]
        eval_fn, lst_names = fn, {v.lst}
        if not breaks:
            # the evaluation loop may live in a private helper whose result becomes the aggregated list (`values = self._evaluate_operands(...)`)
            for a in walk_local(fn.node):
                if isinstance(a, ast.Assign) and any(isinstance(t_, ast.Name) and t_.id == v.lst for t_ in a.targets) and isinstance(a.value, ast.Call) \
                        and isinstance(a.value.func, ast.Attribute) and self_attr(a.value.func):
                    h = c.lookup(a.value.func.attr)
                    if h is not None and any(isinstance(b, ast.Break) for b in walk_local(h.node)):
                        eval_fn = h
                        lst_names = {r.value.id for r in walk_local(h.node) if isinstance(r, ast.Return) and isinstance(r.value, ast.Name)}
                        breaks = [b for b in walk_local(h.node) if isinstance(b, ast.Break)]
        if not breaks:
            chk.bad("R07-d", eng.relfile(fn), fn.line, fn.fq, f"{c.name} has no lazy early exit although it takes a `lazy` flag", "lazy evaluation is not implemented as documented", keyparts=f"no-break|{c.name}")
            continue
        from ..core import parents_map, enclosing

        fn = eval_fn
        pm = parents_map(fn.node)
        for b in breaks:
            iff = enclosing(pm, b, (ast.If,))
            if iff is None:
                chk.bad("R07-d", eng.relfile(fn), b.lineno, fn.fq, "unconditional break in the evaluation loop", "only the first element is evaluated", keyparts=f"break-uncond|{c.name}")
                continue
            test = iff.test
            conj = test.values if isinstance(test, ast.BoolOp) and isinstance(test.op, ast.And) else [test]
            succ = [t for t in conj if "success" in norm(t)]
            lazy_guard = any("lazy" in norm(t) for t in conj) or any(isinstance(a, ast.If) and "lazy" in norm(a.test) for a in _ancestors(pm, b))
            if not lazy_guard:
                # eager mode has left the function before the loop: `if not self.lazy: return [...]` as an earlier statement of the same function body
                top = next((a for a in _ancestors(pm, b) if a in fn.node.body), None)  # type: ignore[attr-defined]
                if top is not None:
                    for st in fn.node.body[:fn.node.body.index(top)]:  # type: ignore[attr-defined]
                        if isinstance(st, ast.If) and isinstance(st.test, ast.UnaryOp) and isinstance(st.test.op, ast.Not) and "lazy" in norm(st.test.operand) \
                                and st.body and isinstance(st.body[-1], (ast.Return, ast.Raise)) and not st.orelse:
                            lazy_guard = True
            if len(succ) != 1:
                chk.bad("R07-d", eng.relfile(fn), iff.lineno, fn.fq, f"early exit `{short(test)}` does not test the element's verdict", "lazy evaluation stops for another reason than a decided verdict", keyparts=f"break-cond|{c.name}")
                continue
            s = succ[0]
            negated = isinstance(s, ast.UnaryOp) and isinstance(s.op, ast.Not)
            need_neg = agg == "all"
            if negated != need_neg:
                chk.bad("R07-d", eng.relfile(fn), iff.lineno, fn.fq, f"lazy exit on `{short(s)}` under {agg}()",
                        f"lazy evaluation stops at the first {'success' if need_neg else 'failure'}, so the remaining elements that decide the verdict are never evaluated: lazy and eager verdicts differ",
                        keyparts=f"break-polarity|{c.name}")
            elif not lazy_guard:
                chk.bad("R07-d", eng.relfile(fn), iff.lineno, fn.fq, f"early exit `{short(test)}` is not restricted to lazy mode", "eager mode no longer collects all failing parts", keyparts=f"break-eager|{c.name}")
            else:
                chk.ok("R07-d", fn.fq, iff.lineno, f"{c.name}: lazy exit on `{short(s)}` under {agg}() - the deciding element ends the list")
            # the deciding element is appended before the break
            loop = enclosing(pm, b, (ast.For, ast.While))
            apps = [n for n in ast.walk(loop) if isinstance(n, ast.Call) and isinstance(n.func, ast.Attribute) and n.func.attr == "append"
                    and isinstance(n.func.value, ast.Name) and n.func.value.id in lst_names] if loop is not None else []
            if apps and apps[0].lineno < b.lineno:
                chk.ok("R07-d", fn.fq, apps[0].lineno, f"`{short(apps[0])}` precedes the early exit: the deciding verdict is aggregated")
            else:
                chk.bad("R07-d", eng.relfile(fn), b.lineno, fn.fq, f"the element that triggers the early exit is not appended to `{sorted(lst_names)[0]}` first",
                        "the lazy verdict ignores the very element that decided it", keyparts=f"break-before-append|{c.name}")


def _ancestors(pm, node):
    out = []
    cur = pm.get(id(node))
    while cur is not None:
        out.append(cur)
        cur = pm.get(id(cur))
    return out


def rule_e(chk: Check, eng: Engine) -> None:
    base = eng.cls(f"{CONS}.constraint", "Constraint")
    table = {
        "ForallConstraint": ("ExistsConstraint", ["statement"]),
        "ExistsConstraint": ("ForallConstraint", ["statement"]),
        "ConjunctionConstraint": ("DisjunctionConstraint", ["constraints"]),
        "DisjunctionConstraint": ("ConjunctionConstraint", ["constraints"]),
        "ImplicationConstraint": ("ConjunctionConstraint", ["consequent"]),
    }
    for c in base.all_subclasses():
        inv = c.methods.get("invert")
        if inv is None:
            continue
        eng.consult(inv.module)
        rets = [r for r in walk_local(inv.node) if isinstance(r, ast.Return) and isinstance(r.value, ast.Call)]
        if c.name in table:
            want_cls, inverted_fields = table[c.name]
            if not rets or call_name(rets[0].value) != want_cls:
                chk.bad("R07-e", eng.relfile(inv), inv.line, inv.fq, f"{c.name}.invert() does not build a {want_cls}",
                        "negation is not the dual connective/quantifier", keyparts=f"dual|{c.name}")
                continue
            src = norm(inv.node)
            ok = all((f"self.{f}.invert()" in src) or (f"for constraint in self.{f}" in src and ".invert()" in src) for f in inverted_fields)
            if c.name == "ImplicationConstraint":
                # antecedent kept as is
                arg0 = rets[0].value.args[0] if rets[0].value.args else None
                ok = ok and isinstance(arg0, ast.List) and len(arg0.elts) == 2 and norm(arg0.elts[0]) == "self.antecedent"
            if c.name in ("ForallConstraint", "ExistsConstraint"):
                # same bound and search
                args = [norm(a) for a in rets[0].value.args]
                ok = ok and "self.bound" in args and "self.search" in args
            if ok:
                chk.ok("R07-e", inv.fq, rets[0].lineno, f"not {c.name} = {want_cls} over inverted {inverted_fields}")
            else:
                chk.bad("R07-e", eng.relfile(inv), rets[0].lineno, inv.fq, f"{c.name}.invert() builds {want_cls} but does not invert {inverted_fields} (or changes the binding)",
                        "negation of the constraint is not its logical complement", keyparts=f"dual-args|{c.name}")
        elif c.name == "ExpressionConstraint":
            src = norm(inv.node)
            if "f'not ({self.expression})'" in src or 'f"not ({self.expression})"' in src:
                chk.ok("R07-e", inv.fq, inv.line, "not Expression = `not (<expression>)` (parenthesised)")
            else:
                chk.bad("R07-e", eng.relfile(inv), inv.line, inv.fq, "ExpressionConstraint.invert() does not wrap the expression as `not (...)`",
                        "operator precedence changes the meaning of the negated expression", keyparts="dual|Expression")
        elif c.name == "ComparisonConstraint":
            if rets and rets[0].value.args and norm(rets[0].value.args[0]) == "self._operator.invert()" and norm(rets[0].value.args[1]) == "self._left" and norm(rets[0].value.args[2]) == "self._right":
                chk.ok("R07-e", inv.fq, rets[0].lineno, "not Comparison = same operands with the inverted operator (table of R07-a)")
            else:
                chk.bad("R07-e", eng.relfile(inv), inv.line, inv.fq, "ComparisonConstraint.invert() does not keep the operands and invert the operator",
                        "negation of a comparison is wrong", keyparts="dual|Comparison")


def rule_f(chk: Check, eng: Engine) -> None:
    smod = "fandango.language.search"
    want = {"AttributeSearch": "find_direct", "DescendantAttributeSearch": "find"}
    for cname, attr_m in want.items():
        c = eng.cls(smod, cname)
        for mname in ("find", "find_direct"):
            m = eng.method(c, mname, inherited=False)

            def with_helpers(fn, depth: int = 0):
                """nodes of fn and of the private helper methods of the same class it calls (a shared loop moved into `_find_in_bases`)"""
                for x in walk_local(fn.node):
                    yield x
                    if depth < 2 and isinstance(x, ast.Call) and isinstance(x.func, ast.Attribute) and self_attr(x.func) and x.func.attr not in ("find", "find_direct", "find_all", "quantify"):
                        h = c.lookup(x.func.attr)
                        if h is not None and h is not fn:
                            yield from with_helpers(h, depth + 1)

            nodes_ = list(with_helpers(m))
            base_calls = [x for x in nodes_ if isinstance(x, ast.Call) and isinstance(x.func, ast.Attribute) and self_attr(x.func.value) == "base"]
            attr_calls = [x for x in nodes_ if isinstance(x, ast.Call) and isinstance(x.func, ast.Attribute) and self_attr(x.func.value) == "attribute"]
            ok = len(base_calls) == 1 and base_calls[0].func.attr == mname and len(attr_calls) == 1 and attr_calls[0].func.attr == attr_m  # type: ignore[union-attr]
            # the attribute search is applied to the trees of the base containers
            arg_ok = bool(attr_calls) and bool(attr_calls[0].args) and isinstance(attr_calls[0].args[0], ast.Name)
            if ok and arg_ok:
                chk.ok("R07-f", m.fq, m.line, f"{cname}.{mname}: base via {mname}, attribute via {attr_m}")
            else:
                chk.bad("R07-f", eng.relfile(m), m.line, m.fq, f"{cname}.{mname} resolves base with {[x.func.attr for x in base_calls]} and attribute with {[x.func.attr for x in attr_calls]}",  # type: ignore[union-attr]
                        f"`{'.' if cname == 'AttributeSearch' else '..'}` selects {'direct children' if attr_m == 'find_direct' else 'all descendants'} of the base match; "
                        "the other resolution changes which nodes a constraint ranges over", keyparts=f"dispatch|{cname}.{mname}")
    sp = eng.cls(CONVERT, "SearchProcessor")
    gas = eng.method(sp, "get_attribute_searches", inherited=False)
    rows = 0

    def walk_if(st: ast.stmt) -> None:
        nonlocal rows
        if not isinstance(st, ast.If):
            return
        toks = [c.func.attr for c in ast.walk(st.test) if isinstance(c, ast.Call) and isinstance(c.func, ast.Attribute) and c.func.attr.isupper()]
        ctors = [call_name(r.value) for r in st.body if isinstance(r, ast.Return) and isinstance(r.value, ast.Call)]
        table = {"DOT": "AttributeSearch", "DOTDOT": "DescendantAttributeSearch"}
        for t in toks:
            if t in table:
                rows += 1
                if ctors == [table[t]]:
                    chk.ok("R07-f", gas.fq, st.lineno, f"token {t} -> {table[t]}")
                else:
                    chk.bad("R07-f", eng.relfile(gas), st.lineno, gas.fq, f"token {t} builds {ctors}", "`.` and `..` are confused", keyparts=f"selector-token|{t}")
        for o in st.orelse:
            walk_if(o)

    for st in gas.node.body:  # type: ignore[attr-defined]
        walk_if(st)
    ts = eng.method(sp, "transform_selection", inherited=False)
    src = norm(ts.node)
    for acc, cls in (("rs_pairs", "SelectiveSearch"), ("rs_slices", "ItemSearch")):
        rows += 1
        ok = False
        for st in ast.walk(ts.node):
            if isinstance(st, ast.If) and acc in norm(st.test):
                ok = any(isinstance(r, ast.Return) and isinstance(r.value, ast.Call) and call_name(r.value) == cls for r in st.body)
        if ok:
            chk.ok("R07-f", ts.fq, ts.line, f"selector part {acc} -> {cls}")
        else:
            chk.bad("R07-f", eng.relfile(ts), ts.line, ts.fq, f"selector part {acc} does not build {cls}", "`[]` / `{}` selectors are mistranslated", keyparts=f"selector|{acc}")
    for mname, cls in (("visitStar_selection", "StarSearch"), ("visitSelector_length", "LengthSearch")):
        m = eng.method(sp, mname, inherited=False)
        rows += 1
        if any(isinstance(c, ast.Call) and call_name(c) == cls for c in walk_local(m.node)):
            chk.ok("R07-f", m.fq, m.line, f"{mname} builds {cls}")
        else:
            chk.bad("R07-f", eng.relfile(m), m.line, m.fq, f"{mname} does not build {cls}", "`*` / length selectors are mistranslated", keyparts=f"selector|{mname}")
    if rows < 6:
        raise AnalysisError(f"selector translation table has only {rows} rows")


def run(chk: Check, eng: Engine) -> None:
    chk.rule("R07-a", "operator tables agree: lexer literal -> Comparison member -> Python operator -> member value; invert is the complement table", floor=18)
    chk.rule("R07-b", "a combination whose evaluation raises records a failure on every normal handler path", floor=2)
    chk.rule("R07-c", "no match = vacuously true through the verdict accumulators, flagged exactly when no combination was seen", floor=4)
    chk.rule("R07-d", "lazy == eager: early exit polarity matches the aggregator and the deciding element is aggregated", floor=8)
    chk.rule("R07-e", "invert() builds the dual connective/quantifier over inverted operands", floor=6)
    chk.rule("R07-f", "selector dispatch: `.` -> find_direct, `..` -> find; converter maps . .. [] {} * len to the search classes", floor=10)
    chk.not_decided.append("agreement with a reference semantics on generated constraint programs (value level)")
    chk.rule("R07-g", "verdict memo keys distinguish different bindings: get_hash covers root, tree and the items of scope and local variables "
             "(order included), so nested quantifiers never receive the verdict of another binding", floor=4)
    from .c11 import gethash_rule

    gethash_rule(chk, eng, "R07-g")
    chk.rule("R07-n", "what a constraint reads from a node (value(), hash, size) is not a memoised mutable object handed out by reference: the verdict of one "
             "constraint must not depend on which constraint looked at the tree before", floor=1)
    from .c11 import memo_by_reference_rule
    memo_by_reference_rule(chk, eng, "R07-n")
    chk.rule("R07-m", "constraint expressions are evaluated in one namespace: the variables bound to the matches are visible inside the generator expressions / lambdas "
             "of the expression (any / all comprehensions are part of the documented constraint language)", floor=4)
    from .c08 import single_namespace_rule
    single_namespace_rule(chk, eng, "R07-m")
    chk.rule("R07-l", "quantifiers write their bound variable only into dictionaries they own (copies made in the same call)", floor=4)
    from . import common_fitness as _cfo
    _cfo.owned_binding_rule(chk, eng, "R07-l")
    chk.rule("R07-k", "scope and local variables received by a constraint / search method are passed on to every family method that takes them", floor=20)
    cf.context_forwarding_rule(chk, eng, "R07-k")
    chk.rule("R07-j", "a comparison that does not hold is never scored as satisfied (its score excludes 1.0 in float arithmetic; the verdict is `all(score == 1.0)`)", floor=3)
    from .c02 import failing_score_rule

    failing_score_rule(chk, eng, "R07-j")
    chk.rule("R07-h", "selector / constraint handlers use a constant-index accessor ctx.X(k) only where slot k of X is fixed by the grammar rule", floor=5)
    from .c08 import ordinal_accessor_rule

    ordinal_accessor_rule(chk, eng, "R07-h", ["SearchProcessor", "ConstraintProcessor"])
    rule_a(chk, eng)
    rule_bc(chk, eng)
    rule_d(chk, eng)
    rule_e(chk, eng)
    rule_f(chk, eng)


# ------------------------------------------------------------------ self-test variants
from ..mutants import M  # noqa: E402

_FT = "src/fandango/constraints/failing_tree.py"
_CV = "src/fandango/language/parse/convert.py"
_EXP = "src/fandango/constraints/expression.py"
_CMP = "src/fandango/constraints/comparison.py"
_CON = "src/fandango/constraints/conjunction.py"
_DIS = "src/fandango/constraints/disjunct.py"
_FA = "src/fandango/constraints/forall.py"
_EX = "src/fandango/constraints/exists.py"
_IMP = "src/fandango/constraints/implication.py"
_S = "src/fandango/language/search.py"
MUTANTS = [
    M("node-value-memoised-by-reference", "src/fandango/language/tree.py", "        aggregate = TreeValue.empty()\n        for child in self._children:\n            aggregate = aggregate.append(child.value())\n        return aggregate\n",
      "        if self._value_cache is None:\n            aggregate = TreeValue.empty()\n            for child in self._children:\n                aggregate = aggregate.append(child.value())\n            self._value_cache = aggregate\n        return self._value_cache\n", "R07-n",
      more=(("        self.hash_cache: Optional[int] = None\n", "        self.hash_cache: Optional[int] = None\n        self._value_cache: Optional[TreeValue] = None\n"),)),
    M("matches-bound-as-eval-locals", "src/fandango/constraints/constraint.py", "        return eval(expression, {**global_variables, **local_variables})\n", "        return eval(expression, global_variables, local_variables)\n", "R07-m"),
    M("exists-binds-into-callers-scope", "src/fandango/constraints/exists.py", "        scope = dict(scope or {})\n        local_variables = dict(local_variables or {})\n", "        scope = scope or dict()\n        local_variables = local_variables or dict()\n", "R07-l"),
    M("forall-domain-without-scope", "src/fandango/constraints/forall.py", "        for container in self.search.quantify(tree, scope=scope):\n", "        for container in self.search.quantify(tree):\n", "R07-k"),
    M("implication-consequent-without-locals", "src/fandango/constraints/implication.py", "            fitness = copy(self.consequent.fitness(tree, scope, local_variables))", "            fitness = copy(self.consequent.fitness(tree, scope))", "R07-k"),
    M("base-quantify-drops-scope", "src/fandango/language/search.py", "        return self.find(tree, scope, population)\n", "        return self.find(tree)\n", "R07-k"),
    M("distance-made-live", "src/fandango/constraints/comparison.py", "    if dist is float | int:\n", "    if isinstance(dist, (int, float)):\n", "R07-j"),
    M("rs-slice-ordinal-accessors", "src/fandango/language/parse/convert.py", "            bounds: list[Optional[int]] = [None, None, None]\n            slot = 0\n            for child in ctx.getChildren():\n                if child.getText() == \":\":\n                    slot += 1\n                else:\n                    bounds[slot] = int(child.getText())\n            return slice(*bounds)",
      "            return slice(\n                int(ctx.NUMBER(0).getText()) if ctx.NUMBER(0) else None,\n                int(ctx.NUMBER(1).getText()) if ctx.NUMBER(1) else None,\n                int(ctx.NUMBER(2).getText()) if ctx.NUMBER(2) else None,\n            )", "R07-h"),
    M("gethash-xor-fold", "src/fandango/constraints/base.py", "                tuple((scope or {}).items()),\n", "                GeneticBase._fold(scope),\n", "R07-g",
      more=(("    def combinations(\n        self,", "    @staticmethod\n    def _fold(bindings: Any) -> int:\n        result = 0\n        for name, value in (bindings or {}).items():\n            result ^= hash(name) ^ hash(value)\n        return result\n\n    def combinations(\n        self,"),)),
    M("invert-greater-to-less", _FT, "            Comparison.GREATER: Comparison.LESS_EQUAL,", "            Comparison.GREATER: Comparison.LESS,", "R07-a"),
    M("compare-le-uses-lt", _FT, "                return bool(left <= right)", "                return bool(left < right)", "R07-a"),
    M("compare-swapped-operands", _FT, "                return bool(left > right)", "                return bool(right > left)", "R07-a"),
    M("token-gteq-to-greater", _CV, "        elif ctx.GT_EQ():\n            op = Comparison.GREATER_EQUAL", "        elif ctx.GT_EQ():\n            op = Comparison.GREATER", "R07-a"),
    M("expression-exception-skips-total", _EXP, "                print_exception(e, f\"Evaluation failed: {self.expression}\")\n\n            total += 1", "                print_exception(e, f\"Evaluation failed: {self.expression}\")\n                total -= 1\n\n            total += 1", "R07-b"),
    M("vacuity-only-total", _EXP, "        if not has_combinations:\n            solved += 1\n            total += 1", "        if not has_combinations:\n            total += 1", "R07-c"),
    M("comparison-vacuity-zero", _CMP, "        if not has_combinations:\n            fitness_values.append(1.0)", "        if not has_combinations:\n            fitness_values.append(0.0)", "R07-c"),
    M("flag-set-after-eval", _EXP, "        for combination in self.combinations(tree, scope):\n            has_combinations = True\n", "        for combination in self.combinations(tree, scope):\n", "R07-c"),
    M("conjunction-lazy-break-on-success", _CON, "                if not fitness.success:\n                    break", "                if fitness.success:\n                    break", "R07-d"),
    M("disjunction-aggregates-all", _DIS, "        overall = any(fitness.success for fitness in fitness_values)", "        overall = all(fitness.success for fitness in fitness_values)", "R07-d"),
    M("forall-break-before-append", _FA, "            fitness_values.append(fitness)\n            # If the forall constraint is lazy and the statement is not successful, stop\n            if self.lazy and not fitness.success:\n                break",
      "            # If the forall constraint is lazy and the statement is not successful, stop\n            if self.lazy and not fitness.success:\n                break\n            fitness_values.append(fitness)", "R07-d"),
    M("exists-break-in-eager-mode", _EX, "            if self.lazy and fitness.success:\n                break", "            if fitness.success:\n                break", "R07-d"),
    M("forall-invert-keeps-statement", _FA, "        inverted_statement = self.statement.invert()\n", "        inverted_statement = self.statement\n", "R07-e"),
    M("implication-invert-inverts-antecedent", _IMP, "            [self.antecedent, inverted_consequent],", "            [self.antecedent.invert(), inverted_consequent],", "R07-e"),
    M("expression-invert-no-parens", _EXP, "        inverted_expression = f\"not ({self.expression})\"", "        inverted_expression = f\"not {self.expression}\"", "R07-e"),
    M("attribute-search-uses-find", _S, "        bases = self.base.find(tree, scope=scope, population=population)\n        targets = []\n        for base in bases:\n            for t in base.get_trees():\n                targets.extend(\n                    self.attribute.find_direct(t, scope=scope, population=population)\n                )\n        return targets",
      "        bases = self.base.find(tree, scope=scope, population=population)\n        targets = []\n        for base in bases:\n            for t in base.get_trees():\n                targets.extend(\n                    self.attribute.find(t, scope=scope, population=population)\n                )\n        return targets", "R07-f"),
    M("dot-and-dotdot-swapped", _CV, "        if ctx.DOT():\n            return AttributeSearch(", "        if ctx.DOTDOT():\n            return AttributeSearch(", "R07-f"),
]
TWINS = [
    M("twin-gethash-frozenset", "src/fandango/constraints/base.py", "                tuple((scope or {}).items()),\n", "                frozenset((scope or {}).items()),\n", None),
    M("twin-invert-table-order", _FT, "            Comparison.EQUAL: Comparison.NOT_EQUAL,\n            Comparison.NOT_EQUAL: Comparison.EQUAL,\n", "            Comparison.NOT_EQUAL: Comparison.EQUAL,\n            Comparison.EQUAL: Comparison.NOT_EQUAL,\n", None),
    M("twin-conjunction-comment", _CON, "                if not fitness.success:\n                    break", "                if not fitness.success:\n                    # first failure decides the conjunction\n                    break", None),
]
