"""C03 - a tree that satisfies all constraints is accepted (no rounding in the threshold).

R03-a  abstract interpretation of Evaluator.evaluate_individual (and IoEvaluator's wrapper) in the
       exactness domain of exact.py, for every sign case of (h, r) = (#hard, #repetition-bound
       constraints), s = #soft = 0, under the hypothesis H "every per-constraint fitness() is 1.0,
       the tree is seen for the first time".  Every comparison with the acceptance threshold on the
       path to the `yield` must have an operand that is exactly ONE and must accept equality.
R03-b  the same interpreter derives that every Fitness.fitness() used by hard constraints returns
       exactly 1.0 when solved == total (resp. all values are 1.0).
R03-c  every place outside the evaluator that compares a fitness with the threshold
       (api.Fandango) takes the value from the evaluator unchanged.
"""

from __future__ import annotations

import ast
import itertools
from typing import Optional

from ..core import AnalysisError, ClassInfo, FuncInfo, call_name, norm, self_attr, short, walk_local
from ..engine import Engine
from ..exact import AV, INT, ONE, OTHER, ROUNDED, TUP, UNKNOWN, add, as_int, div, form, form_add, form_const, form_str, form_subst_zero, mul
from ..report import Check

EVAL_MOD = "fandango.evolution.evaluation"
THRESHOLD_ATTRS = {"_expected_fitness", "expected_fitness"}


def LIST(atom_form, all_one: bool = False) -> AV:
    return AV("list", form=atom_form, why="all_one" if all_one else "")


FITOBJ = AV("fitobj")


class Stop(Exception):
    pass


class Interp:
    """Path-deterministic abstract interpreter for the handful of statement kinds the evaluator
    uses.  `pos` / `zero` are the atoms assumed > 0 / == 0 in the current case."""

    def __init__(self, eng: Engine, fn: FuncInfo, env: dict[str, AV], pos: set[str], zero: set[str],
                 attr_lists: dict[str, str], log: list, depth: int = 0, self_attrs: Optional[dict[str, AV]] = None):
        self.eng = eng
        self.fn = fn
        self.env = dict(env)
        self.pos = pos
        self.zero = zero
        self.attr_lists = attr_lists  # self.<attr> -> atom
        self.log = log  # threshold comparisons: dicts
        self.depth = depth
        self.returns: list[AV] = []
        self.guards: list[tuple[ast.AST, Optional[bool]]] = []
        self.yields: list[dict] = []
        self.self_attrs = self_attrs or {}

    # ---------------------------------------------------------------- values
    def sign(self, v: AV) -> Optional[int]:
        """+1 if certainly > 0, 0 if certainly == 0, None otherwise."""
        f = as_int(v)
        if f is None:
            return None
        f = form_subst_zero(f, self.zero)
        if not f:
            return 0
        if all(c > 0 for _, c in f) and any(k == "" or k in self.pos for k, _ in f):
            return 1
        return None

    def is_threshold(self, e: ast.AST) -> bool:
        return isinstance(e, ast.Attribute) and e.attr in THRESHOLD_ATTRS

    def ev(self, e: ast.AST) -> AV:
        if isinstance(e, ast.Constant):
            if isinstance(e.value, bool) or e.value is None or isinstance(e.value, str):
                return OTHER
            if isinstance(e.value, (int, float)):
                if float(e.value) == 1.0:
                    return ONE if isinstance(e.value, float) else INT(form_const(1), "1")
                if float(e.value) == int(e.value):
                    return INT(form_const(int(e.value)), repr(float(e.value)))
                return ROUNDED(f"constant {e.value!r}", repr(e.value))
        if isinstance(e, ast.Name):
            return self.env.get(e.id, OTHER)
        if isinstance(e, ast.Attribute):
            a = self_attr(e)
            if a is not None:
                if a in self.self_attrs:
                    return self.self_attrs[a]
                if a in self.attr_lists:
                    return LIST(form(**{self.attr_lists[a]: 1}))
                v = self.init_attr(a)
                if v is not None:
                    return v
                return OTHER
            base = self.ev(e.value)
            if base.kind == "genret" and e.attr == "return_value":
                return base.items[0]
            return OTHER
        if isinstance(e, ast.Tuple):
            return TUP([self.ev(x) for x in e.elts])
        if isinstance(e, ast.BinOp):
            l, r = self.ev(e.left), self.ev(e.right)
            if l.kind in ("other", "list") or r.kind in ("other", "list"):
                return OTHER
            if isinstance(e.op, ast.Add):
                return add(l, r, self.zero)
            if isinstance(e.op, ast.Mult):
                return mul(l, r, self.zero)
            if isinstance(e.op, ast.Div):
                return div(l, r, self.zero)
            if isinstance(e.op, ast.Sub):
                fl, fr = as_int(l), as_int(r)
                if fl is not None and fr is not None:
                    return INT(form_subst_zero(form_add(fl, fr, -1), self.zero), f"({l.expr} - {r.expr})")
                if l.kind == "rounded" or r.kind == "rounded":
                    return ROUNDED("difference with an inexact value", f"({l.expr} - {r.expr})")
            return UNKNOWN(f"operator in {short(e)}")
        if isinstance(e, ast.Call):
            return self.call(e)
        if isinstance(e, ast.YieldFrom):
            v = self.ev(e.value)
            return v
        if isinstance(e, ast.Await):
            return self.ev(e.value)
        if isinstance(e, ast.IfExp):
            d = self.truth(e.test)
            if d is True:
                return self.ev(e.body)
            if d is False:
                return self.ev(e.orelse)
            a, b = self.ev(e.body), self.ev(e.orelse)
            return a if a == b else UNKNOWN(f"undecided conditional {short(e)}")
        if isinstance(e, (ast.Compare, ast.BoolOp, ast.UnaryOp)):
            return OTHER
        if isinstance(e, (ast.List, ast.Dict, ast.Set, ast.ListComp, ast.JoinedStr, ast.Subscript, ast.Starred, ast.Lambda, ast.GeneratorExp)):
            return OTHER
        return OTHER

    def init_attr(self, attr: str) -> Optional[AV]:
        """Value of a numeric attribute that the constructor computes once from the constraint lists
        (`self._n = len(constraints)`, `self._n = len(self._hard) + ...`)."""
        cls = self.fn.cls
        if cls is None or self.depth > 4:
            return None
        init = cls.lookup("__init__")
        if init is None:
            return None
        defs = [n for n in ast.walk(init.node) if isinstance(n, (ast.Assign, ast.AnnAssign)) and n.value is not None
                and any(self_attr(t) == attr for t in (n.targets if isinstance(n, ast.Assign) else [n.target]))]
        others = [m for c in cls.mro() for m in c.methods.values() if m is not init and any(
            isinstance(n, (ast.Assign, ast.AugAssign)) and any(self_attr(t) == attr for t in (n.targets if isinstance(n, ast.Assign) else [n.target])) for n in ast.walk(m.node))]
        if len(defs) != 1 or others:
            return None
        v = defs[0].value
        if not any(isinstance(x, ast.Call) and isinstance(x.func, ast.Name) and x.func.id == "len" for x in ast.walk(v)):
            return None
        params = [p for p in init.params() if p != "self"]
        env: dict[str, AV] = {}
        for p_ in params:
            if "constraint" in p_:
                # all constraints handed to the constructor: h + r + s if the classification is a partition
                st = CLASSIFICATION[0]
                if st == "partition":
                    env[p_] = LIST(form(h=1, r=1, s=1))
                else:
                    env[p_] = LIST(form(n_all=1))
        sub = Interp(self.eng, init, env, self.pos | {"n_all"}, self.zero, self.attr_lists, [], self.depth + 1, self.self_attrs)
        return sub.ev(v)

    def call(self, c: ast.Call) -> AV:
        f = c.func
        if isinstance(f, ast.Name):
            if f.id == "len" and len(c.args) == 1:
                v = self.ev(c.args[0])
                if v.kind == "list":
                    return INT(v.form)
                return OTHER
            if f.id == "sum" and len(c.args) == 1:
                g = c.args[0]
                if isinstance(g, (ast.GeneratorExp, ast.ListComp)) and len(g.generators) == 1 and not g.generators[0].ifs and isinstance(g.generators[0].target, ast.Name):
                    # sum(<elt> for x in <list>): interpret <elt> with x bound to an element of the list
                    it_ = self.ev(g.generators[0].iter)
                    if it_.kind == "list":
                        saved = self.env.get(g.generators[0].target.id)
                        self.env[g.generators[0].target.id] = ONE if it_.why == "all_one" else OTHER
                        elt = self.ev(g.elt)
                        if saved is None:
                            self.env.pop(g.generators[0].target.id, None)
                        else:
                            self.env[g.generators[0].target.id] = saved
                        if elt.kind == "one":
                            return INT(it_.form)
                        if elt.kind == "rounded":
                            return ROUNDED(f"a sum of {form_str(it_.form)} inexact terms ({elt.why})", f"sum({elt.expr} ...)")
                        if elt.kind == "unknown":
                            return elt
                    return OTHER
                v = self.ev(g)
                if v.kind == "list" and v.why == "all_one":
                    return INT(v.form)
                return OTHER
            if f.id in ("float", "int") and len(c.args) == 1:
                return self.ev(c.args[0])
            if f.id == "GeneratorWithReturn" and len(c.args) == 1:
                return AV("genret", items=(self.ev(c.args[0]),))
            # a helper function of the same module (`_average(self.values)`): interpret its body with the arguments bound
            target = self.eng.ix.resolve_name(self.eng.ix.modules[self.fn.module], f.id)
            if isinstance(target, FuncInfo) and target.cls is None and target.module.startswith("fandango."):
                return self.summary(target, c)
            return OTHER
        if isinstance(f, ast.Attribute):
            # self.m(...) / super().m(...)
            callee: Optional[FuncInfo] = None
            if isinstance(f.value, ast.Name) and f.value.id == "self" and self.fn.cls is not None:
                callee = self.fn.cls.lookup(f.attr)
            elif isinstance(f.value, ast.Call) and norm(f.value.func) == "super" and self.fn.cls is not None:
                for b in self.fn.cls.mro()[1:]:
                    if f.attr in b.methods:
                        callee = b.methods[f.attr]
                        break
            if callee is not None and callee.module in (EVAL_MOD, "fandango.constraints.fitness"):
                return self.summary(callee, c)
            recv = self.ev(f.value)
            if f.attr == "fitness":
                if recv.kind == "listelem":
                    return FITOBJ  # constraint.fitness(individual) - the per-constraint result
                if recv.kind == "fitobj":
                    return ONE  # hypothesis H
            return OTHER
        return OTHER

    def summary(self, callee: FuncInfo, call: ast.Call) -> AV:
        if self.depth > 6:
            return UNKNOWN("recursion")
        params = [p for p in callee.params() if p != "self"]
        env: dict[str, AV] = {}
        for p, a in zip(params, call.args):
            env[p] = self.ev(a)
        for k in call.keywords:
            if k.arg:
                env[k.arg] = self.ev(k.value)
        sub = Interp(self.eng, callee, env, self.pos, self.zero, self.attr_lists, self.log, self.depth + 1, self.self_attrs)
        sub.run()
        self.yields.extend(sub.yields)
        return sub.result()

    # --------------------------------------------------------------- control
    def truth(self, t: ast.AST) -> Optional[bool]:
        if isinstance(t, ast.BoolOp):
            vals = [self.truth(v) for v in t.values]
            if isinstance(t.op, ast.And):
                if any(v is False for v in vals):
                    return False
                return True if all(v is True for v in vals) else None
            if any(v is True for v in vals):
                return True
            return False if all(v is False for v in vals) else None
        if isinstance(t, ast.UnaryOp) and isinstance(t.op, ast.Not):
            v = self.truth(t.operand)
            return None if v is None else (not v)
        if isinstance(t, ast.Call):
            from .c02 import inline_predicate

            t2 = inline_predicate(self.fn.cls, t)
            if t2 is not t:
                return self.truth(t2)
        if isinstance(t, ast.Compare) and len(t.ops) == 1:
            l, op, r = t.left, t.ops[0], t.comparators[0]
            # threshold comparisons -------------------------------------------------
            if self.is_threshold(r) or self.is_threshold(l):
                val_e, flipped = (l, False) if self.is_threshold(r) else (r, True)
                v = self.ev(val_e)
                opn = type(op).__name__
                if flipped:
                    opn = {"Lt": "Gt", "Gt": "Lt", "LtE": "GtE", "GtE": "LtE"}.get(opn, opn)
                rec = {"fn": self.fn, "node": t, "value": v, "op": opn, "operand": short(val_e)}
                self.log.append(rec)
                if v.kind == "one":
                    return {"GtE": True, "Lt": False, "Gt": False, "LtE": True, "Eq": True, "NotEq": False}.get(opn)
                return None
            # membership in a memo / solution set: first time seen
            if isinstance(op, (ast.In, ast.NotIn)) and self_attr(r) is not None:
                return isinstance(op, ast.NotIn)
            lv, rv = self.ev(l), self.ev(r)
            if lv.kind == "one" and rv.kind == "one" and isinstance(op, ast.Eq):
                return True
            fl, fr = as_int(lv), as_int(rv)
            if fl is not None and fr is not None:
                d = INT(form_add(fl, fr, -1))
                s = self.sign(d)
                if s is not None:
                    if isinstance(op, ast.Gt):
                        return s > 0
                    if isinstance(op, ast.Eq):
                        return s == 0
                    if isinstance(op, ast.NotEq):
                        return s != 0
                    if isinstance(op, ast.GtE):
                        return True
                    if isinstance(op, ast.LtE):
                        return s == 0
                    if isinstance(op, ast.Lt):
                        return False
            return None
        v = self.ev(t)
        if v.kind == "list":
            s = self.sign(INT(v.form))
            return None if s is None else s > 0
        if v.kind in ("int",):
            s = self.sign(v)
            return None if s is None else s > 0
        return None

    def assign(self, target: ast.AST, v: AV) -> None:
        if isinstance(target, ast.Name):
            self.env[target.id] = v
        elif isinstance(target, (ast.Tuple, ast.List)):
            if v.kind == "tup" and len(v.items) == len(target.elts):
                for t, x in zip(target.elts, v.items):
                    self.assign(t, x)
            else:
                for t in target.elts:
                    self.assign(t, UNKNOWN(f"unpacking of {v}") if v.kind == "unknown" else OTHER)

    def block(self, stmts: list[ast.stmt]) -> bool:
        """Returns False when the block always returns."""
        for st in stmts:
            if not self.stmt(st):
                return False
        return True

    def fork(self) -> "Interp":
        o = Interp(self.eng, self.fn, self.env, self.pos, self.zero, self.attr_lists, self.log, self.depth, self.self_attrs)
        o.returns = self.returns
        o.guards = list(self.guards)
        o.yields = self.yields
        return o

    def stmt(self, st: ast.stmt) -> bool:
        if isinstance(st, ast.Assign):
            v = self.ev(st.value)
            for t in st.targets:
                self.assign(t, v)
            return True
        if isinstance(st, ast.AnnAssign):
            if st.value is not None:
                self.assign(st.target, self.ev(st.value))
            return True
        if isinstance(st, ast.AugAssign):
            if isinstance(st.target, ast.Name):
                cur = self.env.get(st.target.id, OTHER)
                rhs = self.ev(st.value)
                if cur.kind in ("other", "list", "fitobj") or rhs.kind in ("other", "list", "fitobj"):
                    return True
                if isinstance(st.op, ast.Add):
                    self.env[st.target.id] = add(cur, rhs, self.zero)
                elif isinstance(st.op, ast.Div):
                    self.env[st.target.id] = div(cur, rhs, self.zero)
                elif isinstance(st.op, ast.Mult):
                    self.env[st.target.id] = mul(cur, rhs, self.zero)
                else:
                    self.env[st.target.id] = UNKNOWN(f"augmented operator in {short(st)}")
            return True
        if isinstance(st, ast.Return):
            self.returns.append(self.ev(st.value) if st.value is not None else OTHER)
            return False
        if isinstance(st, ast.Expr):
            if isinstance(st.value, ast.Yield):
                self.yields.append({"fn": self.fn, "node": st, "guards": list(self.guards)})
            else:
                self.ev(st.value)
            return True
        if isinstance(st, ast.If):
            d = self.truth(st.test)
            if d is True:
                self.guards.append((st.test, True))
                r = self.block(st.body)
                self.guards.pop()
                return r
            if d is False:
                return self.block(st.orelse)
            a, b = self.fork(), self.fork()
            a.guards.append((st.test, None))
            ra = a.block(st.body)
            rb = b.block(st.orelse)
            if ra and rb:
                keys = set(a.env) | set(b.env)
                for k in keys:
                    va, vb = a.env.get(k, OTHER), b.env.get(k, OTHER)
                    self.env[k] = va if va == vb else (UNKNOWN(f"{k} differs after {short(st.test, 50)}") if {va.kind, vb.kind} & {"one", "int", "rounded", "unknown"} else OTHER)
                return True
            if ra:
                self.env = a.env
                return True
            if rb:
                self.env = b.env
                return True
            return False
        if isinstance(st, ast.Try):
            r = self.block(st.body)  # the non-exceptional path (hypothesis H: evaluations do not raise)
            if r and st.orelse:
                r = self.block(st.orelse)
            if st.finalbody:
                r2 = self.block(st.finalbody)
                r = r and r2
            return r
        if isinstance(st, ast.For):
            return self.loop(st)
        if isinstance(st, ast.With):
            return self.block(st.body)
        if isinstance(st, (ast.Assert, ast.Pass, ast.Import, ast.ImportFrom, ast.Global, ast.Nonlocal, ast.Delete, ast.FunctionDef)):
            return True
        if isinstance(st, ast.Raise):
            return False
        if isinstance(st, ast.While):
            # no float accumulation through while-loops is understood
            for n in ast.walk(st):
                if isinstance(n, (ast.AugAssign, ast.Assign)):
                    for t in (n.targets if isinstance(n, ast.Assign) else [n.target]):
                        if isinstance(t, ast.Name) and self.env.get(t.id, OTHER).kind in ("one", "int", "rounded"):
                            self.env[t.id] = UNKNOWN("assigned in a while loop")
            return True
        return True

    def loop(self, st: ast.For) -> bool:
        it = self.ev(st.iter)
        if it.kind != "list":
            # a loop that does not touch tracked floats is skipped; otherwise unknown
            for n in ast.walk(st):
                if isinstance(n, (ast.AugAssign, ast.Assign)):
                    for t in (n.targets if isinstance(n, ast.Assign) else [n.target]):
                        if isinstance(t, ast.Name) and self.env.get(t.id, OTHER).kind in ("one", "int", "rounded"):
                            self.env[t.id] = UNKNOWN(f"assigned in a loop over {short(st.iter, 40)}")
            return True
        n_form = it.form
        s = self.sign(INT(n_form))
        if s == 0:
            return True
        # summarise: run the body once on a copy with the loop variable bound to an element
        body = self.fork()
        body.returns = []
        if isinstance(st.target, ast.Name):
            body.env[st.target.id] = AV("listelem")
        before = dict(self.env)
        for sub in ast.walk(st):
            if isinstance(sub, (ast.Break, ast.Continue)):
                # only acceptable after the accumulation; checked via the delta below being absent
                pass
        body.block(st.body)
        for k, v0 in before.items():
            v1 = body.env.get(k, OTHER)
            if v1 == v0:
                continue
            if v0.kind in ("one", "int") and v1.kind in ("one", "int"):
                f0, f1 = as_int(v0), as_int(v1)
                delta = form_add(f1, f0, -1)  # type: ignore[arg-type]
                dd = dict(delta)
                if set(dd) <= {""}:
                    c = dd.get("", 0)
                    # the accumulation must happen on every iteration: no break/continue/return
                    # and no branch may precede it inside the body
                    if not self._unconditional_accumulation(st, k):
                        self.env[k] = UNKNOWN(f"{k} is not accumulated on every iteration")
                        continue
                    tot = form_add(f0, tuple((a, cf * c) for a, cf in n_form))  # type: ignore[arg-type]
                    self.env[k] = INT(form_subst_zero(tot, self.zero), f"({v0.expr} + {c}*float({form_str(n_form)}))")
                    continue
            if v1.kind in ("one", "int", "rounded", "unknown") or v0.kind in ("one", "int", "rounded", "unknown"):
                self.env[k] = UNKNOWN(f"{k} changes in the loop in a way that is not a per-item sum") if v1.kind != "rounded" else ROUNDED(v1.why, v1.expr)
        # names first assigned in the loop keep OTHER
        return True

    def _unconditional_accumulation(self, loop: ast.For, name: str) -> bool:
        """`name += ...` occurs exactly once, in the body or in the body of a `try` directly in the
        body, and no continue/break/return precedes it."""
        def scan(stmts: list[ast.stmt]) -> Optional[bool]:
            for s in stmts:
                if isinstance(s, ast.AugAssign) and isinstance(s.target, ast.Name) and s.target.id == name:
                    return True
                if isinstance(s, ast.Try):
                    r = scan(s.body)
                    if r is not None:
                        return r
                    continue
                for x in ast.walk(s):
                    if isinstance(x, (ast.Continue, ast.Break, ast.Return)):
                        return False
                    if isinstance(x, (ast.AugAssign, ast.Assign)):
                        for t in (x.targets if isinstance(x, ast.Assign) else [x.target]):
                            if isinstance(t, ast.Name) and t.id == name:
                                return False
            return None
        return scan(loop.body) is True

    def run(self) -> None:
        fell = self.block(self.fn.node.body)  # type: ignore[attr-defined]
        if fell:
            self.returns.append(OTHER)

    def result(self) -> AV:
        rs = [r for r in self.returns]
        if not rs:
            return OTHER
        first = rs[0]
        if all(r == first for r in rs):
            return first
        # tuples: join component-wise
        if all(r.kind == "tup" and len(r.items) == len(first.items) for r in rs):
            out = []
            for i in range(len(first.items)):
                col = [r.items[i] for r in rs]
                out.append(col[0] if all(c == col[0] for c in col) else
                           (UNKNOWN("returns differ") if any(c.kind in ("one", "int", "rounded", "unknown") for c in col) else OTHER))
            return TUP(out)
        return UNKNOWN("returns differ")


CLASSIFICATION: list = ["unknown", "", 0]


def find_witness(expr: str, atoms: list[str], fixed: dict, bound: int = 12) -> Optional[dict]:
    """Concrete counts for which the abstract expression is not exactly 1.0 (replay file only)."""
    try:
        code = compile(expr, "<abstract-fitness>", "eval")
    except SyntaxError:
        return None
    wit = None
    count = 0
    for vals in itertools.product(range(1, bound), repeat=len(atoms)):
        env = {**fixed, **dict(zip(atoms, vals))}
        try:
            x = eval(code, {"__builtins__": {}, "float": float}, env)  # arithmetic on the abstract form only
        except (ZeroDivisionError, NameError):
            continue
        if x != 1.0:
            count += 1
            if wit is None:
                wit = {**dict(zip(atoms, vals)), "value": repr(x)}
    if wit is not None:
        wit["witnesses_below_bound"] = count
    return wit


def forwarded_yields(chk: Check, eng: Engine, rule: str) -> None:
    """The evaluator marks a tree as reported (`_solution_set`) at the moment it *yields* it; a later evaluation of the same tree yields
    nothing.  So whoever drives an evaluator generator must pass its yields on: `yield from <call>`, or
    `sols, ret = GeneratorWithReturn(<call>).collect()` with `sols` yielded / stored for a later yield.  A caller that only wants the return
    value and lets the yields go loses solutions for good (they were evaluated, scored 1.0 and are never reported)."""
    EVAL = {"evaluate_individual", "evaluate_population"}
    n = 0
    for f in eng.ix.all_functions:
        if not f.module.startswith(("fandango.evolution.algorithm", "fandango.evolution.population", "fandango.api")):
            continue
        # callables bound to an evaluator method by the callers (refill_population(eval_individual=...))
        evalish = set(EVAL) | {p_ for p_ in f.params() if p_.startswith("eval")}
        from ..core import parents_map, ancestors
        pm = None
        for c in walk_local(f.node):
            if not (isinstance(c, ast.Call) and ((isinstance(c.func, ast.Attribute) and c.func.attr in EVAL) or (isinstance(c.func, ast.Name) and c.func.id in evalish))):
                continue
            if pm is None:
                pm = parents_map(f.node)
            anc = ancestors(pm, c)
            if f.name == "_generate_io":
                # protocol mode: the evaluated tree is the history extended by a *received* packet - it is checked, not offered as a solution (C20 / R20-d)
                chk.ok(rule, f.fq, c.lineno, f"`{short(c, 50)}` (protocol mode: acceptance test of a received message, see R20-d)", nontrivial=False)
                continue
            n += 1
            if anc and isinstance(anc[0], ast.YieldFrom):
                chk.ok(rule, f.fq, c.lineno, f"`yield from {short(c, 50)}` forwards the evaluator's yields")
                continue
            # argument of another call: handing the generator (or the bound method) on, e.g. mutate(..., evaluate_func)
            wrapper = next((a for a in anc if isinstance(a, ast.Call) and call_name(a) == "GeneratorWithReturn"), None)
            if wrapper is None:
                passed = next((a for a in anc if isinstance(a, ast.Call) and a is not c), None)
                if passed is not None or f.is_generator() is False and any(isinstance(a, ast.Return) for a in anc):
                    chk.ok(rule, f.fq, c.lineno, f"`{short(c, 50)}` is handed on to `{short(passed, 40) if passed is not None else 'the caller'}`", nontrivial=False)
                    continue
                chk.bad(rule, eng.relfile(f), c.lineno, f.fq, f"`{short(c, 60)}` creates an evaluator generator that is neither forwarded with `yield from` nor collected",
                        "the evaluation may never run, or its solutions are never reported", keyparts=f"evaluator-not-driven|{f.name}")
                continue
            # GeneratorWithReturn(<call>): who takes the first component of .collect()?
            holder = None  # local name of the GeneratorWithReturn object, if stored first
            target = None  # name / attribute the list of yields is bound to
            for a in anc:
                if isinstance(a, ast.Assign):
                    if isinstance(a.value, ast.Call) and call_name(a.value) == "GeneratorWithReturn" and isinstance(a.targets[0], ast.Name):
                        holder = a.targets[0].id
                    elif isinstance(a.targets[0], ast.Tuple) and a.targets[0].elts:
                        target = a.targets[0].elts[0]
                    break
            if holder is not None:
                # `g = GeneratorWithReturn(call)` ... `g.collect()` / `x, y = g.collect()` / `for t in g`
                for a in walk_local(f.node):
                    if isinstance(a, ast.Assign) and isinstance(a.value, ast.Call) and isinstance(a.value.func, ast.Attribute) and a.value.func.attr == "collect" and norm(a.value.func.value) == holder \
                            and isinstance(a.targets[0], ast.Tuple):
                        target = a.targets[0].elts[0]
                    if isinstance(a, (ast.For, ast.YieldFrom)) and norm(getattr(a, "iter", getattr(a, "value", None))) == holder:
                        target = ast.Name(id=holder, ctx=ast.Load())
            used = False
            if target is not None and not (isinstance(target, ast.Name) and target.id.startswith("_")):
                tname = norm(target)
                for y in walk_local(f.node):
                    if isinstance(y, (ast.YieldFrom, ast.Yield)) and y.value is not None and tname in {norm(x) for x in ast.walk(y.value)}:
                        used = True
                    if isinstance(y, ast.Return) and y.value is not None and tname in {norm(x) for x in ast.walk(y.value)}:
                        used = True
                    if isinstance(y, ast.Call) and any(norm(x) == tname for a_ in y.args for x in ast.walk(a_)) and call_name(y) in ("extend", "append", "update", "add", "list", "next", "iter"):
                        used = True
                    if isinstance(y, ast.For) and norm(y.iter) == tname:
                        used = True
                if isinstance(target, ast.Attribute) and self_attr(target):
                    # stored on the object: some generator method of the class must yield it later
                    attr = self_attr(target)
                    used = any(isinstance(y, (ast.YieldFrom, ast.Yield)) and y.value is not None and any(self_attr(x) == attr for x in ast.walk(y.value))
                               for m in (f.cls.methods.values() if f.cls else []) for y in walk_local(m.node))
                    # ... or yields a local that was taken out of the buffer (`tree = self.buf.pop(0); yield tree`)
                    for m in (f.cls.methods.values() if f.cls else []):
                        taken: dict[str, int] = {}
                        for a_ in walk_local(m.node):
                            if isinstance(a_, ast.Assign) and any(self_attr(x) == attr for x in ast.walk(a_.value)):
                                for t_ in a_.targets:
                                    for x in ([t_] if isinstance(t_, ast.Name) else list(t_.elts) if isinstance(t_, (ast.Tuple, ast.List)) else []):
                                        if isinstance(x, ast.Name):
                                            taken.setdefault(x.id, a_.lineno)
                        if not taken:
                            continue
                        ys = [y for y in walk_local(m.node) if isinstance(y, (ast.YieldFrom, ast.Yield)) and y.value is not None
                              and any(isinstance(x, ast.Name) and x.id in taken for x in ast.walk(y.value))]
                        if ys:
                            used = True
                        # the whole buffer moved into a local and emptied *before* its contents are handed out: a consumer that stops early loses the rest
                        for y in ys:
                            if not isinstance(y, ast.YieldFrom):
                                continue
                            for e_ in walk_local(m.node):
                                emptied = (isinstance(e_, ast.Assign) and any(self_attr(x) == attr and isinstance(getattr(x, "ctx", None), ast.Store) for t_ in e_.targets for x in ast.walk(t_))) or \
                                          (isinstance(e_, ast.Call) and isinstance(e_.func, ast.Attribute) and e_.func.attr == "clear" and self_attr(e_.func.value) == attr)
                                if emptied and e_.lineno <= y.lineno:
                                    chk.bad(rule, eng.relfile(m), y.lineno, m.fq, f"`self.{attr}` is emptied (line {e_.lineno}) before `{short(y, 50)}` has handed out what it held",
                                            "the evaluator has already recorded these trees as reported; when the consumer stops before the delegated generator is exhausted "
                                            "(a `break`, `islice`, a desired number of solutions) the rest is gone for good: a later request never yields them",
                                            keyparts=f"buffer-emptied-before-handout|{attr}")
            lost = None
            if used and isinstance(target, ast.Name):
                lost = _collected_yields_can_be_lost(eng, f, c, target.id)
            elif used and isinstance(target, ast.Attribute) and self_attr(target) and f.cls is not None:
                lost = _buffer_flush_is_conditional(eng, f.cls, self_attr(target))
            if used and lost:
                chk.bad(rule, eng.relfile(f), c.lineno, f.fq, f"the trees `{short(c, 50)}` yields are collected in `{norm(target)}`, but {lost}",
                        "the evaluator has already recorded them as reported: on that path a tree that satisfies every constraint is never handed out as a solution",
                        keyparts=f"yields-lost-on-a-path|{f.name}|{norm(target)}")
            elif used:
                chk.ok(rule, f.fq, c.lineno, f"`{short(c, 40)}` is collected and its yields (`{norm(target)}`) are passed on")
            else:
                chk.bad(rule, eng.relfile(f), c.lineno, f.fq, f"the trees `{short(c, 50)}` yields are collected and dropped" + (f" (bound to `{norm(target)}`, never yielded)" if target is not None else ""),
                        "the evaluator has already recorded them as reported: a tree that satisfies every constraint - e.g. a freshly mutated individual evaluated here for the "
                        "first time - is never handed out as a solution", keyparts=f"yields-dropped|{f.name}")
    if n < 6:
        raise AnalysisError(f"only {n} evaluator call sites found in the search pipeline")


def _collected_yields_can_be_lost(eng: Engine, f: FuncInfo, call: ast.Call, name: str) -> Optional[str]:
    """Flow-sensitive part of R03-f for a local: from the statement that binds the collected yields there must be no way to the end of the
    function, to another binding of the same name or round the loop to the same statement that avoids every statement handing the list on."""
    cfg = eng.cfg(f)
    defs = [n.id for n in cfg.nodes if n.kind == "stmt" and isinstance(n.ast, ast.Assign) and any(isinstance(x, ast.Name) and x.id == name for t in n.ast.targets for x in ast.walk(t))]
    here = [d for d in defs if any(x is call for x in ast.walk(cfg.nodes[d].ast))]
    if not here:
        return None
    uses = []
    for n in cfg.nodes:
        if n.ast is None or n.id in defs:
            continue
        roots = [n.ast.test] if n.kind in ("if", "while") and hasattr(n.ast, "test") else [n.ast.iter] if n.kind == "for" and hasattr(n.ast, "iter") else [n.ast] if n.kind == "stmt" else []
        for r in roots:
            for y in ast.walk(r):
                if isinstance(y, (ast.YieldFrom, ast.Yield, ast.Return)) and y.value is not None and any(isinstance(x, ast.Name) and x.id == name for x in ast.walk(y.value)):
                    uses.append(n.id)
                if isinstance(y, ast.Call) and call_name(y) in ("extend", "append", "update", "add", "list", "next", "iter") and any(isinstance(x, ast.Name) and x.id == name for a_ in y.args for x in ast.walk(a_)):
                    uses.append(n.id)
            if n.kind == "for" and isinstance(getattr(n.ast, "iter", None), ast.Name) and n.ast.iter.id == name:
                uses.append(n.id)
    # a test that repeats a conjunct of the enclosing loop's condition, with nothing assigned to its variables in between, cannot fail
    infeasible = set()
    from ..core import parents_map, ancestors
    pm = parents_map(f.node)
    for n in cfg.nodes:
        if n.kind == "if" and isinstance(n.ast, ast.If):
            for a in ancestors(pm, n.ast):
                if isinstance(a, ast.While):
                    conj = a.test.values if isinstance(a.test, ast.BoolOp) and isinstance(a.test.op, ast.And) else [a.test]
                    if any(norm(c) == norm(n.ast.test) for c in conj):
                        names = {x.id for x in ast.walk(n.ast.test) if isinstance(x, ast.Name)}
                        assigned_before = any(isinstance(st, (ast.Assign, ast.AugAssign)) and st.lineno < n.ast.lineno and
                                              any(isinstance(x, ast.Name) and x.id in names for t in (st.targets if isinstance(st, ast.Assign) else [st.target]) for x in ast.walk(t))
                                              for st in ast.walk(a) if st is not n.ast)
                        if not assigned_before:
                            infeasible.add((n.id, "false"))
                            if not n.ast.orelse:
                                infeasible.add((n.id, "back"))  # the false edge of an if without else at the end of a loop body
                    break
    d = here[0]
    p = cfg.find_path(d, [cfg.exit] + defs, avoid=uses, ignore_edges=infeasible)
    if p is None:
        return None
    last = cfg.nodes[p[-1][0]]
    where = "the end of the function" if last.id == cfg.exit else f"line {last.line}, where `{name}` is bound again"
    via = next((cfg.nodes[i].line for i, lab in p if lab in ("false", "true") and cfg.nodes[i].kind == "stmt"), None)
    return f"there is a path to {where} on which they are not handed on" + (f" (through line {via})" if via else "")


def _buffer_flush_is_conditional(eng: Engine, cls: ClassInfo, attr: str) -> Optional[str]:
    """Yields stored on the object (`self._initial_solutions`) have to be handed out by the generator that runs the search, before anything else
    and on every path: the flush is a top-level statement at the head of that generator, or of a generator it delegates to unconditionally
    at its head.  (The protocol-mode generator is exempt, see R20-d.)"""
    def flushes(st: ast.stmt) -> bool:
        # yields the buffer (or an element of it) directly, or through a local taken out of it inside the same statement (`t = self.buf.pop(0); yield t`)
        taken = {t.id for a in ast.walk(st) if isinstance(a, ast.Assign) and any(self_attr(x) == attr for x in ast.walk(a.value)) for t in a.targets if isinstance(t, ast.Name)}
        return any(isinstance(y, (ast.Yield, ast.YieldFrom)) and y.value is not None
                   and any(self_attr(x) == attr or (isinstance(x, ast.Name) and x.id in taken) for x in ast.walk(y.value)) for y in ast.walk(st))

    def head_flush(m: FuncInfo, depth: int = 0) -> bool:
        for st in m.node.body:  # type: ignore[attr-defined]
            if isinstance(st, ast.Expr) and isinstance(st.value, ast.Constant):
                continue
            if flushes(st) and isinstance(st, (ast.While, ast.For, ast.Expr)) and not (isinstance(st, ast.While) and isinstance(st.test, ast.Constant)):
                return True
            if isinstance(st, ast.Expr) and isinstance(st.value, ast.YieldFrom) and isinstance(st.value.value, ast.Call) and self_attr(st.value.value.func) and depth < 3:
                g = cls.lookup(st.value.value.func.attr)
                if g is not None and head_flush(g, depth + 1):
                    return True
                continue
            if isinstance(st, (ast.Assign, ast.AnnAssign)) or (isinstance(st, ast.Expr) and isinstance(st.value, ast.Call) and "LOGGER" in norm(st.value.func)):
                continue
            return False
        return False

    runners = [m for m in cls.methods.values() if m.is_generator() and m.name != "_generate_io"
               and any(isinstance(w, ast.While) and isinstance(w.test, ast.Constant) and w.test.value is True for w in walk_local(m.node))]
    if not runners:
        return None
    for m in runners:
        if not head_flush(m):
            return f"the generator that runs the search ({m.qualname}) does not hand out `self.{attr}` unconditionally at its head"
    return None


def run(chk: Check, eng: Engine) -> None:
    chk.rule("R03-a", "under H (every per-constraint fitness() is 1.0, first evaluation, no soft constraints) the operand of "
             "every acceptance-threshold comparison in evaluate_individual is exactly 1.0 for all (h, r), and the comparison "
             "accepts equality", floor=4)
    chk.rule("R03-b", "Fitness.fitness() of the hard-constraint fitness classes is exactly 1.0 when solved == total / all values are 1.0", floor=2)
    chk.rule("R03-c", "code outside the evaluator compares the evaluator's fitness with the threshold unchanged", floor=1)
    chk.rule("R03-d", "a tree is recorded as reported only together with its yield; nobody else edits that record", floor=2)
    chk.rule("R03-e", "a comparison that holds scores exactly 1.0 (interval interpretation of the scoring helper)", floor=1)
    from . import common_fitness as _cf
    _sites, _lst = _cf.score_sites(eng, eng.cls("fandango.constraints.comparison", "ComparisonConstraint"))
    for _st in _sites:
        if _st.via == "literal":
            continue
        if _st.holding.iv == (1.0, 1.0) and not _st.holding.other and not _st.holding.none:
            chk.ok("R03-e", _st.fn.fq, _st.line, f"holding comparison scores exactly 1.0 via {_st.via}")
        else:
            chk.bad("R03-e", eng.relfile(_st.fn), _st.line, _st.fn.fq, f"when the comparison holds, the score from {_st.via} ranges over {_st.holding}, not exactly 1.0",
                    "a satisfied comparison is recorded as failing (verdict `all(score == 1.0)`): a tree satisfying every constraint is never reported", keyparts="holding-score-not-one")
    chk.rule("R03-f", "the trees an evaluator call yields (the solutions it reports) are forwarded by every caller of the search pipeline, never dropped", floor=6)
    forwarded_yields(chk, eng, "R03-f")
    chk.not_decided.append("that success of arbitrary user expressions coincides with fitness()==1.0 beyond the accumulator shapes of R02-c/R07-c")

    from .c02 import classification_status

    CLASSIFICATION[:] = list(classification_status(eng))
    ev_cls = eng.cls(EVAL_MOD, "Evaluator")
    # list-valued attributes of the evaluator, read from the constructor
    init = eng.method(ev_cls, "__init__")
    attr_lists: dict[str, str] = {}
    for n in ast.walk(init.node):
        if isinstance(n, ast.AnnAssign) and self_attr(n.target) and isinstance(n.value, ast.List):
            a = self_attr(n.target)
            assert a is not None
            if "constraint" in a:
                attr_lists[a] = {"_hard_constraints": "h", "_repetition_bounds_constraints": "r", "_soft_constraints": "s"}.get(a, a.strip("_"))
    if not {"h", "r", "s"} <= set(attr_lists.values()):
        raise AnalysisError(f"Evaluator.__init__ no longer declares the three constraint lists (found {attr_lists})")

    targets = [eng.method(ev_cls, "evaluate_individual")]
    io_cls = eng.ix.modules[EVAL_MOD].classes.get("IoEvaluator")
    for sub in ev_cls.all_subclasses():
        m = sub.methods.get("evaluate_individual")
        if m is not None:
            targets.append(m)

    cases = [({"h"}, {"r", "s"}), ({"r"}, {"h", "s"}), ({"h", "r"}, {"s"}), (set(), {"h", "r", "s"})]
    for fn in targets:
        file = eng.relfile(fn)
        for pos, zero in cases:
            log: list = []
            it = Interp(eng, fn, {"individual": OTHER}, (pos | {"n_all"}) if pos else pos, zero if pos else zero | {"n_all"}, attr_lists, log)
            it.run()
            case_s = ", ".join([f"{a}>0" for a in sorted(pos)] + [f"{a}=0" for a in sorted(zero)])
            if not it.yields:
                chk.bad("R03-a", file, fn.line, fn.fq, f"no `yield` is reached under H in case {case_s}",
                        "a tree that satisfies every constraint is not handed out on its first evaluation", keyparts=f"no-yield|{case_s}")
                continue
            if not log:
                raise AnalysisError(f"{fn.fq}: no comparison with the acceptance threshold found on the path to the yield")
            for rec in log:
                v: AV = rec["value"]
                node = rec["node"]
                where = rec["fn"]
                construct = f"{short(node)}  [operand {rec['operand']} = {v}]"
                if v.kind == "unknown":
                    raise AnalysisError(f"{where.fq}:{node.lineno}: exactness of `{rec['operand']}` is UNKNOWN ({v.why}) in case {case_s}")
                if v.kind == "rounded" and "n_all" in v.expr and CLASSIFICATION[0] == "lossy":
                    chk.bad("R03-a", eng.relfile(where), node.lineno, where.fq, construct,
                            "the fitness is normalised by the number of constraints handed to the constructor, but only the constraints that survive its "
                            f"classification are evaluated ({CLASSIFICATION[1]}); with a dropped constraint the sum can never reach the threshold and a "
                            "solvable spec is reported unsolved", keyparts="normaliser-counts-dropped-constraints")
                    continue
                if v.kind == "rounded" and "n_all" in v.expr:
                    raise AnalysisError(f"{where.fq}:{node.lineno}: the normaliser is the number of constructor arguments and the classification could not be proven a partition")
                if v.kind == "rounded":
                    wit = find_witness(v.expr, sorted(pos), {**{z: 0 for z in zero}, "k": 1}, 80 if len(pos) == 1 else 14)
                    chk.bad("R03-a", eng.relfile(where), node.lineno, where.fq, construct,
                            "with every constraint satisfied the value compared with the acceptance threshold is a rounded "
                            f"quotient ({v.why}); for some (h, r) it is < 1.0 and a solvable spec is reported unsolved",
                            keyparts=f"rounded-threshold-operand|{rec['operand']}",
                            abstract_expression=v.expr, case=case_s, concrete_witness=wit)
                    continue
                if v.kind != "one":
                    raise AnalysisError(f"{where.fq}:{node.lineno}: threshold operand has abstract value {v}")
                if rec["op"] not in ("GtE", "Lt"):
                    chk.bad("R03-a", eng.relfile(where), node.lineno, where.fq, construct,
                            f"the comparison `{rec['op']}` does not accept a fitness equal to the threshold (default 1.0)",
                            keyparts=f"threshold-operator|{rec['op']}")
                    continue
                chk.ok("R03-a", where.fq, node.lineno, f"case {case_s}: `{short(node, 70)}` operand = ONE, operator {rec['op']}")
            # every yield must be guarded only by decided-true tests or the first-seen membership
            for y in it.yields:
                undecided = [short(t, 60) for t, d in y["guards"] if d is None]
                if fn.cls is ev_cls and undecided and all(r["value"].kind == "one" for r in log):
                    chk.bad("R03-a", file, y["node"].lineno, fn.fq, f"yield guarded by {undecided}",
                            "acceptance of a fully satisfying tree depends on a condition that H does not decide",
                            keyparts="undecided-guard|" + "|".join(undecided))

    # R03-d -----------------------------------------------------------------
    # "the first time it is seen": a key enters the solution set only when the tree is handed out
    n_add = 0
    for c in ev_cls.family():
        for name, m in sorted(c.methods.items()):
            cfg = eng.cfg(m)
            adds = [n for n in cfg.nodes if n.kind == "stmt" and n.ast is not None and any(
                isinstance(x, ast.Call) and isinstance(x.func, ast.Attribute) and x.func.attr in ("add", "update") and self_attr(x.func.value) == "_solution_set" for x in ast.walk(n.ast))]
            ys = [n.id for n in cfg.nodes if n.kind == "stmt" and isinstance(n.ast, ast.Expr) and isinstance(n.ast.value, (ast.Yield, ast.YieldFrom))]
            for a in adds:
                n_add += 1
                p = cfg.find_path(a.id, [cfg.exit], avoid=ys, ignore=("exc-out", "raise-out", "abandon"))
                if p is None and ys:
                    chk.ok("R03-d", m.fq, a.line, f"`{a.text()}` is followed by a yield of the tree on every normal path")
                else:
                    chk.bad("R03-d", eng.relfile(m), a.line, m.fq, f"`{a.text()}` can record a tree as already reported without reporting it",
                            "a satisfying tree is marked as seen and is never handed out: a solvable spec yields no (or fewer) solutions",
                            path=cfg.describe_path(p) if p else [], keyparts=f"seen-without-yield|{name}")
    # other writers of the solution set: only clear() (start of a new message) is allowed
    for f in eng.ix.all_functions:
        for x in walk_local(f.node):
            if isinstance(x, ast.Call) and isinstance(x.func, ast.Attribute) and isinstance(x.func.value, ast.Attribute) and x.func.value.attr == "_solution_set" \
                    and x.func.attr not in ("add", "update", "clear", "__contains__") and x.func.attr in ("discard", "remove", "pop", "difference_update", "intersection_update"):
                chk.bad("R03-d", eng.relfile(f), x.lineno, f.fq, f"`{short(x)}` edits the set of reported solutions", "the 'first time it is seen' bookkeeping is altered", keyparts="solution-set-edit")
            if isinstance(x, (ast.Assign, ast.AugAssign)):
                for t in (x.targets if isinstance(x, ast.Assign) else [x.target]):
                    if isinstance(t, ast.Attribute) and t.attr == "_solution_set" and not (f.name == "__init__"):
                        chk.bad("R03-d", eng.relfile(f), x.lineno, f.fq, f"`{short(x)}` re-binds the set of reported solutions outside the constructor",
                                "trees are forgotten or pre-marked as reported", keyparts="solution-set-rebound")
    if n_add == 0:
        raise AnalysisError("no `_solution_set.add(...)` found in the evaluator family")

    # R03-b -----------------------------------------------------------------
    fit_mod = "fandango.constraints.fitness"
    base = eng.cls(fit_mod, "ConstraintFitness")
    for c in base.family():
        m = c.methods.get("fitness")
        if m is None:
            continue
        log = []
        k = form(k=1)
        it = Interp(eng, m, {}, {"k"}, set(), {}, log,
                    self_attrs={"solved": INT(k), "total": INT(k), "values": LIST(k, all_one=True)})
        it.run()
        # only the non-exceptional return of the try body counts (OverflowError path is integer division)
        res = it.returns[0] if it.returns else OTHER
        if res.kind == "one":
            chk.ok("R03-b", m.fq, m.line, "fitness() == ONE when solved == total = k > 0 / values = [1.0]*k")
        elif res.kind in ("unknown", "other"):
            raise AnalysisError(f"{m.fq}: the exactness interpreter does not understand what fitness() returns ({res.kind}: {res.why or 'construct outside its language'}); "
                                "it can neither confirm nor refute that a fully satisfied constraint scores exactly 1.0")
        else:
            chk.bad("R03-b", eng.relfile(m), m.line, m.fq, f"fitness() evaluates to {res} for a fully satisfied constraint",
                    "a satisfied constraint contributes less than 1.0, so the evaluator never reaches the threshold",
                    keyparts="fitness-not-one")

    # R03-c -----------------------------------------------------------------
    api = eng.module("fandango.api")
    n_cmp = 0
    for f in eng.ix.all_functions:
        if f.module in (EVAL_MOD,):
            continue
        for n in ast.walk(f.node):
            if isinstance(n, ast.Compare) and any(isinstance(x, ast.Attribute) and x.attr in THRESHOLD_ATTRS for x in [n.left] + n.comparators):
                n_cmp += 1
                other = n.left if not (isinstance(n.left, ast.Attribute) and n.left.attr in THRESHOLD_ATTRS) else n.comparators[0]
                # the other operand must be a plain read of an evaluator result (subscript/name), no arithmetic
                arith = [x for x in ast.walk(other) if isinstance(x, (ast.BinOp,))]
                opn = type(n.ops[0]).__name__
                if arith:
                    chk.bad("R03-c", eng.relfile(f), n.lineno, f.fq, short(n), "fitness is re-scaled before it is compared with the threshold",
                            keyparts="arith|" + short(other))
                elif opn not in ("Lt", "GtE"):
                    chk.bad("R03-c", eng.relfile(f), n.lineno, f.fq, short(n), f"`{opn}` does not accept a fitness equal to the threshold",
                            keyparts="op|" + opn)
                else:
                    chk.ok("R03-c", f.fq, n.lineno, f"`{short(n, 80)}` compares the evaluator's value unchanged ({opn})")
    if n_cmp == 0:
        chk.ok("R03-c", "fandango.*", 0, "no threshold comparison outside the evaluator", nontrivial=False)


# ------------------------------------------------------------------ self-test variants
from ..mutants import M  # noqa: E402

_EV = "src/fandango/evolution/evaluation.py"
_FT = "src/fandango/constraints/fitness.py"
_CMP = "src/fandango/constraints/comparison.py"
MUTANTS = [
    M("initial-solutions-moved-out-before-the-hand-out", "src/fandango/evolution/algorithm.py", '        while self._initial_solutions:\n            yield self._initial_solutions.pop(0)\n', '        initial_solutions, self._initial_solutions = self._initial_solutions, []\n        yield from initial_solutions\n', "R03-f"),
    M("seed-solutions-flushed-only-when-refilling", "src/fandango/evolution/algorithm.py", "        while self._initial_solutions:\n            yield self._initial_solutions.pop(0)\n\n        if len(self.population) < self.population_size:\n            yield from self.generate_initial_population()\n",
      "        if len(self.population) < self.population_size:\n            while self._initial_solutions:\n                yield self._initial_solutions.pop(0)\n            yield from self.generate_initial_population()\n", "R03-f"),
    M("refill-reports-only-unique-candidates", "src/fandango/evolution/population.py", "                yield from found_solution\n                yield from new_found_solution\n                if not added:\n                    attempts += 1\n",
      "                if added:\n                    yield from found_solution\n                    yield from new_found_solution\n                else:\n                    attempts += 1\n", "R03-f"),
    M("fix-phase-drops-the-evaluators-yields", "src/fandango/evolution/algorithm.py", "                ) = yield from self.evaluator.evaluate_individual(ind)\n", "                ) = GeneratorWithReturn(self.evaluator.evaluate_individual(ind)).collect()[1]\n", "R03-f"),
    M("refill-forgets-first-evaluation", "src/fandango/evolution/population.py", "                yield from found_solution\n                yield from new_found_solution\n", "                yield from new_found_solution\n", "R03-f"),
    M("holding-comparison-scored-by-distance", _CMP, "        if self._operator.compare(left, right):\n            return 1.0, NopSuggestion()\n",
      "        if self._operator.compare(left, right) and self._operator == Comparison.EQUAL:\n            return 1.0, NopSuggestion()\n", "R03-e"),
    M("seen-before-threshold", _EV, "        if fitness >= self._expected_fitness and key not in self._solution_set:\n            self._solution_set.add(key)\n            yield individual\n",
      "        if key not in self._solution_set:\n            self._solution_set.add(key)\n            if fitness >= self._expected_fitness:\n                yield individual\n", "R03-d"),
    M("share-arithmetic-hard", _EV, "            fitness = fitness * len(self._hard_constraints)\n",
      "            fitness = fitness / total_constraint_count * len(self._hard_constraints) * total_constraint_count\n", "R03-a"),
    M("divide-before-weighting", _EV, "            fitness += rep_fitness * len(self._repetition_bounds_constraints)\n",
      "            fitness += rep_fitness / total_constraint_count * len(self._repetition_bounds_constraints) * total_constraint_count\n", "R03-a"),
    M("strict-threshold", _EV, "        if fitness >= self._expected_fitness and key not in self._solution_set:",
      "        if fitness > self._expected_fitness and key not in self._solution_set:", "R03-a"),
    M("mean-with-epsilon", _EV, "        fitness /= len(constraints)\n        return (", "        fitness /= len(constraints) + 1e-09\n        return (", "R03-a"),
    M("io-wrapper-strict", _EV, "        if fitness < self._expected_fitness:\n            return fitness, failing_trees, suggestion",
      "        if fitness <= self._expected_fitness:\n            return fitness, failing_trees, suggestion", "R03-a"),
    M("constraint-fitness-smoothing", _FT, "            return self.solved / self.total\n", "            return self.solved / (self.total + 1)\n", "R03-b"),
    M("distance-fitness-scaled", _FT, "                return sum(self.values) / len(self.values)\n            except OverflowError:\n                # OverflowError: integer division result too large for a float\n                return sum(self.values) // len(self.values)\n        else:\n            return 0\n\n    def __copy__(self) -> Fitness:\n        return DistanceAwareConstraintFitness(",
      "                return sum(self.values) / len(self.values) * 0.999\n            except OverflowError:\n                # OverflowError: integer division result too large for a float\n                return sum(self.values) // len(self.values)\n        else:\n            return 0\n\n    def __copy__(self) -> Fitness:\n        return DistanceAwareConstraintFitness(", "R03-b"),
    M("api-rescales", "src/fandango/api.py", "                self.fandango.average_population_fitness\n                < self.fandango.evaluator.expected_fitness",
      "                self.fandango.average_population_fitness * 1.0001\n                < self.fandango.evaluator.expected_fitness", "R03-c"),
]
TWINS = [
    M("twin-initial-solution-popped-into-a-local", "src/fandango/evolution/algorithm.py", '        while self._initial_solutions:\n            yield self._initial_solutions.pop(0)\n', '        while self._initial_solutions:\n            solution = self._initial_solutions.pop(0)\n            yield solution\n', None),
    M("twin-average-extracted-into-helper", "src/fandango/constraints/fitness.py", "    def fitness(self) -> float:\n        \"\"\"\n        Calculates the fitness of the tree based on the values.\n        This is the same as `ValueFitness`.\n        \"\"\"\n        if self.values:\n            try:\n                return sum(self.values) / len(self.values)\n            except OverflowError:\n                # OverflowError: integer division result too large for a float\n                return sum(self.values) // len(self.values)\n        else:\n            return 0\n",
      "    def fitness(self) -> float:\n        return _average_of(self.values)\n", None,
      more=(("class Fitness(abc.ABC):", "def _average_of(values):\n    if not values:\n        return 0\n    try:\n        return sum(values) / len(values)\n    except OverflowError:\n        return sum(values) // len(values)\n\n\nclass Fitness(abc.ABC):"),)),
    M("twin-holding-score-rounds-to-one", _CMP, "            return 1.0, NopSuggestion()\n", "            return 1.0 - 1e-17, NopSuggestion()\n", None),
    M("twin-extract-acceptance-predicate", _EV, "        if fitness >= self._expected_fitness and key not in self._solution_set:\n            self._solution_set.add(key)\n            yield individual\n",
      "        if self._reaches_threshold(fitness) and key not in self._solution_set:\n            self._solution_set.add(key)\n            yield individual\n", None,
      more=(("    def evaluate_population(self, population: list[DerivationTree]) -> Generator[\n        DerivationTree,\n        None,\n        list[tuple[DerivationTree, float, list[FailingTree], Suggestion]],\n    ]:\n        evaluation = []",
             "    def _reaches_threshold(self, value: float) -> bool:\n        return value >= self._expected_fitness\n\n    def evaluate_population(self, population: list[DerivationTree]) -> Generator[\n        DerivationTree,\n        None,\n        list[tuple[DerivationTree, float, list[FailingTree], Suggestion]],\n    ]:\n        evaluation = []"),)),
    M("twin-rename-total", _EV, "total_constraint_count", "n_constraints", None, count=4),
    M("twin-reorder-sum", _EV, "            len(self._hard_constraints)\n            + len(self._repetition_bounds_constraints)\n            + len(self._soft_constraints)",
      "            len(self._soft_constraints)\n            + len(self._hard_constraints)\n            + len(self._repetition_bounds_constraints)", None),
    M("twin-augassign", _EV, "            fitness = fitness / total_constraint_count\n", "            fitness /= total_constraint_count\n", None),
]
