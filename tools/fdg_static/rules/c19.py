"""C19 - protocol forecasting offers exactly the grammar's continuations (structural clauses only).

Whether the *set of options* equals the set of continuations of the message language is a value-level equivalence and is
not decided here.  What is decided are the shape conditions without which the walk over a partial derivation cannot be
right for every history:

R19-a  exhaustiveness: ContinuingNodeVisitor overrides the visit method of every node class a protocol grammar can contain
       (the base class's defaults silently skip the control-flow bookkeeping).
R19-b  bracket discipline: in every visit method the two walk stacks (`current_tree`, `current_path`) are balanced on every
       normal path that returns a value the caller continues with - every on_enter_controlflow / append is matched by
       on_leave_controlflow / pop, loop bodies are neutral.  (A `return False` may leave frames behind: the exploration is over and
       nothing below the top of the stacks is read again; confirmed by comparing forecasts - see notes/c19_mutant_triage.md.)
R19-c  exploration covers all alternatives: when no history constrains an Alternative, every alternative is visited
       (no break / return in the loop, no short-circuit in front of the visit) and the results are or-ed.
R19-d  repetition bounds: another round is offered exactly while count < max, the repetition may be left exactly when
       count >= min; min and max come from node.min / node.max or from the bounds constraint's min() / max() respectively.
R19-e  option collection: a message nonterminal becomes an option only while exploring and ends the exploration of that
       branch; while following the history it is stepped over.
R19-f  predict() unites the forecasts of *all* partial derivations of the history and reports completion only for complete ones.
"""

from __future__ import annotations

import ast
from typing import Optional

from ..core import AnalysisError, call_name, norm, self_attr, short, walk_local
from ..engine import Engine
from ..report import Check
from .. import cppmini as cm

NAV = "fandango.io.navigation"
STACKS = ("current_tree", "current_path")


def stack_effect(st: ast.AST) -> tuple[dict[str, int], dict[str, str], dict[str, str]]:
    """(delta per stack, snapshots taken {local: stack}, restores {stack: local}) of one statement (no nested statements)."""
    delta = {s: 0 for s in STACKS}
    snaps: dict[str, str] = {}
    restores: dict[str, str] = {}
    for n in ast.walk(st):
        if isinstance(n, ast.Call) and isinstance(n.func, ast.Attribute):
            recv = self_attr(n.func.value)
            if recv in STACKS and n.func.attr == "append":
                delta[recv] += 1
            elif recv in STACKS and n.func.attr == "pop":
                delta[recv] -= 1
            elif self_attr(n.func) == "on_enter_controlflow":
                for s in STACKS:
                    delta[s] += 1
            elif self_attr(n.func) == "on_leave_controlflow":
                for s in STACKS:
                    delta[s] -= 1
    if isinstance(st, ast.Assign) and len(st.targets) == 1:
        t, v = st.targets[0], st.value
        if isinstance(t, ast.Name) and isinstance(v, ast.Call) and call_name(v) == "list" and v.args and self_attr(v.args[0]) in STACKS:
            snaps[t.id] = self_attr(v.args[0])  # type: ignore[assignment]
        if self_attr(t) in STACKS and isinstance(v, ast.Name):
            restores[self_attr(t)] = v.id  # type: ignore[index]
        if self_attr(t) in STACKS and isinstance(v, ast.List):
            restores[self_attr(t)] = f"#{len(v.elts)}"  # type: ignore[index]  # re-initialised with a literal of that many frames
    return delta, snaps, restores


def remove_while_iterating(chk: Check, eng: Engine, rule: str) -> None:
    """`for x in L: ... L.remove(x)` skips the element after every removal.  L may be named directly or be what an accessor returns
    (`node.children()` returning `self.nodes`): both are resolved; iterating over a copy (`list(L)`, `L[:]`, `tuple(L)`) is fine."""
    scope = ("fandango.language.grammar.node_visitors", NAV, "fandango.language.parse.slice_parties")
    n = 0

    def denotes(f, e: ast.AST) -> set[str]:
        """attribute paths (`node.nodes`) the expression may alias"""
        if isinstance(e, ast.Attribute):
            return {norm(e)}
        if isinstance(e, ast.Call) and isinstance(e.func, ast.Attribute) and not e.args:
            recv = e.func.value
            out = set()
            for t in eng.env(f).type_of(recv):
                modn, cn = t.split(":")
                k = eng.ix.modules[modn].classes.get(cn)
                fam = [k] + k.all_subclasses() if k is not None else []
                for kk in fam:
                    m = kk.lookup(e.func.attr)
                    if m is None:
                        continue
                    for r in walk_local(m.node):
                        if isinstance(r, ast.Return) and r.value is not None and self_attr(r.value):
                            out.add(f"{norm(recv)}.{self_attr(r.value)}")
            return out
        return set()

    for f in eng.ix.all_functions:
        if not f.module.startswith(scope):
            continue
        for lp in walk_local(f.node):
            if not isinstance(lp, ast.For):
                continue
            it = lp.iter
            copied = isinstance(it, ast.Call) and isinstance(it.func, ast.Name) and it.func.id in ("list", "tuple", "sorted", "reversed") or \
                (isinstance(it, ast.Subscript) and isinstance(it.slice, ast.Slice))
            removals = [c for c in ast.walk(lp) if isinstance(c, ast.Call) and isinstance(c.func, ast.Attribute) and c.func.attr in ("remove", "pop", "insert") and isinstance(c.func.value, ast.Attribute)]
            # removal through a module-level helper that deletes from the list it is given (`_remove_node(node.nodes, child)`)
            helper_removals = []
            for c in ast.walk(lp):
                if isinstance(c, ast.Call) and isinstance(c.func, ast.Name) and c.args and isinstance(c.args[0], ast.Attribute):
                    h = eng.ix.modules[f.module].functions.get(c.func.id)
                    if h is not None and h.params() and any(isinstance(d, ast.Delete) and any(isinstance(t, ast.Subscript) and norm(t.value) == h.params()[0] for t in d.targets) or
                                                            (isinstance(d, ast.Call) and isinstance(d.func, ast.Attribute) and d.func.attr in ("remove", "pop") and norm(d.func.value) == h.params()[0])
                                                            for d in ast.walk(h.node)):
                        helper_removals.append(c)
            if helper_removals:
                # same shape as a method call on the list: func.value is the list expression
                removals += [ast.Call(func=ast.Attribute(value=c.args[0], attr="remove", ctx=ast.Load()), args=c.args[1:], keywords=[]) for c in helper_removals]
            if not removals:
                continue
            n += 1
            src = it.args[0] if copied and isinstance(it, ast.Call) and it.args else (it.value if copied and isinstance(it, ast.Subscript) else it)
            aliases = denotes(f, src)
            hit = [c for c in removals if norm(c.func.value) in aliases]
            if hit and not copied:
                chk.bad(rule, eng.relfile(f), lp.lineno, f.fq, f"`for {norm(lp.target)} in {short(it, 40)}` iterates the list that `{short(hit[0], 40)}` shrinks",
                        "after each removal the iterator skips the next element: of two adjacent elements that must both be sliced away the second survives - the sliced grammar "
                        "keeps a message of an excluded party, which the forecaster then offers", keyparts=f"remove-while-iterating|{norm(hit[0].func.value)}")
            else:
                chk.ok(rule, f.fq, lp.lineno, f"`for {norm(lp.target)} in {short(it, 40)}`: removals go to {sorted({norm(c.func.value) for c in removals})}, the loop runs over a copy" if copied else
                       f"`for {norm(lp.target)} in {short(it, 40)}`: the list being shrunk is not the one iterated")
    if n < 2:
        raise AnalysisError(f"only {n} loop(s) that remove from a node list found in the slicing / navigation code")


def run(chk: Check, eng: Engine) -> None:
    chk.rule("R19-a", "ContinuingNodeVisitor overrides the visit method of every node class a protocol grammar can contain", floor=6)
    chk.rule("R19-b", "the walk stacks are balanced on every path of every visit method whose result the caller continues with (no over-pop on any path)", floor=8)
    chk.rule("R19-c", "an unconstrained Alternative explores every alternative and ors the results", floor=1)
    chk.rule("R19-d", "a repetition offers another round exactly while count < max and may be left exactly when count >= min", floor=3)
    chk.rule("R19-e", "a message nonterminal is offered only while exploring and ends that branch; while following the history it is stepped over", floor=2)
    chk.rule("R19-f", "predict() unites the forecasts of all partial derivations of the history; completion only for complete derivations", floor=2)
    chk.not_decided += ["that the offered options equal the continuations of the message language (value-level equivalence)",
                        "the prefix parse of the abstracted history (PacketIterativeParser), party slicing, message truncation"]

    cnv = eng.cls(f"{NAV}.visitor.continuing_nodevisitor", "ContinuingNodeVisitor")
    base = eng.cls("fandango.language.grammar.node_visitors.node_visitor", "NodeVisitor")
    node_base = eng.cls("fandango.language.grammar.nodes.node", "Node")

    # ---- R19-a ---------------------------------------------------------------
    targets: dict[str, str] = {}
    for k in [node_base] + node_base.all_subclasses():
        acc = k.methods.get("accept")
        if acc is None:
            continue
        for c in walk_local(acc.node):
            if isinstance(c, ast.Call) and isinstance(c.func, ast.Attribute) and c.func.attr.startswith("visit") and isinstance(c.func.value, ast.Name):
                targets[c.func.attr] = k.name
    if len(targets) < 6:
        raise AnalysisError(f"only {len(targets)} accept() dispatch targets found")
    NOT_IN_PROTOCOL_GRAMMARS = {"visitCharSet": "CharSet nodes exist only inside regex-derived character classes, below terminals, which the forecaster never enters "
                                                "(a terminal ends the walk with an error)"}
    own = {n for k in cnv.mro() if k is not base and not k.fq.endswith(":NodeVisitor") for n in k.methods}
    for vm, ncls in sorted(targets.items()):
        if vm in own:
            chk.ok("R19-a", cnv.fq, cnv.methods[vm].line if vm in cnv.methods else 0, f"{ncls} -> {vm} is overridden")
        elif vm in NOT_IN_PROTOCOL_GRAMMARS:
            chk.ok("R19-a", cnv.fq, 0, f"{ncls} -> {vm} not overridden: {NOT_IN_PROTOCOL_GRAMMARS[vm]}", nontrivial=False)
        else:
            chk.bad("R19-a", eng.relfile(cnv.methods["find"]), cnv.methods["find"].line, cnv.fq, f"{ncls}.accept dispatches to `{vm}`, which ContinuingNodeVisitor does not override",
                    "the base class's default visits the children without entering the control-flow node: the walk loses its position in the history and offers wrong or no continuations",
                    keyparts=f"not-overridden|{vm}")

    # ---- R19-b ---------------------------------------------------------------
    for name, m in sorted(cnv.methods.items()):
        if not (name.startswith("visit") or name in ("find",)):
            continue
        cfg = eng.cfg(m)
        # state: (delta_tree, delta_path); snapshots: local -> (stack, delta at snapshot)
        start = (0, 0, None)
        seen: dict[int, set[tuple]] = {}
        work = [(cfg.entry, start, ())]
        problems: list[tuple[int, str]] = []
        while work:
            nid, st, snaps = work.pop()
            key = (st, snaps)
            if key in seen.setdefault(nid, set()):
                continue
            if len(seen[nid]) > 6:
                problems.append((cfg.nodes[nid].line, f"the stack depth at `{cfg.nodes[nid].text()}` keeps changing around a loop"))
                continue
            seen[nid].add(key)
            node = cfg.nodes[nid]
            d = {s: 0 for s in STACKS}
            new_snaps = dict(snaps)
            cur = {"current_tree": st[0], "current_path": st[1]}
            if node.ast is not None and node.kind == "stmt":
                dd, sn, rs = stack_effect(node.ast)
                for s in STACKS:
                    cur[s] += dd[s]
                for loc, stack in sn.items():
                    new_snaps[loc] = (stack, cur[stack])
                for stack, loc in rs.items():
                    if loc.startswith("#"):
                        cur[stack] = int(loc[1:])
                    elif loc in new_snaps and new_snaps[loc][0] == stack:
                        cur[stack] = new_snaps[loc][1]
                    else:
                        problems.append((node.line, f"`{node.text()}` replaces the stack with something that is not a snapshot of it"))
            elif node.ast is not None and node.kind in ("if", "while"):
                dd, _, _ = stack_effect(node.ast.test)  # type: ignore[attr-defined]
                for s in STACKS:
                    cur[s] += dd[s]
            nst = (cur["current_tree"], cur["current_path"])
            retflag = st[2]
            if node.kind == "stmt" and isinstance(node.ast, ast.Return):
                v = node.ast.value
                retflag = "false" if isinstance(v, ast.Constant) and v.value is False else "other"
            if nid == cfg.exit:
                # `return False` ends the exploration: nobody reads the stacks below the top frame afterwards (callers only pop their own
                # frames or visit further alternatives in exploring mode, where the top frame must be None - which left-over exploring frames are);
                # so frames left *on* the stacks are harmless there, frames popped too many are not.
                if (retflag == "false" and (nst[0] < 0 or nst[1] < 0)) or (retflag != "false" and nst != (0, 0)):
                    problems.append((m.line, f"a path that returns {'False' if retflag == 'false' else 'a value the caller continues with'} leaves {name}() with current_tree {nst[0]:+d} / current_path {nst[1]:+d}"))
                continue
            nst = (nst[0], nst[1], retflag)
            for succ, lab in cfg.succ.get(nid, []):
                if lab in ("exc-out", "raise-out") or succ in (cfg.raise_exit, cfg.abandon_exit):
                    continue
                if lab == "exc":
                    # the handler sees the stacks as they are; it must restore them itself (checked through the restores above)
                    work.append((succ, nst, tuple(sorted(new_snaps.items()))))
                    continue
                work.append((succ, nst, tuple(sorted(new_snaps.items()))))
        if problems:
            ln, what = problems[0]
            chk.bad("R19-b", eng.relfile(m), ln, m.fq, what,
                    "the position stacks no longer describe where the walk is: every option collected afterwards gets a wrong mounting path, or the walk reads the wrong part of the history",
                    keyparts=f"unbalanced|{name}")
        else:
            chk.ok("R19-b", m.fq, m.line, f"{name}(): current_tree / current_path are balanced on every normal path ({sum(len(v) for v in seen.values())} states explored)")
    va = eng.method(cnv, "visitAlternative", inherited=False)

    # ---- R19-c ---------------------------------------------------------------
    explore_loops = [f for f in walk_local(va.node) if isinstance(f, ast.For) and norm(f.iter).endswith(".alternatives")
                     and not any(isinstance(x, ast.Try) for x in ast.walk(f))]
    if len(explore_loops) != 1:
        raise AnalysisError(f"visitAlternative: exploring loop over the alternatives not recognised ({len(explore_loops)} candidates)")
    el = explore_loops[0]
    early = [x for x in ast.walk(el) if isinstance(x, (ast.Break, ast.Return))]
    visits = [c for c in ast.walk(el) if isinstance(c, ast.Call) and self_attr(c.func) == "visit"]
    acc_ok = False
    short_circuit = False
    for x in ast.walk(el):
        if isinstance(x, ast.AugAssign) and isinstance(x.op, ast.BitOr) and any(v in ast.walk(x.value) for v in visits):
            acc_ok = True
        if isinstance(x, ast.Assign) and isinstance(x.value, ast.BoolOp) and isinstance(x.value.op, ast.Or):
            vals = x.value.values
            first_has_visit = any(v in ast.walk(vals[0]) for v in visits)
            later_has_visit = any(v in ast.walk(w) for w in vals[1:] for v in visits)
            if first_has_visit and not later_has_visit:
                acc_ok = True
            elif later_has_visit:
                short_circuit = True
    if early or short_circuit or not acc_ok or not visits:
        what = "leaves the loop early" if early else "puts the visit behind a short-circuit `or`" if short_circuit else "does not or the results of the visits"
        chk.bad("R19-c", eng.relfile(va), el.lineno, va.fq, f"the exploring loop over the alternatives {what}",
                "continuations that start in a later alternative are never offered (or the walk stops although an alternative can be empty)", keyparts="explore-all")
    else:
        chk.ok("R19-c", va.fq, el.lineno, "every alternative is visited and the results are or-ed")

    # ---- R19-d ---------------------------------------------------------------
    vr = eng.method(cnv, "visitRepetitionType", inherited=False)
    lists: set[str] = set()
    conds = [("if", cm._truth(cm.canon_py(n.test, lists), lists), n) for n in walk_local(vr.node) if isinstance(n, ast.If)]

    def mentions(c, name: str) -> bool:
        if isinstance(c, tuple):
            if c == ("name", name):
                return True
            return any(mentions(x, name) for x in c)
        return False

    cnt = None
    for a in walk_local(vr.node):
        if isinstance(a, ast.Assign) and isinstance(a.value, ast.Call) and call_name(a.value) == "len" and isinstance(a.targets[0], ast.Name):
            cnt = cm.fold(a.targets[0].id)
    if cnt is None:
        raise AnalysisError("visitRepetitionType: the count of rounds present in the history (len(tree)) was not found")
    max_tests = [(c, n) for _, c, n in conds if mentions(c, "repmax")]
    min_tests = [(c, n) for _, c, n in conds if mentions(c, "repmin")]
    if not max_tests or not min_tests:
        raise AnalysisError("visitRepetitionType: tests against rep_max / rep_min not found")
    want_max = ("cmp", "<", ("name", cnt), ("name", "repmax"))
    want_min = ("cmp", "<=", ("name", "repmin"), ("name", cnt))
    for c, n in max_tests:
        parts = list(c[1]) if c[0] == "and" else [c]
        if want_max in parts:
            chk.ok("R19-d", vr.fq, n.lineno, f"another round is offered under `{cm.show(c)}`")
        else:
            chk.bad("R19-d", eng.relfile(vr), n.lineno, vr.fq, f"another round is offered under `{cm.show(c)}`, not under count < max",
                    "after the last allowed repetition one more message of the repeated kind is offered (or the last allowed one is withheld)", keyparts="rep-max-test")
    for c, n in min_tests:
        parts = list(c[1]) if c[0] == "and" else [c]
        if want_min in parts:
            chk.ok("R19-d", vr.fq, n.lineno, f"the repetition may be left under `{cm.show(c)}`")
        else:
            chk.bad("R19-d", eng.relfile(vr), n.lineno, vr.fq, f"the repetition may be left under `{cm.show(c)}`, not under count >= min",
                    "what follows the repetition is offered before the minimum is reached (or withheld once it is)", keyparts="rep-min-test")
    # provenance of the bounds
    prov_ok = True
    for a in walk_local(vr.node):
        if isinstance(a, ast.Assign):
            tn = [cm.fold(x.id) for t in a.targets for x in ast.walk(t) if isinstance(x, ast.Name)]
            src = norm(a.value)
            if "repmin" in tn and not (src.endswith(".min") or ".min(" in src):
                prov_ok = False
            if "repmax" in tn and not (src.endswith(".max") or ".max(" in src):
                prov_ok = False
    if prov_ok:
        chk.ok("R19-d", vr.fq, vr.line, "rep_min comes from .min / .min(...), rep_max from .max / .max(...)")
    else:
        chk.bad("R19-d", eng.relfile(vr), vr.line, vr.fq, "rep_min / rep_max are not taken from the node's (or the bounds constraint's) min and max respectively",
                "the bounds are swapped or replaced", keyparts="rep-bound-provenance")

    # ---- R19-g ---------------------------------------------------------------
    # the whole decision of visitRepetitionType, executed over small integers: rounds present n, bounds mn <= mx, and the results F / E of
    # following the last round present and of exploring one more round
    chk.rule("R19-g", "visitRepetitionType decides like its specification for all small (rounds present, min, max, follow result, explore result): an unfinished round ends the "
             "walk, one more round is explored exactly while rounds < max, what follows is reachable exactly when the rounds present suffice", floor=1)

    class _Ret(Exception):
        def __init__(self, v):
            self.v = v

    def run_rt(n: int, mn: int, mx: int, F: bool, E: bool):
        env = {"tree_len": 0, "rep_min": None, "rep_max": None, "continue_exploring": None}
        visits: list[str] = []

        def ev(e: ast.AST, in_follow: bool):
            if isinstance(e, ast.Constant):
                return e.value
            if isinstance(e, ast.Name):
                if e.id == "tree":
                    return ["round"] * n if n > 0 else None
                if e.id in env:
                    return env[e.id]
                raise AnalysisError(f"visitRepetitionType: unknown name `{e.id}` in a decision")
            if isinstance(e, ast.Attribute) and norm(e) == "node.min":
                return mn
            if isinstance(e, ast.Attribute) and norm(e) == "node.max":
                return mx
            if isinstance(e, ast.Attribute) and norm(e) == "node.bounds_constraint":
                return None
            if isinstance(e, ast.Call) and call_name(e) == "len" and e.args and norm(e.args[0]) == "tree":
                return n
            if isinstance(e, ast.Call) and self_attr(e.func) == "visit":
                visits.append("follow" if in_follow else "explore")
                return F if in_follow else E
            if isinstance(e, ast.UnaryOp) and isinstance(e.op, ast.Not):
                return not ev(e.operand, in_follow)
            if isinstance(e, ast.BoolOp):
                if isinstance(e.op, ast.And):
                    r = True
                    for v in e.values:
                        r = ev(v, in_follow)
                        if not r:
                            return r
                    return r
                r = False
                for v in e.values:
                    r = ev(v, in_follow)
                    if r:
                        return r
                return r
            if isinstance(e, ast.Compare) and len(e.ops) == 1:
                a, b = ev(e.left, in_follow), ev(e.comparators[0], in_follow)
                op = e.ops[0]
                if isinstance(op, ast.Is):
                    return a is b
                if isinstance(op, ast.IsNot):
                    return a is not b
                table = {ast.Lt: lambda: a < b, ast.LtE: lambda: a <= b, ast.Gt: lambda: a > b, ast.GtE: lambda: a >= b, ast.Eq: lambda: a == b, ast.NotEq: lambda: a != b}
                if type(op) in table:
                    return table[type(op)]()
            if isinstance(e, ast.BinOp) and isinstance(e.op, (ast.Add, ast.Sub)):
                a, b = ev(e.left, in_follow), ev(e.right, in_follow)
                return a + b if isinstance(e.op, ast.Add) else a - b
            raise AnalysisError(f"visitRepetitionType: `{short(e, 50)}` is outside the decision language understood by R19-g")

        def block(stmts, in_follow: bool):
            for st in stmts:
                if isinstance(st, ast.Return):
                    raise _Ret(ev(st.value, in_follow))
                if isinstance(st, ast.If):
                    t = ev(st.test, in_follow)
                    follow_branch = in_follow or ("tree" in {x.id for x in ast.walk(st.test) if isinstance(x, ast.Name)} and "rep_max" not in norm(st.test))
                    block(st.body if t else st.orelse, follow_branch if t else in_follow)
                elif isinstance(st, ast.Assign) and len(st.targets) == 1 and isinstance(st.targets[0], ast.Name) and st.targets[0].id in env:
                    env[st.targets[0].id] = ev(st.value, in_follow)
                elif isinstance(st, ast.Assign) and len(st.targets) == 1 and isinstance(st.targets[0], ast.Name) and st.targets[0].id == "tree":
                    pass
                elif isinstance(st, ast.Assign) and isinstance(st.targets[0], ast.Tuple):
                    pass  # bounds from the (absent) bounds constraint
                elif isinstance(st, (ast.Expr, ast.Assert, ast.For, ast.Pass)):
                    pass  # stack bookkeeping (R19-b) / dead bounds-constraint block
                else:
                    raise AnalysisError(f"visitRepetitionType: statement `{short(st, 50)}` is outside the decision language understood by R19-g")
        try:
            block(vr.node.body, False)  # type: ignore[attr-defined]
        except _Ret as r:
            return bool(r.v), visits
        return None, visits

    n_cases = 0
    bad_case = None
    for n_ in range(0, 4):
        for mn_ in range(0, 3):
            for mx_ in range(max(1, mn_), 4):
                for F_ in (True, False):
                    for E_ in (True, False):
                        n_cases += 1
                        got, visits = run_rt(n_, mn_, mx_, F_, E_)
                        unfinished = n_ > 0 and not F_
                        should_explore = (not unfinished) and n_ < mx_
                        want = False if unfinished else (True if (should_explore and E_) else n_ >= mn_)
                        if n_ == 0 and "follow" in visits or (n_ > 0 and visits[:1] != ["follow"]):
                            bad_case = bad_case or ((n_, mn_, mx_, F_, E_), f"the last round present is {'followed although there is none' if n_ == 0 else 'not followed first'}")
                        elif ("explore" in visits) != should_explore:
                            bad_case = bad_case or ((n_, mn_, mx_, F_, E_), f"one more round is {'explored' if 'explore' in visits else 'not explored'} (expected: {'explored' if should_explore else 'not explored'})")
                        elif got != want:
                            bad_case = bad_case or ((n_, mn_, mx_, F_, E_), f"returns {got}, expected {want}")
    if bad_case is None:
        chk.ok("R19-g", vr.fq, vr.line, f"visitRepetitionType agrees with its specification in all {n_cases} cases (rounds present 0..3, min 0..2, max 1..3, follow / explore results)")
    else:
        (n_, mn_, mx_, F_, E_), what = bad_case
        chk.bad("R19-g", eng.relfile(vr), vr.line, vr.fq, f"with {n_} round(s) present, bounds {{{mn_},{mx_}}}, last round {'complete' if F_ else 'unfinished'}, a further round "
                f"{'can be empty' if E_ else 'offers messages'}: {what}",
                "for such a history the forecaster offers a message that cannot come next (or withholds one that can)", keyparts="repetition-truth-table")

    # ---- R19-h ---------------------------------------------------------------
    # contradiction rule: a guard that leaves (continue / return / raise) unless a sequence is EMPTY, followed by an index into that sequence
    chk.rule("R19-h", "the navigation code never indexes a sequence on a path where the guard just before established that it is empty", floor=1)

    def known_empty_after(test: ast.AST) -> set[str]:
        out: set[str] = set()
        parts = test.values if isinstance(test, ast.BoolOp) and isinstance(test.op, ast.Or) else [test]
        for p_ in parts:
            if isinstance(p_, ast.Compare) and len(p_.ops) == 1 and isinstance(p_.left, ast.Call) and norm(p_.left.func) == "len" and p_.left.args \
                    and isinstance(p_.comparators[0], ast.Constant) and p_.comparators[0].value == 0 and isinstance(p_.ops[0], (ast.NotEq, ast.Gt)):
                out.add(norm(p_.left.args[0]))
        return out

    def empty_index_sites(fn_node: ast.AST) -> tuple[int, list[tuple[int, str, str]]]:
        guards = 0
        sites = []
        for n in ast.walk(fn_node):
            for blk in (getattr(n, "body", None), getattr(n, "orelse", None)):
                if not isinstance(blk, list):
                    continue
                for i, st in enumerate(blk):
                    if isinstance(st, ast.If) and st.body and isinstance(st.body[-1], (ast.Continue, ast.Return, ast.Raise, ast.Break)) and not st.orelse:
                        emp = known_empty_after(st.test)
                        # count every early-exit guard over a length as an instance of the rule
                        if any(isinstance(x, ast.Call) and norm(x.func) == "len" for x in ast.walk(st.test)):
                            guards += 1
                        if not emp:
                            continue
                        for later in blk[i + 1:]:
                            rebound = False
                            for x in ast.walk(later):
                                if isinstance(x, ast.Subscript) and norm(x.value) in emp and isinstance(x.ctx, ast.Load):
                                    sites.append((x.lineno, norm(st.test), norm(x)))
                                if isinstance(x, (ast.Assign, ast.AugAssign)) and any(norm(t_) in emp for t_ in (x.targets if isinstance(x, ast.Assign) else [x.target])):
                                    rebound = True
                            if rebound:
                                break
        return guards, sites

    # the rule must be able to fire: a ten-line positive example, evaluated on every run
    _pos = ast.parse("def f(frames):\n    for fr in frames[::-1]:\n        if fr is None or len(fr) != 0:\n            continue\n        return fr[-1]\n")
    if not empty_index_sites(_pos)[1]:
        raise AnalysisError("R19-h: the embedded positive example no longer fires")
    n_guards = 0
    for f in eng.ix.all_functions:
        if not f.module.startswith(NAV):
            continue
        g_, sites = empty_index_sites(f.node)
        n_guards += g_
        for ln, test_txt, sub in sites:
            chk.bad("R19-h", eng.relfile(f), ln, f.fq, f"`{sub}` is evaluated only when `{test_txt}` was false - that is, when the sequence is empty",
                    "the walk raises (IndexError / a failed assertion) for every history that reaches this point: no forecast at all for protocols with a computed repetition",
                    keyparts=f"index-into-empty|{sub}")
    chk.ok("R19-h", NAV + ".*", 0, f"{n_guards} early-exit guard(s) over sequence lengths examined; none is followed by an index into a sequence it proved empty")

    # ---- R19-i ---------------------------------------------------------------
    # the forecaster (and the prefix parser) see a computed bound only through Repetition.bounds_constraint: every construction site links it
    chk.rule("R19-i", "every RepetitionBoundsConstraint the spec reader builds is stored on its repetition node before the node is returned", floor=2)
    gpc = eng.cls("fandango.language.parse.convert", "GrammarProcessor")
    n_i = 0
    for m in gpc.methods.values():
        ctor = [n for n in walk_local(m.node) if isinstance(n, ast.Assign) and isinstance(n.value, ast.Call) and call_name(n.value) == "RepetitionBoundsConstraint"
                and isinstance(n.targets[0], ast.Name)]
        if not ctor:
            continue
        mcfg = eng.cfg(m)
        for a in ctor:
            n_i += 1
            var = a.targets[0].id
            start = mcfg.nodes_of(a)
            links = [n.id for n in mcfg.nodes if n.kind == "stmt" and isinstance(n.ast, ast.Assign) and isinstance(n.ast.value, ast.Name) and n.ast.value.id == var
                     and any(isinstance(t_, ast.Attribute) and t_.attr == "bounds_constraint" for t_ in n.ast.targets)]
            rets = [n.id for n in mcfg.nodes if n.kind == "stmt" and isinstance(n.ast, ast.Return)]
            # after `var = Class(...)` a test `var is not None` cannot fail: its false edge is infeasible on paths from the construction
            infeasible = set()
            for n in mcfg.nodes:
                if n.kind == "if":
                    t_ = n.ast.test  # type: ignore[union-attr]
                    if isinstance(t_, ast.Compare) and len(t_.ops) == 1 and isinstance(t_.left, ast.Name) and t_.left.id == var and isinstance(t_.comparators[0], ast.Constant) \
                            and t_.comparators[0].value is None:
                        infeasible.add((n.id, "false" if isinstance(t_.ops[0], ast.IsNot) else "true"))
            p_ = mcfg.find_path(start[0], rets, avoid=links, ignore=("exc-out", "raise-out"), ignore_edges=infeasible) if start else None
            if links and p_ is None:
                chk.ok("R19-i", m.fq, a.lineno, f"`{var} = RepetitionBoundsConstraint(...)` is stored in `<node>.bounds_constraint` on every path to the return")
            else:
                chk.bad("R19-i", eng.relfile(m), a.lineno, m.fq, f"`{var} = RepetitionBoundsConstraint(...)` can reach `return` without being stored on the repetition node",
                        "the repetition looks like a plain bounded one to the prefix parser and the forecaster: computed bounds of this form are ignored when continuations are offered",
                        path=mcfg.describe_path(p_) if p_ else [], keyparts="bounds-constraint-not-linked")
    if n_i < 2:
        raise AnalysisError(f"only {n_i} construction site(s) of RepetitionBoundsConstraint found in GrammarProcessor")

    # ---- R19-j / R19-k ---------------------------------------------------------
    # the grammar the forecaster parses histories with is produced by converters and slicers that rewrite node lists in place
    chk.rule("R19-j", "values the state-grammar converter memoises do not depend on inputs (sender, recipient) their key does not cover", floor=1)
    from .c12 import memo_input_rule
    if memo_input_rule(chk, eng, "R19-j", scope=(NAV, "fandango.language.parse.slice_parties", "fandango.language.grammar.node_visitors")) == 0:
        chk.ok("R19-j", NAV + ".*", 0, "no parameter-taking memo in the navigation / slicing code", nontrivial=False)
    chk.rule("R19-k", "the slicer never removes from a node list while iterating over that same list", floor=2)
    remove_while_iterating(chk, eng, "R19-k")

    # ---- R19-e ---------------------------------------------------------------
    pf = eng.cls(f"{NAV}.packetforecaster", "PathFinder")
    on = eng.method(pf, "onNonTerminalNodeVisit", inherited=False)
    sender_if = [n for n in on.node.body if isinstance(n, ast.If) and "sender" in norm(n.test)]  # type: ignore[attr-defined]
    if len(sender_if) != 1:
        raise AnalysisError("PathFinder.onNonTerminalNodeVisit: the test for message nonterminals was not found")
    si = sender_if[0]
    expl = [n for n in si.body if isinstance(n, ast.If) and norm(n.test) == "is_exploring"]
    if len(expl) != 1:
        raise AnalysisError("PathFinder.onNonTerminalNodeVisit: the `if is_exploring` split was not found")

    def ret_tuple(stmts: list[ast.stmt]) -> Optional[tuple]:
        for s_ in stmts:
            if isinstance(s_, ast.Return) and isinstance(s_.value, ast.Tuple) and all(isinstance(e, ast.Constant) for e in s_.value.elts):
                return tuple(e.value for e in s_.value.elts)  # type: ignore[union-attr]
        return None
    adds_in_explore = any(isinstance(c, ast.Call) and self_attr(c.func) == "add_option" for s_ in expl[0].body for c in ast.walk(s_))
    adds_elsewhere = any(isinstance(c, ast.Call) and self_attr(c.func) == "add_option" for c in walk_local(on.node)) and not adds_in_explore
    r_expl, r_follow = ret_tuple(expl[0].body), ret_tuple(expl[0].orelse)
    if adds_in_explore and not adds_elsewhere and r_expl == (False, False):
        chk.ok("R19-e", on.fq, expl[0].lineno, "exploring: the message nonterminal is added as an option and the branch ends (False, False)")
    else:
        chk.bad("R19-e", eng.relfile(on), expl[0].lineno, on.fq, f"exploring a message nonterminal returns {r_expl} / add_option in the exploring branch: {adds_in_explore}",
                "messages behind the next message are offered as if they could come first, or the next message is not offered", keyparts="explore-branch")
    all_adds = [c for c in walk_local(on.node) if isinstance(c, ast.Call) and self_attr(c.func) == "add_option"]
    in_expl = [c for s_ in expl[0].body for c in ast.walk(s_) if isinstance(c, ast.Call) and self_attr(c.func) == "add_option"]
    if r_follow == (True, False) and len(all_adds) == len(in_expl):
        chk.ok("R19-e", on.fq, expl[0].lineno, "following the history: the message nonterminal is stepped over (True, False) and nothing is offered")
    else:
        chk.bad("R19-e", eng.relfile(on), expl[0].lineno, on.fq, f"following the history returns {r_follow}; add_option calls outside the exploring branch: {len(all_adds) - len(in_expl)}",
                "messages that were already exchanged are offered again, or the walk stops at the last exchanged message", keyparts="follow-branch")

    chk.rule("R19-l", "the visitors that cut a protocol grammar down to some parties remove grammar nodes by identity, never by (symbol-only) equality", floor=2)
    node_list_identity_rule(chk, eng, "R19-l")

    # ---- R19-f ---------------------------------------------------------------
    fc = eng.cls(f"{NAV}.packetforecaster", "PacketForecaster")
    pr = eng.method(fc, "predict", inherited=False)
    # the loop over the partial derivations of the history: `for <tree>, <is_complete> in self._parser.<producer>(<history>)`
    outer = [f for f in walk_local(pr.node) if isinstance(f, ast.For) and isinstance(f.target, ast.Tuple) and len(f.target.elts) == 2 and isinstance(f.iter, ast.Call)
             and isinstance(f.iter.func, ast.Attribute) and "_parser" in norm(f.iter.func.value)]
    if len(outer) != 1:
        raise AnalysisError("PacketForecaster.predict: the loop over the partial derivations was not found")
    ol = outer[0]
    # breaks that belong to the outer loop itself (not to the inner for-else)
    inner_fors = [f for f in ast.walk(ol) if isinstance(f, ast.For) and f is not ol]
    inner_nodes = {id(x) for f in inner_fors for b in f.body for x in ast.walk(b)}
    outer_breaks = [x for x in ast.walk(ol) if isinstance(x, (ast.Break, ast.Return)) and id(x) not in inner_nodes]
    unions = [a for a in ast.walk(ol) if isinstance(a, ast.Assign) and isinstance(a.value, ast.Call) and call_name(a.value) == "union" and "forecast" in norm(a.value)]
    if unions and not outer_breaks:
        chk.ok("R19-f", pr.fq, ol.lineno, "the forecast of every partial derivation is united into the result (no early exit from the loop)")
    else:
        chk.bad("R19-f", eng.relfile(pr), ol.lineno, pr.fq, "not every partial derivation of the history contributes to the result" + (" (the loop is left early)" if outer_breaks else " (no union)"),
                "continuations that belong to another reading of the same history are missing", keyparts="predict-union-all")
    comp_adds = [c for c in ast.walk(ol) if isinstance(c, ast.Call) and isinstance(c.func, ast.Attribute) and c.func.attr == "add" and "complete_trees" in norm(c.func.value)]
    from ..core import parents_map, ancestors
    pm = parents_map(pr.node)
    if not comp_adds:
        raise AnalysisError("PacketForecaster.predict: complete_trees.add not found")
    for c in comp_adds:
        guarded = any(isinstance(a, ast.If) and "is_complete" in norm(a.test) and not isinstance(a.test, ast.UnaryOp) for a in ancestors(pm, c))
        if guarded:
            chk.ok("R19-f", pr.fq, c.lineno, "a derivation is reported complete only under `is_complete`")
        else:
            chk.bad("R19-f", eng.relfile(pr), c.lineno, pr.fq, "`complete_trees.add(...)` is not guarded by `is_complete`", "an unfinished interaction is reported as complete", keyparts="complete-unguarded")


def node_list_identity_rule(chk: Check, eng: Engine, rule: str) -> None:
    """Grammar nodes compare by value (`NonTerminalNode.__eq__`: the symbol only - sender and recipient are not looked at), so `list.remove(n)`
    and `list.index(n)` on the element lists of a grammar node find the first *equal* node.  The visitors that edit a protocol grammar (party
    slicing, truncation of invisible messages) must pick the node itself: positions, identity (`is`), or a helper that does so."""
    node_base = eng.cls("fandango.language.grammar.nodes.node", "Node")
    by_value = sorted(c.name for c in node_base.all_subclasses() if "__eq__" in c.methods)
    if not by_value:
        raise AnalysisError("no grammar node class defines __eq__ any more (the premise of the node-list rule is gone)")
    LISTS = {"nodes", "alternatives"}
    n = 0
    for f in eng.ix.all_functions:
        if not f.module.startswith(("fandango.language.grammar.node_visitors", "fandango.language.parse.slice_parties", "fandango.language.parse.io", NAV)):
            continue
        kid_locals = {t.id for a in walk_local(f.node) if isinstance(a, ast.Assign) and isinstance(a.value, ast.Call) and isinstance(a.value.func, ast.Attribute) and a.value.func.attr == "children"
                      for t in a.targets if isinstance(t, ast.Name)}
        for c in walk_local(f.node):
            if not isinstance(c, ast.Call):
                continue
            if isinstance(c.func, ast.Attribute) and c.func.attr in ("remove", "index") and c.args:
                recv = c.func.value
                if (isinstance(recv, ast.Attribute) and recv.attr in LISTS) or (isinstance(recv, ast.Name) and recv.id in kid_locals):
                    n += 1
                    chk.bad(rule, eng.relfile(f), c.lineno, f.fq, f"`{short(c, 60)}` finds a grammar node by equality ({', '.join(by_value[:3])} compare by value)",
                            "of two messages with the same type and different parties (`<Server:Client:ping> <Client:Server:ping>`) the first one is taken, whichever was meant: "
                            "slicing the protocol to one party removes the wrong message", keyparts=f"node-by-value|{f.qualname}|{norm(recv)}")
            elif isinstance(c.func, ast.Name) and any(isinstance(a, ast.Attribute) and a.attr in LISTS for a in c.args):
                h = eng.ix.modules[f.module].functions.get(c.func.id)
                if h is not None and any(isinstance(x, ast.Compare) and any(isinstance(o, (ast.Is, ast.IsNot)) for o in x.ops) for x in ast.walk(h.node)):
                    n += 1
                    chk.ok(rule, f.fq, c.lineno, f"`{short(c, 60)}` edits the node list by identity (helper {h.name} compares with `is`)")
    if n < 2:
        raise AnalysisError(f"only {n} edits of grammar node lists found in the protocol-grammar visitors")


# ------------------------------------------------------------------ self-test variants
from ..mutants import M  # noqa: E402

_CNV = "src/fandango/io/navigation/visitor/continuing_nodevisitor.py"
_PF = "src/fandango/io/navigation/packetforecaster.py"
MUTANTS = [
    M("truncator-removes-the-first-equal-node", "src/fandango/language/grammar/node_visitors/packet_truncator.py", "                _remove_node(node.nodes, child)\n", "                node.nodes.remove(child)\n", "R19-l"),
    M("message-node-memo-keyed-by-symbol-equality", "src/fandango/io/navigation/stategrammarconverter.py", "        self.seen_keys.add(symbol)\n        self.processed_keys.add(symbol)\n        return repl_node\n",
      "        self.seen_keys.add(symbol)\n        self.processed_keys.add(symbol)\n        self._packet_nodes[node] = repl_node\n        return repl_node\n", "R19-j",
      more=(("        if node.symbol.is_type(TreeValueType.STRING):\n            symbol = NonTerminal(\"<_packet_\" + node.symbol.name()[1:])\n", "        if node in self._packet_nodes:\n            return self._packet_nodes[node]\n        if node.symbol.is_type(TreeValueType.STRING):\n            symbol = NonTerminal(\"<_packet_\" + node.symbol.name()[1:])\n"),)),
    M("option-visit-not-overridden", _CNV, "    def visitOption(self, node: Option) -> bool:\n        self.on_enter_controlflow(f\"<__{node.id}>\")\n        ret = self.visitRepetitionType(node)\n        self.on_leave_controlflow()\n        return ret\n", "", "R19-a"),
    M("star-forgets-to-leave", _CNV, "    def visitStar(self, node: Star) -> bool:\n        self.on_enter_controlflow(f\"<__{node.id}>\")\n        ret = self.visitRepetitionType(node)\n        self.on_leave_controlflow()\n        return ret\n",
      "    def visitStar(self, node: Star) -> bool:\n        self.on_enter_controlflow(f\"<__{node.id}>\")\n        ret = self.visitRepetitionType(node)\n        return ret\n", "R19-b"),
    M("concatenation-pops-before-visiting", _CNV, "            self.current_tree.append(None)\n            continue_exploring = self.visit(next_child)\n            self.current_tree.pop()\n            child_idx += 1\n",
      "            self.current_tree.append(None)\n            continue_exploring = self.visit(next_child)\n            self.current_tree.pop()\n            if not continue_exploring:\n                self.current_tree.pop()\n            child_idx += 1\n", "R19-b"),
    M("explore-stops-at-first-continuing-alternative", _CNV, "            for alt in node.alternatives:\n                continue_exploring |= self.visit(alt)\n",
      "            for alt in node.alternatives:\n                continue_exploring = continue_exploring or self.visit(alt)\n", "R19-c"),
    M("unfinished-round-does-not-end-the-walk", _CNV, "            if not continue_exploring:\n                # The last round present in the history is unfinished: what follows\n                # the repetition cannot come before that round is complete.\n                return False\n", "", "R19-g"),
    M("prefix-frame-test-inverted", _CNV, "                if tree_list is None or len(tree_list) == 0:\n                    continue\n", "                if tree_list is None or len(tree_list) != 0:\n                    continue\n", "R19-h"),
    M("comma-form-bounds-not-linked", "src/fandango/language/parse/convert.py", "                bounds_constraint.repetition_node = rep_node\n                rep_node.bounds_constraint = bounds_constraint\n", "                bounds_constraint.repetition_node = rep_node\n", "R19-i"),
    M("slicer-iterates-the-live-list", "src/fandango/language/grammar/node_visitors/packet_truncator.py", "    def visitConcatenation(self, node: Concatenation) -> bool:\n        for child in list(node.children()):\n",
      "    def visitConcatenation(self, node: Concatenation) -> bool:\n        for child in node.children():\n", "R19-k"),
    M("one-round-too-many", _CNV, "        if continue_exploring and tree_len < rep_max:\n", "        if continue_exploring and tree_len <= rep_max:\n", "R19-d"),
    M("leave-before-minimum", _CNV, "        if tree_len >= rep_min:\n            return True\n", "        if tree_len + 1 >= rep_min:\n            return True\n", "R19-d"),
    M("bounds-swapped", _CNV, "        rep_min = node.min\n        rep_max = node.max\n", "        rep_min = node.max\n        rep_max = node.min\n", "R19-d"),
    M("option-added-while-following", _PF, "            if is_exploring:\n                self.add_option(node)\n                return False, False\n            else:\n                return True, False\n",
      "            self.add_option(node)\n            if is_exploring:\n                return False, False\n            else:\n                return True, False\n", "R19-e"),
    M("exploration-continues-behind-a-message", _PF, "                self.add_option(node)\n                return False, False\n", "                self.add_option(node)\n                return True, False\n", "R19-e"),
    M("predict-first-derivation-only", _PF, "                    options = options.union(finder.forecast(suggested_tree))\n", "                    options = options.union(finder.forecast(suggested_tree))\n                    break\n", "R19-f"),
    M("complete-without-is-complete", _PF, "                    if is_complete:\n                        collapsed_tree = self.grammar.collapse(suggested_tree)\n", "                    if True:\n                        collapsed_tree = self.grammar.collapse(suggested_tree)\n", "R19-f"),
]
TWINS = [
    M("twin-concatenation-early-return-keeps-frame", _CNV, "            continue_exploring = self.visit(next_child)\n            self.current_tree.pop()\n            child_idx += 1\n",
      "            continue_exploring = self.visit(next_child)\n            if not continue_exploring:\n                return False\n            self.current_tree.pop()\n            child_idx += 1\n", None),
    M("twin-alternative-handler-restores-tree-only", _CNV, "                    self.current_tree = fallback_tree\n                    self.current_path = fallback_path\n", "                    self.current_tree = fallback_tree\n", None),
    M("twin-max-test-mirrored", _CNV, "        if continue_exploring and tree_len < rep_max:\n", "        if continue_exploring and rep_max > tree_len:\n", None),
    M("twin-explore-or-assignment", _CNV, "                continue_exploring |= self.visit(alt)\n", "                continue_exploring = self.visit(alt) or continue_exploring\n", None),
    M("twin-leave-helper-local", _CNV, "    def visitPlus(self, node: Plus) -> bool:\n        self.on_enter_controlflow(f\"<__{node.id}>\")\n        ret = self.visitRepetitionType(node)\n        self.on_leave_controlflow()\n        return ret\n",
      "    def visitPlus(self, node: Plus) -> bool:\n        self.on_enter_controlflow(f\"<__{node.id}>\")\n        result = self.visitRepetitionType(node)\n        self.on_leave_controlflow()\n        return result\n", None),
]
