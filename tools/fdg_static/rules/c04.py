"""C04 - parsing is sound (API filter, helper symbols, error discipline, visitor exhaustiveness).

R04-a  in api.Fandango.parse every `yield` lies on the true branch of
       all(constraint.check(tree) for constraint in self.constraints) over the unsliced list.
R04-b  helper symbols never escape: in Parser.parse_forest every yielded value that is not
       control-dependent on include_controlflow being true flows from collapse(...); the
       include_controlflow parameters default to False along the public wrappers; every helper
       nonterminal the grammar compiler creates starts with "<__" or "<*" (writer table), the
       prefix _collapse strips is the writers' "<__" (reader), implicit "<*..*>" nodes are spliced
       (complete(..., use_implicit=True) has no call site); collapse() itself refuses a helper root.
R04-c  a constraint whose evaluation raises rejects the input (handler obligations shared with
       C02/C07; Fandango.parse has no handler that would swallow the exception either).
R04-d  visitor exhaustiveness: IterativeParser defines its own visit<Kind> for every Node kind the
       spec reader constructs (falling back to the generic NodeVisitor default would silently
       compile `a*` like `a`).
"""

from __future__ import annotations

import ast

from ..core import AnalysisError, call_name, get_kwarg, norm, self_attr, short, walk_local
from ..engine import Engine
from ..report import Check
from typing import Optional
from . import common_fitness as cf

PMOD = "fandango.language.grammar.parser"


def names_in_expr(e: ast.AST) -> set[str]:
    return {x.id for x in ast.walk(e) if isinstance(x, ast.Name)}


def rule_i(chk: Check, eng: Engine) -> None:
    """R04-i.  The Earley table has one column per *bit*; scan_bit consumes one column, scan_bytes / scan_regex read whole bytes from
    word[w:] where w = column // 8.  At a column with column % 8 != 0 the byte word[w] is already partly consumed by bit terminals, so a
    byte scanner would match it a second time.  Every call of a byte scanner must therefore sit behind an alignment test of the column
    it is given."""
    from ..core import parents_map, ancestors
    ip = eng.cls(f"{PMOD}.iterative_parser", "IterativeParser")
    n = 0
    for m in ip.methods.values():
        pm = None
        for c in walk_local(m.node):
            if not (isinstance(c, ast.Call) and isinstance(c.func, ast.Attribute) and self_attr(c.func) in ("scan_bytes", "scan_regex")):
                continue
            n += 1
            if pm is None:
                pm = parents_map(m.node)
            callee = eng.method(ip, c.func.attr)
            ps = [p for p in callee.params() if p != "self"]
            kidx = ps.index("k") if "k" in ps else None
            col = c.args[kidx] if kidx is not None and len(c.args) > kidx else get_kwarg(c, "k")
            if col is None:
                raise AnalysisError(f"{m.fq}: cannot find the column argument of {c.func.attr}")
            guarded = False
            child = c

            def alignment_test(t: ast.AST) -> Optional[str]:
                """'eq' / 'ne' when t is `<col> % 8 == 0` / `<col> % 8 != 0`"""
                if isinstance(t, ast.Compare) and len(t.ops) == 1 and isinstance(t.left, ast.BinOp) and isinstance(t.left.op, ast.Mod) and norm(t.left.left) == norm(col) \
                        and isinstance(t.left.right, ast.Constant) and t.left.right.value == 8 and isinstance(t.comparators[0], ast.Constant) and t.comparators[0].value == 0:
                    return "eq" if isinstance(t.ops[0], ast.Eq) else "ne" if isinstance(t.ops[0], ast.NotEq) else None
                return None

            for a in ancestors(pm, c):
                if isinstance(a, ast.If):
                    in_body = any(child is b or any(child is x for x in ast.walk(b)) for b in a.body)
                    kind = alignment_test(a.test)
                    if (kind == "eq" and in_body) or (kind == "ne" and not in_body):
                        guarded = True
                # guard clause: an earlier statement of the same block leaves it when the column is unaligned
                for fld in ("body", "orelse", "finalbody"):
                    blk = getattr(a, fld, None)
                    if isinstance(blk, list) and any(child is st for st in blk):
                        by_clause = False
                        for st in blk[: [i for i, x in enumerate(blk) if x is child][0]]:
                            if isinstance(st, ast.If) and not st.orelse and alignment_test(st.test) == "ne" and st.body \
                                    and isinstance(st.body[-1], (ast.Return, ast.Continue, ast.Break, ast.Raise)):
                                by_clause = True
                            elif isinstance(col, ast.Name) and any(isinstance(x, ast.Name) and x.id == col.id and isinstance(x.ctx, ast.Store) for x in ast.walk(st)):
                                by_clause = False  # the column variable is re-bound after the guard clause
                        guarded = guarded or by_clause
                child = a
            if guarded:
                chk.ok("R04-i", m.fq, c.lineno, f"`self.{c.func.attr}(...)` runs only where `{norm(col)} % 8 == 0`")
            else:
                chk.bad("R04-i", eng.relfile(m), c.lineno, m.fq, f"`self.{c.func.attr}(...)` can run at a column `{norm(col)}` that is not a multiple of 8",
                        "after a bit terminal the byte scanner matches the partly consumed byte again: inputs outside the language are accepted with trees that do not spell the input",
                        keyparts=f"unaligned|{c.func.attr}")
    if n < 2:
        raise AnalysisError(f"only {n} byte-scanner call sites found")


def rule_h(chk: Check, eng: Engine) -> None:
    """R04-h.  GrammarProcessor names the helper rules of *, +, ?, {..}, alternatives and concatenations `<__kind:N_PREFIX>` with N counted per
    spec.  Grammar.update merges the rules of all specs by name, so two specs with the same PREFIX overwrite each other's helper rules (the
    parser then builds trees through the wrong rule).  Chain of custody of the prefix:
      (1) every id built by GrammarProcessor contains self.id_prefix;
      (2) FandangoSpec derives id_prefix from its `filename` parameter;
      (3) in parse(), the filename handed to parse_content inside the loop over the given specs differs per iteration: every
          assignment to it mentions the loop variable or a counter updated in the loop."""
    gp = eng.cls("fandango.language.parse.convert", "GrammarProcessor")
    n_ids = 0
    for m in gp.methods.values():
        for n in walk_local(m.node):
            if isinstance(n, ast.JoinedStr) and any(isinstance(v, ast.FormattedValue) and "NodeType." in norm(v.value) for v in n.values):
                n_ids += 1
                if any(isinstance(v, ast.FormattedValue) and self_attr(v.value) == "id_prefix" for v in n.values):
                    chk.ok("R04-h", m.fq, n.lineno, f"helper id `{short(n, 60)}` is qualified by self.id_prefix", nontrivial=False)
                else:
                    chk.bad("R04-h", eng.relfile(m), n.lineno, m.fq, f"helper id `{short(n, 60)}` is not qualified by the per-spec prefix", "helper rules of different specs collide", keyparts=f"id-no-prefix|{m.name}")
    if n_ids < 5:
        raise AnalysisError(f"GrammarProcessor: only {n_ids} helper-id constructions found")
    spec = eng.cls("fandango.language.parse.spec", "FandangoSpec")
    init = eng.method(spec, "__init__", inherited=False)
    kws = [get_kwarg(c, "id_prefix") for c in walk_local(init.node) if isinstance(c, ast.Call) and call_name(c) == "GrammarProcessor"]
    kws = [k for k in kws if k is not None]
    if not kws:
        raise AnalysisError("FandangoSpec.__init__: GrammarProcessor(id_prefix=...) not found")
    for k in kws:
        if "filename" in names_in_expr(k):
            chk.ok("R04-h", init.fq, k.lineno, f"id_prefix = `{short(k, 50)}` is a function of the spec's file name")
        else:
            chk.bad("R04-h", eng.relfile(init), k.lineno, init.fq, f"id_prefix = `{short(k, 50)}` does not depend on the spec's file name", "all specs share one prefix", keyparts="prefix-not-from-filename")
    pf = eng.func("fandango.language.parse.parse", "parse")
    loops = [l for l in walk_local(pf.node) if isinstance(l, ast.For) and any(isinstance(c, ast.Call) and call_name(c) == "parse_content" for c in ast.walk(l))]
    if not loops:
        raise AnalysisError("parse(): no loop that calls parse_content")
    for loop in loops:
      varying = {n.id for n in ast.walk(loop.target) if isinstance(n, ast.Name)}
      varying |= {n.target.id for n in ast.walk(loop) if isinstance(n, ast.AugAssign) and isinstance(n.target, ast.Name)}
      for c in ast.walk(loop):
          if isinstance(c, ast.Call) and call_name(c) == "parse_content":
              fn_arg = get_kwarg(c, "filename") or (c.args[1] if len(c.args) > 1 else None)
              if fn_arg is None:
                  chk.bad("R04-h", eng.relfile(pf), c.lineno, pf.fq, "parse_content is called without a file name", "every spec gets the default name and therefore the same id prefix", keyparts="no-filename")
                  continue
              exprs = [fn_arg]
              if isinstance(fn_arg, ast.Name) and fn_arg.id not in varying:
                  exprs = [a.value for a in ast.walk(loop) if isinstance(a, ast.Assign) and any(isinstance(t, ast.Name) and t.id == fn_arg.id for t in a.targets)]
                  if not exprs:
                      chk.bad("R04-h", eng.relfile(pf), c.lineno, pf.fq, f"`{fn_arg.id}` is not assigned inside the spec loop", "all specs share one name", keyparts="filename-loop-invariant")
                      continue
              for e in exprs:
                  if names_in_expr(e) & varying:
                      chk.ok("R04-h", pf.fq, e.lineno, f"spec name `{short(e, 60)}` varies with the loop ({sorted(names_in_expr(e) & varying)})")
                  else:
                      chk.bad("R04-h", eng.relfile(pf), e.lineno, pf.fq, f"spec name `{short(e, 40)}` is the same for every spec that takes this branch",
                              "two specs given as strings get the same helper-rule ids (<__star:1_PREFIX>): Grammar.update lets the later one replace the earlier one, "
                              "so valid words are rejected and parse trees lack the nonterminals of the first spec", keyparts="filename-constant|" + norm(e)[:30])


def run(chk: Check, eng: Engine) -> None:
    chk.rule("R04-e", "scanner leaves carry text sliced from the input word, and the Earley column advance equals the consumed length times the columns-per-byte constant", floor=10)
    chk.rule("R04-f", "in complete mode Terminal.check accepts only on a complete (non-partial) match", floor=1)
    chk.rule("R04-g", "a memoised forest is served only to requests of the same parsing mode and start symbol (the memo key covers them)", floor=1)
    from .c12 import memo_attribute, memo_helpers, rule_e as _key_rule

    _parser = eng.cls(f"{PMOD}.parser", "Parser")
    _memo = memo_attribute(eng, _parser)
    _g, _s = memo_helpers(_parser, _memo)
    _key_rule(chk, eng, _parser, _memo, _g, _s, rule="R04-g", only={"mode", "start", "word"})
    chk.rule("R04-l", "the start symbol (and the other settings) a parse command uses are its own: helpers do not write into the session defaults they are lent", floor=3)
    from .c18 import lent_globals_rule
    lent_globals_rule(chk, eng, "R04-l")
    chk.rule("R04-k", "no function a parse request reaches (scanners, terminal matching) is memoised by a decorator whose key leaves out something it reads: a literal and a regex "
             "with the same text are one key", floor=1)
    from .common_memo import decorated_memo_rule
    decorated_memo_rule(chk, eng, "R04-k", [f.fq for f in eng.ix.all_functions if f.cls is not None and f.cls.name == "Grammar" and f.name.startswith("parse")], "parse results")
    chk.rule("R04-j", "the verdicts the API filter relies on come from a memo whose key distinguishes bindings (get_hash covers the items of scope and local variables)", floor=3)
    from .c11 import gethash_rule
    gethash_rule(chk, eng, "R04-j")
    chk.rule("R04-i", "byte and regex terminals are scanned only at byte-aligned columns of the bit-indexed parse table", floor=2)
    rule_i(chk, eng)
    chk.rule("R04-h", "ids of implicit grammar nodes are unique across the specs merged into one grammar: per-spec counters are qualified by a prefix "
             "that is derived from the file name, and the spec loop never gives two specs the same name", floor=4)
    rule_h(chk, eng)
    chk.rule("R04-a", "the public parse API yields only trees for which every constraint's check() is true", floor=2)
    chk.rule("R04-b", "trees leave the parser only through collapse() unless control-flow nodes were asked for; helper-symbol prefixes agree between writers and reader", floor=12)
    chk.rule("R04-c", "an exception raised while checking a constraint rejects the input", floor=3)
    chk.rule("R04-d", "IterativeParser compiles every node kind the spec reader constructs with a handler of its own", floor=8)
    chk.not_decided.append("that every yielded tree derives exactly the input (Earley table arithmetic, scan offsets)")

    # ---- R04-a ---------------------------------------------------------------
    api = eng.cls("fandango.api", "Fandango")
    pm = eng.method(api, "parse", inherited=False)
    cfg = eng.cfg(pm)
    yields = [n for n in cfg.nodes if n.kind == "stmt" and isinstance(n.ast, ast.Expr) and isinstance(n.ast.value, ast.Yield)]
    if not yields:
        raise AnalysisError("api.Fandango.parse: no yield")
    guards = []
    for g in cfg.nodes:
        if g.kind == "if":
            t = g.ast.test  # type: ignore[union-attr]
            if isinstance(t, ast.Call) and call_name(t) == "all" and t.args and isinstance(t.args[0], (ast.GeneratorExp, ast.ListComp)):
                ge = t.args[0]
                elt_ok = isinstance(ge.elt, ast.Call) and call_name(ge.elt) == "check"
                it = ge.generators[0].iter
                full = self_attr(it) == "constraints" and not ge.generators[0].ifs
                guards.append((g, elt_ok, full, it))
    if not guards:
        chk.bad("R04-a", eng.relfile(pm), pm.line, pm.fq, "no `if all(constraint.check(tree) ...)` filter in Fandango.parse",
                "inputs outside the constrained language are accepted", keyparts="no-filter")
    for g, elt_ok, full, it in guards:
        if elt_ok and full:
            chk.ok("R04-a", pm.fq, g.line, f"filter `{g.text()}` ranges over the whole constraint list")
        else:
            chk.bad("R04-a", eng.relfile(pm), g.line, pm.fq, f"filter `{g.text()}` does not check every constraint (iterates `{short(it)}`)",
                    "an input violating one of the skipped constraints is accepted", keyparts="filter-partial")
    for y in yields:
        p = cfg.find_path(cfg.entry, [y.id], ignore=("exc-out", "raise-out", "abandon"), ignore_edges={(g.id, "true") for g, *_ in guards})
        if p is None and guards:
            chk.ok("R04-a", pm.fq, y.line, f"`{y.text()}` is reachable only through the filter's true edge")
        else:
            chk.bad("R04-a", eng.relfile(pm), y.line, pm.fq, f"`{y.text()}` is reachable without passing the constraint filter",
                    "a tree that violates a constraint is yielded by the public API", path=cfg.describe_path(p) if p else [], keyparts="yield-unfiltered")

    # ---- R04-b ---------------------------------------------------------------
    parser = eng.cls(f"{PMOD}.parser", "Parser")
    pf = eng.method(parser, "parse_forest", inherited=False)
    pcfg = eng.cfg(pf)
    from ..dataflow import ReachingDefs

    rd = ReachingDefs(pcfg, pf.params())
    ReachingDefs_ = ReachingDefs
    cf_ifs_true = set()
    for g in pcfg.nodes:
        if g.kind == "if":
            t = g.ast.test  # type: ignore[union-attr]
            if isinstance(t, ast.Name) and t.id == "include_controlflow":
                cf_ifs_true.add((g.id, "true"))
            elif isinstance(t, ast.UnaryOp) and isinstance(t.op, ast.Not) and isinstance(t.operand, ast.Name) and t.operand.id == "include_controlflow":
                cf_ifs_true.add((g.id, "false"))
    pys = [n for n in pcfg.nodes if n.kind == "stmt" and isinstance(n.ast, ast.Expr) and isinstance(n.ast.value, ast.Yield) and n.ast.value.value is not None]
    for y in pys:
        v = y.ast.value.value  # type: ignore[union-attr]
        # reachable without include_controlflow being true?
        p = pcfg.find_path(pcfg.entry, [y.id], ignore=("exc-out", "raise-out", "abandon"), ignore_edges=cf_ifs_true)
        if p is None:
            chk.ok("R04-b", pf.fq, y.line, f"`{y.text()}` only when include_controlflow is true (helper nodes were asked for)")
            continue
        from_collapse = False
        if isinstance(v, ast.Name):
            defs = rd.defs_reaching(y.id, v.id)
            vals = [rd.def_value(d, v.id) for d in defs]
            from_collapse = bool(vals) and all(isinstance(x, ast.Call) and call_name(x) == "collapse" for x in vals)
        elif isinstance(v, ast.Call):
            from_collapse = call_name(v) == "collapse"
        if from_collapse:
            chk.ok("R04-b", pf.fq, y.line, f"`{y.text()}`: the value is the result of collapse(...)")
        else:
            chk.bad("R04-b", eng.relfile(pf), y.line, pf.fq, f"`{y.text()}` hands out an uncollapsed parser tree although control-flow nodes were not requested",
                    "trees with internal helper symbols (<__...>) reach the caller and the constraint evaluation", path=pcfg.describe_path(p), keyparts="yield-uncollapsed")
    # default of include_controlflow along the wrappers
    g = eng.cls("fandango.language.grammar.grammar", "Grammar")
    for owner, names in ((parser, ("parse_forest", "parse_multiple", "parse")), (g, ("parse_forest", "parse_multiple", "parse"))):
        for nm in names:
            m = owner.methods.get(nm)
            if m is None:
                continue
            a = m.node.args  # type: ignore[attr-defined]
            allp = a.posonlyargs + a.args
            dfl = {p_.arg: d for p_, d in zip(allp[len(allp) - len(a.defaults):], a.defaults)}
            dfl.update({p_.arg: d for p_, d in zip(a.kwonlyargs, a.kw_defaults) if d is not None})
            d = dfl.get("include_controlflow")
            if d is None:
                continue
            if isinstance(d, ast.Constant) and d.value is False:
                chk.ok("R04-b", m.fq, m.line, f"{owner.name}.{nm}: include_controlflow defaults to False")
            else:
                chk.bad("R04-b", eng.relfile(m), m.line, m.fq, f"{owner.name}.{nm}: include_controlflow defaults to `{short(d)}`",
                        "helper nodes are handed out by default", keyparts=f"cf-default|{owner.name}.{nm}")
    # writer table: helper nonterminals
    ip = eng.cls(f"{PMOD}.iterative_parser", "IterativeParser")
    writers = []
    node_base = eng.cls("fandango.language.grammar.nodes.node", "Node")
    scopes = [m for c in node_base.family() for n, m in c.methods.items() if n == "to_symbol"] + [m for n, m in ip.methods.items() if n.startswith(("visit", "set_"))]
    for m in scopes:
        for c in walk_local(m.node):
            if isinstance(c, ast.Call) and call_name(c) == "NonTerminal" and c.args and isinstance(c.args[0], ast.JoinedStr):
                first = c.args[0].values[0]
                if isinstance(first, ast.Constant) and isinstance(first.value, str):
                    writers.append((m, c, first.value))
    if len(writers) < 10:
        raise AnalysisError(f"only {len(writers)} helper-nonterminal constructions found")
    for m, c, prefix in writers:
        if prefix.startswith("<__") or prefix.startswith("<*"):
            chk.ok("R04-b", m.fq, c.lineno, f"helper nonterminal `{short(c, 50)}` starts with a reserved prefix", nontrivial=False)
        else:
            chk.bad("R04-b", eng.relfile(m), c.lineno, m.fq, f"helper nonterminal `{short(c)}` does not start with `<__` or `<*`",
                    "_collapse does not recognise it: the helper node stays in every parsed tree", keyparts="helper-prefix|" + prefix)
    col = eng.method(ip, "_collapse", inherited=False)
    tested = [x.args[0].value for x in walk_local(col.node) if isinstance(x, ast.Call) and call_name(x) == "startswith" and x.args and isinstance(x.args[0], ast.Constant)]
    if tested == ["<__"]:
        chk.ok("R04-b", col.fq, col.line, "_collapse splices exactly the nodes whose symbol starts with `<__` (the writers' prefix for rule-level helpers)")
    else:
        chk.bad("R04-b", eng.relfile(col), col.line, col.fq, f"_collapse tests the prefixes {tested}", "helper nodes written with `<__` are not removed (or real symbols are)", keyparts="collapse-prefix")
    returns_reduced = any(isinstance(r, ast.Return) and isinstance(r.value, ast.Name) for r in walk_local(col.node))
    if returns_reduced:
        chk.ok("R04-b", col.fq, col.line, "a helper node is replaced by its (recursively collapsed) children")
    cl = eng.method(ip, "collapse", inherited=False)
    if any(isinstance(x, ast.Raise) for x in walk_local(cl.node)) and "<__" in norm(cl.node):
        chk.ok("R04-b", cl.fq, cl.line, "collapse() refuses a tree whose root is a helper node")
    else:
        chk.bad("R04-b", eng.relfile(cl), cl.line, cl.fq, "collapse() accepts a helper node as root", "an internal symbol becomes the root of a returned tree", keyparts="collapse-root")
    # use_implicit never switched on
    sites = [(f, c) for f in eng.ix.all_functions for c in walk_local(f.node) if isinstance(c, ast.Call) and call_name(c) == "complete" and (get_kwarg(c, "use_implicit") is not None or len(c.args) > 3)]
    if not sites:
        chk.ok("R04-b", ip.fq, 0, "complete(..., use_implicit=True) has no call site: implicit <*..*> states are spliced, never wrapped")
    for f, c in sites:
        chk.bad("R04-b", eng.relfile(f), c.lineno, f.fq, f"`{short(c)}` wraps implicit rules in tree nodes", "<*..*> helper nodes appear in parsed trees and _collapse does not remove them", keyparts="use-implicit")

    # ---- R04-c ---------------------------------------------------------------
    tries = [t for t in walk_local(pm.node) if isinstance(t, ast.Try)]
    if tries:
        for t in tries:
            for h in t.handlers:
                hn = cfg.nodes_of(h, {"handler"})[0]
                if cfg.find_path(hn, [y.id for y in yields]) is not None:
                    chk.bad("R04-c", eng.relfile(pm), h.lineno, pm.fq, "an exception handler in Fandango.parse can continue to a yield",
                            "a tree whose constraint check raised is accepted", keyparts="parse-swallows")
    chk.ok("R04-c", pm.fq, pm.line, "Fandango.parse has no handler that continues to a yield: an exception of check() propagates to the caller")
    base = eng.cls("fandango.constraints.constraint", "Constraint")
    for c in sorted(base.all_subclasses(), key=lambda c: c.fq):
        fn = c.methods.get("fitness")
        if fn is None:
            continue
        eng.consult(fn.module)
        fcfg = eng.cfg(fn)
        v = cf.final_verdict(eng, fn)
        for h, loop, tr in cf.handlers_in_loops(fcfg, fn):
            if v is None or v.kind not in ("COUNT", "ALL1"):
                raise AnalysisError(f"{fn.fq}: try/except around evaluation but verdict fits no accumulator shape")
            r = cf.check_handler_records_failure(eng, fn, v, h, loop)
            if r is None:
                chk.ok("R04-c", fn.fq, h.lineno, f"{c.name}: a raising combination makes check() false")
            else:
                prot = sorted({short(x.args[0], 40) for x in ast.walk(ast.Module(body=tr.body, type_ignores=[])) if isinstance(x, ast.Call) and call_name(x) == "eval" and x.args})
                chk.bad("R04-c", eng.relfile(fn), h.lineno, fn.fq, f"{c.name}: {r[0]}",
                        "an input on which the constraint's code raises is accepted by Fandango.parse", path=r[1], keyparts="handler-drops|" + "|".join(prot))
    chk_m = eng.method(eng.cls("fandango.constraints.base", "GeneticBase"), "check", inherited=False)
    if norm(chk_m.node.body[-1]).replace(" ", "") .endswith(".success"):  # type: ignore[attr-defined]
        chk.ok("R04-c", chk_m.fq, chk_m.line, "check() is the `success` verdict of fitness()")
    else:
        chk.bad("R04-c", eng.relfile(chk_m), chk_m.line, chk_m.fq, "check() no longer returns fitness(...).success", "validation and search disagree on what satisfied means", keyparts="check-def")

    # ---- R04-e ---------------------------------------------------------------
    from ..dataflow import backward_slice

    cons = eng.method(ip, "_consume", inherited=False)
    per_byte = None
    for n in walk_local(cons.node):
        if isinstance(n, ast.BinOp) and isinstance(n.op, ast.Mult) and "len(char)" in norm(n.left) and isinstance(n.right, ast.Constant):
            per_byte = n.right.value
    mods = {c.comparators[0].value for c in walk_local(cons.node) if isinstance(c, ast.Compare) and isinstance(c.left, ast.BinOp) and isinstance(c.left.op, ast.Mod)
            and isinstance(c.left.right, ast.Constant) for _ in [0] if isinstance(c.comparators[0], ast.Constant)}
    mod_consts = {c.left.right.value for c in walk_local(cons.node) if isinstance(c, ast.Compare) and isinstance(c.left, ast.BinOp) and isinstance(c.left.op, ast.Mod) and isinstance(c.left.right, ast.Constant)}
    if per_byte is None:
        raise AnalysisError("_consume: `len(char) * <columns per byte>` not found")
    if mod_consts == {per_byte}:
        chk.ok("R04-e", cons.fq, cons.line, f"_consume allocates {per_byte} columns per input byte and advances the byte index every {per_byte} columns")
    else:
        chk.bad("R04-e", eng.relfile(cons), cons.line, cons.fq, f"_consume allocates {per_byte} columns per byte but advances the byte index modulo {sorted(mod_consts)}",
                "scanners read the wrong input position: trees whose text differs from the input are yielded (or valid inputs rejected)", keyparts="columns-per-byte")
    for sname in ("scan_bytes", "scan_regex", "scan_bit"):
        sm = eng.method(ip, sname, inherited=False)
        scfg = eng.cfg(sm)
        srd = ReachingDefs(scfg, sm.params())
        # leaves built by the scanner
        leaves = []
        for n in scfg.nodes:
            if n.kind == "stmt" and isinstance(n.ast, ast.Assign) and isinstance(n.ast.value, ast.Call) and call_name(n.ast.value) in ("ParserDerivationTree", "DerivationTree") \
                    and n.ast.value.args:
                a0 = n.ast.value.args[0]
                leaves.append((n, a0.args[0] if isinstance(a0, ast.Call) and call_name(a0) == "Terminal" and a0.args else a0))
        if not leaves:
            raise AnalysisError(f"{sm.fq}: no leaf construction found")
        for n, x in leaves:
            defs, _calls = backward_slice(scfg, srd, n.id, {nm for nm in names_in_expr(x)})
            from_word = any(scfg.nodes[d].kind == "entry" and nm == "word" for d, nm in defs) or "word" in names_in_expr(x)
            from_dot_only = "state" in names_in_expr(x) and not from_word
            if from_word and not from_dot_only:
                chk.ok("R04-e", sm.fq, n.line, f"{sname}: leaf text `{short(x)}` is taken from the input word")
            else:
                chk.bad("R04-e", eng.relfile(sm), n.line, sm.fq, f"{sname}: leaf text `{short(x)}` is not derived from the input word",
                        "the yielded tree spells the grammar's expectation, not the input: its serialisation differs from what was parsed", keyparts=f"leaf-not-input|{sname}")
        # column advance agrees with the length of the leaf
        adds = [n for n in scfg.nodes if n.kind == "stmt" and n.ast is not None and any(
            isinstance(c, ast.Call) and call_name(c) == "add" and isinstance(c.func, ast.Attribute) and isinstance(c.func.value, ast.Subscript) and isinstance(c.func.value.value, ast.Name)
            and c.func.value.value.id == "table" for c in ast.walk(n.ast))]
        for a in adds:
            call = [c for c in ast.walk(a.ast) if isinstance(c, ast.Call) and call_name(c) == "add" and isinstance(c.func.value, ast.Subscript)][0]  # type: ignore[union-attr]
            idx = call.func.value.slice  # type: ignore[union-attr]
            if sname == "scan_bit":
                if norm(idx) == "k + 1":
                    chk.ok("R04-e", sm.fq, a.line, "scan_bit advances exactly one column per bit")
                else:
                    chk.bad("R04-e", eng.relfile(sm), a.line, sm.fq, f"scan_bit advances to column `{short(idx)}`", "bits are consumed at the wrong rate", keyparts="bit-advance")
                continue
            # k + (L - state.incomplete_idx) * M
            ok = False
            detail = short(idx)
            if isinstance(idx, ast.BinOp) and isinstance(idx.op, ast.Add) and norm(idx.left) == "k" and isinstance(idx.right, ast.BinOp) and isinstance(idx.right.op, ast.Mult):
                inner, mult = idx.right.left, idx.right.right
                mval = None
                if isinstance(mult, ast.Constant):
                    mval = mult.value
                elif isinstance(mult, ast.Name):
                    mdefs = [scfg.nodes[d].ast for d in srd.defs_reaching(a.id, mult.id)]
                    vals = {m_.value.value for m_ in mdefs if isinstance(m_, ast.Assign) and isinstance(m_.value, ast.Constant)}
                    mval = next(iter(vals)) if len(vals) == 1 else None
                length_ok = False
                if isinstance(inner, ast.BinOp) and isinstance(inner.op, ast.Sub) and norm(inner.right) == "state.incomplete_idx" and isinstance(inner.left, ast.Name):
                    L = inner.left.id
                    # the leaf that feeds this state is sliced with the same length
                    lens = set()
                    state_arg = call.args[0].id if call.args and isinstance(call.args[0], ast.Name) else "next_state"
                    D = srd.defs_reaching(a.id, state_arg)
                    for ln, x in leaves:
                        if isinstance(x, ast.Subscript) and isinstance(x.slice, ast.Slice) and x.slice.upper is not None and scfg.find_path(ln.id, [a.id]) is not None \
                                and (srd.defs_reaching(ln.id, state_arg) & D):
                            up = x.slice.upper
                            lens.add(norm(up))
                    ldefs = {norm(scfg.nodes[d].ast.value) for d in srd.defs_reaching(a.id, L) if isinstance(scfg.nodes[d].ast, ast.Assign) and isinstance(scfg.nodes[d].ast.value, ast.Name)}  # type: ignore[union-attr]
                    length_ok = bool(lens) and all(u == L or u in ldefs for u in lens)
                    detail = f"leaf length {sorted(lens)} vs advance by `{L}` (= {sorted(ldefs) or L}) x {mval}"
                ok = length_ok and mval == per_byte
            if ok:
                chk.ok("R04-e", sm.fq, a.line, f"{sname}: {detail}: the column advance equals the consumed length times {per_byte}")
            else:
                chk.bad("R04-e", eng.relfile(sm), a.line, sm.fq, f"{sname}: column advance `{short(idx)}` does not match the consumed text ({detail})",
                        "the parser continues at a position that does not correspond to the text put into the tree: yielded trees do not spell the input", keyparts=f"advance-mismatch|{sname}")

    # ---- R04-f ---------------------------------------------------------------
    term = eng.cls("fandango.language.symbols.terminal", "Terminal")
    tchk = eng.method(term, "check", inherited=False)
    tcfg = eng.cfg(tchk)
    trd = ReachingDefs(tcfg, tchk.params())
    prune = set()
    for g in tcfg.nodes:
        if g.kind == "if":
            t = g.ast.test  # type: ignore[union-attr]
            if isinstance(t, ast.Name) and t.id == "incomplete":
                prune.add((g.id, "true"))
            elif isinstance(t, ast.UnaryOp) and isinstance(t.op, ast.Not) and isinstance(t.operand, ast.Name) and t.operand.id == "incomplete":
                prune.add((g.id, "false"))
    if not prune:
        raise AnalysisError("Terminal.check: no branch on `incomplete` found")
    complete_reach = tcfg.reach([tcfg.entry], ignore_edges=prune)
    n_ret = 0
    for n in tcfg.nodes:
        if n.id in complete_reach and n.kind == "stmt" and isinstance(n.ast, ast.Return) and isinstance(n.ast.value, ast.Tuple) and n.ast.value.elts \
                and isinstance(n.ast.value.elts[0], ast.Constant) and n.ast.value.elts[0].value is True:
            used = {x.id for x in ast.walk(n.ast.value) if isinstance(x, ast.Name)}
            partial_defs = []
            for nm in used:
                for d in trd.defs_reaching(n.id, nm):
                    v = trd.def_value(d, nm)
                    if isinstance(v, ast.Call) and any(k.arg == "partial" and isinstance(k.value, ast.Constant) and k.value.value is True for k in v.keywords):
                        partial_defs.append((nm, tcfg.nodes[d]))
            n_ret += 1
            if partial_defs:
                nm, dn = partial_defs[0]
                chk.bad("R04-f", eng.relfile(tchk), n.line, tchk.fq, f"in complete mode `{n.text()}` reports a match obtained with `{short(dn.ast, 60)}` (partial=True)",
                        "a partial regex match (the input ends in the middle of what the pattern needs) is taken for a complete one: inputs outside the "
                        "language are accepted and the tree's leaf does not match the terminal", keyparts="complete-uses-partial")
            else:
                chk.ok("R04-f", tchk.fq, n.line, f"complete-mode acceptance `{n.text()}` does not rest on a partial match")
    if n_ret == 0:
        raise AnalysisError("Terminal.check: no accepting return reachable in complete mode")

    # ---- R04-d ---------------------------------------------------------------
    gp = eng.cls("fandango.language.parse.convert", "GrammarProcessor")
    fam = {c.name: c for c in node_base.family()}
    constructed = set()
    for m in gp.methods.values():
        for c in walk_local(m.node):
            if isinstance(c, ast.Call) and isinstance(c.func, ast.Name) and c.func.id in fam:
                constructed.add(c.func.id)
    if len(constructed) < 8:
        raise AnalysisError(f"GrammarProcessor constructs only {sorted(constructed)}")
    for kind in sorted(constructed):
        c = fam[kind]
        acc = c.methods.get("accept") or c.lookup("accept")
        vis = None
        if acc is not None:
            for x in walk_local(acc.node):
                if isinstance(x, ast.Call) and isinstance(x.func, ast.Attribute) and x.func.attr.startswith("visit"):
                    vis = x.func.attr
        if vis is None:
            raise AnalysisError(f"{c.fq}.accept: visitor method not found")
        if vis in ip.methods:
            chk.ok("R04-d", ip.methods[vis].fq, ip.methods[vis].line, f"node kind {kind} -> IterativeParser.{vis} (own handler)")
        else:
            chk.bad("R04-d", eng.relfile(eng.method(ip, "__init__")), ip.node.lineno, ip.fq, f"IterativeParser has no `{vis}` of its own for node kind {kind}",
                    "the generic NodeVisitor default compiles that node like its children: the parser accepts another language than the grammar", keyparts=f"visitor-missing|{vis}")


# ------------------------------------------------------------------ self-test variants
from ..mutants import M  # noqa: E402

_API = "src/fandango/api.py"
_P = "src/fandango/language/grammar/parser/parser.py"
_IP = "src/fandango/language/grammar/parser/iterative_parser.py"
_R = "src/fandango/language/grammar/nodes/repetition.py"
_CMP = "src/fandango/constraints/comparison.py"
MUTANTS = [
    M("terminal-matching-memoised-by-value", "src/fandango/language/symbols/terminal.py", "    def check(\n", "    @lru_cache(maxsize=16384)\n    def check(\n", "R04-k"),
    M("byte-scan-alignment-guard-removed", _IP, "                        elif curr_table_idx % 8 != 0:\n                            # Bytes and regexes are scanned at byte boundaries only: inside a\n                            # partly consumed byte there is no whole byte to match.\n                            match = False\n", "", "R04-i"),
    M("byte-scan-unaligned", _IP, "                        elif curr_table_idx % 8 != 0:\n", "                        elif curr_table_idx % 8 != 0 and False:\n", "R04-i"),
    M("string-specs-share-name", "src/fandango/language/parse/parse.py", "            name = \"<string>\" if string_specs == 1 else f\"<string-{string_specs}>\"\n", "            name = \"<string>\"\n", "R04-h"),
    M("id-prefix-constant", "src/fandango/language/parse/spec.py", "            id_prefix=\"{0:x}\".format(abs(hash(filename))),\n", "            id_prefix=\"{0:x}\".format(abs(hash(\"fandango\"))),\n", "R04-h"),
    M("star-id-without-prefix", "src/fandango/language/parse/convert.py", "            f\"{NodeType.STAR}:{nid}_{self.id_prefix}\",\n", "            f\"{NodeType.STAR}:{nid}\",\n", "R04-h"),
    M("forest-key-drops-mode", _P, "        cache_key = (word, start, mode, hookin_parent, starter_bit)\n", "        cache_key = (word, start, hookin_parent, starter_bit)\n", "R04-g"),
    M("complete-check-partial-regex", "src/fandango/language/symbols/terminal.py", "                match = re.match(symbol, check_word)  # type: ignore", "                match = regex.compile(symbol).match(check_word, partial=True)  # type: ignore", "R04-f"),
    M("regex-leaf-uses-offset-before-reset", _IP, "            tree = ParserDerivationTree(Terminal(check_word[:match_length]))\n            if state.is_incomplete:\n                next_state.children[-1] = tree\n            else:\n                next_state.append_child(tree)\n            table[\n                k + ((table_offset - state.incomplete_idx) * table_idx_multiplier)\n            ].add(next_state)",
      "            tree = ParserDerivationTree(Terminal(check_word[:match_length]))\n            if state.is_incomplete:\n                next_state.children[-1] = tree\n            else:\n                next_state.append_child(tree)\n            table[\n                k + ((incomplete_table_offset - state.incomplete_idx) * table_idx_multiplier)\n            ].add(next_state)", "R04-e"),
    M("bytes-leaf-from-grammar-literal", _IP, "        else:\n            next_state = state.next()\n            next_state.is_incomplete = False\n            next_state.incomplete_idx = 0\n            tree = ParserDerivationTree(Terminal(check_word[:match_length]))",
      "        else:\n            next_state = state.next()\n            next_state.is_incomplete = False\n            next_state.incomplete_idx = 0\n            tree = ParserDerivationTree(state.dot)", "R04-e"),
    M("bytes-advance-by-literal-length", _IP, "        table[k + ((match_length - state.incomplete_idx) * table_idx_multiplier)].add(\n            next_state\n        )", "        table[k + ((dot_len - state.incomplete_idx) * table_idx_multiplier)].add(\n            next_state\n        )", "R04-e"),
    M("columns-per-byte-mismatch", _IP, "        table_idx_multiplier = 8\n        match, match_length = state.dot.check(check_word)\n        table_offset = match_length", "        table_idx_multiplier = 4\n        match, match_length = state.dot.check(check_word)\n        table_offset = match_length", "R04-e"),
    M("api-filter-first-constraint", _API, "            if all(constraint.check(tree) for constraint in self.constraints):", "            if all(constraint.check(tree) for constraint in self.constraints[:1]):", "R04-a"),
    M("api-yield-last-tree-too", _API, "            else:\n                last_tree = tree\n\n        return last_tree", "            else:\n                last_tree = tree\n        if last_tree is not None and prefix:\n            yield last_tree\n\n        return last_tree", "R04-a"),
    M("miss-path-yields-uncollapsed", _P, "                collapsed = self.collapse(tree)\n                if collapsed is not None:\n                    yield collapsed\n        # Publish", "                collapsed = self.collapse(tree)\n                if collapsed is not None:\n                    yield collapsed\n                else:\n                    yield tree\n        # Publish", "R04-b"),
    M("controlflow-default-true", _P, "        hookin_parent: Optional[DerivationTree] = None,\n        include_controlflow: bool = False,\n    ) -> Optional[DerivationTree]:", "        hookin_parent: Optional[DerivationTree] = None,\n        include_controlflow: bool = True,\n    ) -> Optional[DerivationTree]:", "R04-b"),
    M("helper-prefix-changed", _R, "        return NonTerminal(f\"<__{self.id}>\")\n\n    @property\n    def internal_max", "        return NonTerminal(f\"<_rep_{self.id}>\")\n\n    @property\n    def internal_max", "R04-b"),
    M("collapse-prefix-narrowed", _IP, "        if isinstance(tree.symbol, NonTerminal):\n            if str(tree.symbol.value()).startswith(\"<__\"):\n                return reduced", "        if isinstance(tree.symbol, NonTerminal):\n            if str(tree.symbol.value()).startswith(\"<__alternative\"):\n                return reduced", "R04-b"),
    M("comparison-raise-accepts", _CMP, "                print_exception(e, f\"Evaluation failed: {self._left}\")\n                # a combination whose evaluation raises is a failed combination\n                fitness_values.append(0.0)\n", "                print_exception(e, f\"Evaluation failed: {self._left}\")\n", "R04-c"),
    M("api-swallows-check-errors", _API, "            if all(constraint.check(tree) for constraint in self.constraints):\n                yield tree\n            else:\n                last_tree = tree",
      "            try:\n                ok = all(constraint.check(tree) for constraint in self.constraints)\n            except Exception:\n                ok = True\n            if ok:\n                yield tree\n            else:\n                last_tree = tree", "R04-c"),
    M("parser-loses-star-handler", _IP, "    def visitStar(self, node: Star) -> IterativeParserVisitorReturnType:", "    def visit_star(self, node: Star) -> IterativeParserVisitorReturnType:", "R04-d"),
]
TWINS = [
    M("twin-string-spec-names-other-way-round", "src/fandango/language/parse/parse.py", "            name = \"<string>\" if string_specs == 1 else f\"<string-{string_specs}>\"\n", "            name = f\"<string-{string_specs}>\" if string_specs > 1 else \"<string>\"\n", None),
    M("twin-aligned-scan-positive-guard", _IP, "                        elif curr_table_idx % 8 != 0:\n                            # Bytes and regexes are scanned at byte boundaries only: inside a\n                            # partly consumed byte there is no whole byte to match.\n                            match = False\n                        else:\n                            if state.dot is not None and state.dot.is_regex:\n",
      "                        elif curr_table_idx % 8 != 0:\n                            match = False  # no whole byte to match inside a partly consumed byte\n                        else:\n                            if state.dot is not None and state.dot.is_regex:\n", None),
    M("twin-forest-memo-behind-helpers", _P, "        cache_key = (word, start, mode, hookin_parent, starter_bit)\n        forest: list[DerivationTree]\n        if cache_key in self._cache:\n            forest = self._cache[cache_key]\n",
      "        cache_key = (word, start, mode, hookin_parent, starter_bit)\n        forest: list[DerivationTree]\n        cached = self._cached_forest(cache_key)\n        if cached is not None:\n            forest = cached\n", None,
      more=(("        self._cache: dict[\n            tuple[\n                str | bytes,\n                NonTerminal,\n                ParsingMode,\n                Optional[DerivationTree],\n                int,\n            ],\n            list[DerivationTree],\n        ] = {}\n",
             "        self._cache: dict = {}\n\n    def _cached_forest(self, key):\n        forest = self._cache.get(key)\n        return forest\n\n    def _cache_forest(self, key, forest) -> None:\n        self._cache[key] = forest\n        while len(self._cache) > 2048:\n            self._cache.pop(next(iter(self._cache)))\n"),
            ("        self._cache[cache_key] = forest\n", "        self._cache_forest(cache_key, forest)\n"))),
    M("twin-api-genexp-to-list", _API, "            if all(constraint.check(tree) for constraint in self.constraints):", "            if all([constraint.check(tree) for constraint in self.constraints]):", None),
]
