"""C17 - fixed seeds reproduce the same run (source inventory).

R17-a  entropy sources.  Every call that reads a non-reproducible source (time.*, datetime.now,
       uuid.*, os.urandom, secrets.*, SystemRandom, id(), os.getpid, unsorted directory listings)
       in code reachable from the public API is enumerated and classified by what its value
       flows into (local def-use): LOG (only into logging / message strings), TIMEOUT (only into
       a comparison with a timeout in protocol mode or into sleep), KEY (only used as an opaque
       dictionary key / memo identity), NAME (only formatted into a generated identifier).
       Any other use - in particular a value that reaches a control decision or a tree - is a
       violation unless listed in the frozen table with its reason.
R17-b  seeding: Fandango.__init__ seeds the `random` module before the first draw; no unseeded
       private `random.Random()` / `SystemRandom` / numpy generator is constructed anywhere
       reachable; all draws go through the module-level functions of `random`.
R17-c  unordered iteration.  Every iteration / list() / pop() / random.choice(list(...)) over a
       set whose element class does not define a content-based __hash__ (identity-hashed: order
       depends on addresses) must be in the frozen table of order-insensitive uses.
       Content-hashed elements (trees, symbols, str, tuples of them) iterate reproducibly under a
       fixed PYTHONHASHSEED, which the property assumes.  Sites whose element type cannot be
       resolved statically are counted in the evidence (documented limit), not reported.
"""

from __future__ import annotations

import ast
from typing import Optional

from ..core import AnalysisError, ClassInfo, FuncInfo, ancestors, attr_chain, call_name, norm, parents_map, self_attr, short, walk_local
from ..engine import Engine
from ..report import Check

SOURCES = {
    ("time", "time"), ("time", "perf_counter"), ("time", "monotonic"), ("time", "time_ns"), ("time", "process_time"),
    ("datetime", "now"), ("datetime", "utcnow"), ("datetime", "today"),
    ("uuid", "uuid1"), ("uuid", "uuid4"), ("os", "urandom"), ("os", "getpid"), ("os", "listdir"), ("os", "scandir"),
    ("glob", "glob"), ("glob", "iglob"), ("secrets", "*"), ("random", "SystemRandom"),
}
LOGGER_NAMES = {"LOGGER", "logging", "logger", "log"}

# identity-hashed set iterations that are accepted (order-insensitive), with the reason
SET_OK = {
    ("fandango.language.grammar.grammar:Grammar.generate_all_k_paths", "initial"):
        "closure computation: the iteration only feeds membership tests and insertions into sets; the result is a set of symbol tuples (content-hashed)",
}
# sources whose flow class is not LOG/TIMEOUT/KEY/NAME but are accepted, with the reason
SOURCE_OK: dict[tuple[str, str], str] = {
    ("fandango.evolution.profiler:EnabledTimer._stop", "time.time"):
        "elapsed time is accumulated in Profiler.metrics, which only Profiler.log_results reads (logging of timing statistics)",
    ("fandango.language.parse.spec:FandangoSpec.__init__", "uuid.uuid4"):
        "opaque per-spec environment key: only stored in the ContextVar and used as a dictionary key of the IO registries; never ordered, printed into outputs or compared",
}


def is_source_call(f: FuncInfo, c: ast.Call, mod_imports: dict) -> Optional[str]:
    fn = c.func
    if isinstance(fn, ast.Name) and fn.id == "id" and len(c.args) == 1:
        return "id()"
    if isinstance(fn, ast.Attribute):
        ch = attr_chain(fn)
        if ch and len(ch) >= 2:
            base, attr = ch[-2], ch[-1]
            root = ch[0]
            if root in mod_imports or root in ("time", "datetime", "uuid", "os", "glob", "secrets", "random"):
                if (base, attr) in SOURCES or (base, "*") in SOURCES:
                    return f"{base}.{attr}"
        if fn.attr in ("iterdir", "rglob") :
            return f"Path.{fn.attr}"
    if isinstance(fn, ast.Name) and fn.id in mod_imports:
        b, a = mod_imports[fn.id]
        if a is not None and ((b, a) in SOURCES or (b, "*") in SOURCES):
            return f"{b}.{a}"
    return None


def classify_flow(f: FuncInfo, c: ast.Call, pm: dict) -> tuple[str, str]:
    """(class, detail) of what the value of source call c flows into, by local def-use."""
    anc = ancestors(pm, c)

    def in_logging(node: ast.AST) -> bool:
        for a in [node] + ancestors(pm, node):
            if isinstance(a, ast.Call):
                ch = attr_chain(a.func) if isinstance(a.func, ast.Attribute) else None
                if ch and ch[0] in LOGGER_NAMES:
                    return True
                if isinstance(a.func, ast.Name) and a.func.id in ("print", "print_exception", "log_message_transfer", "log_guidance_hint"):
                    return True
            if isinstance(a, (ast.Raise,)):
                return True  # message of an exception
        return False

    def in_compare(node: ast.AST) -> bool:
        return any(isinstance(a, ast.Compare) for a in [node] + ancestors(pm, node))

    def in_sleep(node: ast.AST) -> bool:
        return any(isinstance(a, ast.Call) and call_name(a) in ("sleep", "wait", "join") for a in ancestors(pm, node))

    def is_key(node: ast.AST) -> bool:
        p = pm.get(id(node))
        if isinstance(p, ast.Subscript) and p.slice is node:
            return True
        if isinstance(p, ast.Compare) and any(isinstance(o, (ast.In, ast.NotIn)) for o in p.ops):
            return True
        return False

    def in_format(node: ast.AST) -> bool:
        return any(isinstance(a, (ast.JoinedStr, ast.FormattedValue)) for a in ancestors(pm, node))

    # direct use
    classes: set[str] = set()
    details: list[str] = []

    def use_class(node: ast.AST) -> Optional[str]:
        if in_logging(node):
            return "LOG"
        if is_key(node):
            return "KEY"
        if in_compare(node) or in_sleep(node):
            return "TIMEOUT"
        if in_format(node):
            return "NAME"
        return None

    p = pm.get(id(c))
    # assigned to a variable / attribute?
    stmt = next((a for a in [c] + anc if isinstance(a, ast.stmt)), None)
    if isinstance(stmt, (ast.Assign, ast.AnnAssign)) and stmt.value is not None and any(x is c for x in ast.walk(stmt.value)) and use_class(c) is None:
        targets = stmt.targets if isinstance(stmt, ast.Assign) else [stmt.target]
        for t in targets:
            if isinstance(t, ast.Name):
                # every use of that name in the function
                uses = [n for n in walk_local(f.node) if isinstance(n, ast.Name) and n.id == t.id and isinstance(n.ctx, ast.Load)]
                if not uses:
                    classes.add("UNUSED")
                for u in uses:
                    k = use_class(u)
                    if k is None:
                        # x = time.time() ... elapsed = time.time() - x ; follow one more assignment
                        st2 = next((a for a in ancestors(pm, u) if isinstance(a, ast.stmt)), None)
                        if isinstance(st2, (ast.Assign, ast.AugAssign)):
                            t2s = st2.targets if isinstance(st2, ast.Assign) else [st2.target]
                            ks = set()
                            for t2 in t2s:
                                if isinstance(t2, ast.Name):
                                    for u2 in [n for n in walk_local(f.node) if isinstance(n, ast.Name) and n.id == t2.id and isinstance(n.ctx, ast.Load)]:
                                        ks.add(use_class(u2) or "OTHER")
                                elif isinstance(t2, ast.Attribute):
                                    ks.add("ATTR:" + t2.attr)
                            classes |= ks or {"OTHER"}
                            details.append(short(st2, 60))
                        elif isinstance(st2, ast.Return):
                            classes.add("RETURN")
                            details.append(short(st2, 60))
                        else:
                            classes.add("OTHER")
                            details.append(short(st2, 60) if st2 is not None else "?")
                    else:
                        classes.add(k)
            elif isinstance(t, ast.Attribute):
                classes.add("ATTR:" + t.attr)
            else:
                classes.add("OTHER")
    else:
        k = use_class(c)
        if k is None:
            if isinstance(stmt, ast.Return):
                k = "RETURN"
            else:
                k = "OTHER"
            details.append(short(stmt, 70) if stmt is not None else "?")
        classes.add(k)
    classes.discard("UNUSED")
    if not classes:
        return "LOG", "unused"
    order = ["OTHER", "RETURN"] + sorted(x for x in classes if x.startswith("ATTR:")) + ["TIMEOUT", "NAME", "KEY", "LOG"]
    for o in order:
        if o in classes:
            return o, "; ".join(details[:2])
    return "OTHER", ""


def run(chk: Check, eng: Engine) -> None:
    chk.rule("R17-a", "every non-reproducible source reachable from the public API flows only into logging, IO-mode timeouts, opaque keys or generated names", floor=15)
    chk.rule("R17-b", "the random module is seeded before the first draw and no private unseeded generator exists", floor=3)
    chk.rule("R17-c", "no iteration over a set of identity-hashed elements outside the frozen table of order-insensitive uses", floor=5)
    chk.not_decided += ["nondeterminism inside third-party packages (exrex, regex, tdigest)", "thread timing in protocol mode",
                        "set iterations whose element type cannot be resolved statically (counted in the evidence)"]

    ix, cg = eng.ix, eng.cg
    roots: list[str] = []
    for modn, cn in (("fandango.api", "Fandango"), ("fandango.evolution.algorithm", "Fandango"), ("fandango.language.grammar.grammar", "Grammar")):
        c = eng.cls(modn, cn)
        roots += [m.fq for n, m in c.methods.items()]
    roots.append(eng.func("fandango.language.parse.parse", "parse").fq)
    reach = cg.reachable(roots)
    io_mode_funcs = {fq for fq in reach if any(k in fq for k in ("_generate_io", "fandango.io", "packetparser", "remote"))}

    # ---- R17-a ---------------------------------------------------------------
    n_src = 0
    for fq in sorted(reach):
        f = cg.funcs.get(fq)
        if f is None or f.module.startswith(("fandango.cli", "fandango.converters", "fandango.language.server")):
            continue
        mod = ix.modules[f.module]
        pm = None
        for c in walk_local(f.node):
            if not isinstance(c, ast.Call):
                continue
            src = is_source_call(f, c, mod.imports)
            if src is None:
                continue
            if pm is None:
                pm = parents_map(f.node)
            n_src += 1
            kind, detail = classify_flow(f, c, pm)
            attr_kind = kind.startswith("ATTR:")
            if kind in ("LOG", "KEY", "NAME"):
                chk.ok("R17-a", f.fq, c.lineno, f"`{short(c, 40)}` [{src}] flows only into {kind}")
            elif kind == "TIMEOUT":
                if fq in io_mode_funcs or "profiler" in fq.lower() or "wait" in norm(f.node)[:4000]:
                    chk.ok("R17-a", f.fq, c.lineno, f"`{short(c, 40)}` [{src}] flows into a timeout comparison (protocol mode / waiting)")
                else:
                    chk.bad("R17-a", eng.relfile(f), c.lineno, f.fq, f"`{short(c, 40)}` [{src}] decides a branch outside protocol mode",
                            "wall-clock time steers generation or parsing: two runs with the same seeds diverge", keyparts=f"time-branch|{src}")
            elif attr_kind and ("profiler" in fq.lower() or kind in ("ATTR:_start_time", "ATTR:time_taken", "ATTR:elapsed_time", "ATTR:_elapsed")):
                chk.ok("R17-a", f.fq, c.lineno, f"`{short(c, 40)}` [{src}] stored in a timing statistic ({kind[5:]})")
            elif (fq, src) in SOURCE_OK:
                chk.ok("R17-a", f.fq, c.lineno, f"`{short(c, 40)}` [{src}] accepted: {SOURCE_OK[(fq, src)]}", nontrivial=False)
            else:
                chk.bad("R17-a", eng.relfile(f), c.lineno, f.fq, f"`{short(c, 50)}` [{src}] flows into {kind} ({detail})",
                        "a value that differs from run to run (time, address, uuid, directory order) reaches something other than a log line, a timeout, an "
                        "opaque key or a generated name: emitted solutions or parse results may differ between two runs with the same seeds",
                        keyparts=f"source|{src}|{kind}")
    if n_src < 10:
        raise AnalysisError(f"only {n_src} entropy-source call sites found in API-reachable code")

    # ---- R17-b ---------------------------------------------------------------
    algo = eng.cls("fandango.evolution.algorithm", "Fandango")
    init = eng.method(algo, "__init__")
    cfg = eng.cfg(init)
    seeds = [n.id for n in cfg.nodes if n.kind == "stmt" and n.ast is not None and any(isinstance(c, ast.Call) and norm(c.func) == "random.seed" for c in ast.walk(n.ast))]
    if not seeds:
        chk.bad("R17-b", eng.relfile(init), init.line, init.fq, "Fandango.__init__ does not call random.seed(...)",
                "the run is not a function of the given seed", keyparts="no-seed")
    else:
        # every statement that may draw (calls into the package or random.*) after entry must be dominated by the seeding when a seed is given
        seed_node = cfg.nodes[seeds[0]]
        guard_ok = True
        # the seeding may be conditional on `random_seed is not None`
        draws = [n.id for n in cfg.nodes if n.kind in ("stmt", "if", "for", "while") and n.ast is not None and n.id not in seeds and any(
            isinstance(c, ast.Call) and (norm(c.func).startswith("random.") or call_name(c) in ("fuzz", "generate_initial_population", "evaluate_population", "_parse_and_deduplicate",
                                                                                            "refill_population")) for c in ast.walk(n.ast if n.kind == "stmt" else (getattr(n.ast, "test", None) or getattr(n.ast, "iter", None) or n.ast)))]
        early = [d for d in draws if cfg.find_path(cfg.entry, [d], avoid=seeds, ignore_edges={(g.id, "false") for g in cfg.nodes if g.kind == "if" and "random_seed" in norm(g.ast.test)}) is not None]  # type: ignore[union-attr]
        arg = [c for c in ast.walk(seed_node.ast) if isinstance(c, ast.Call) and norm(c.func) == "random.seed"][0]  # type: ignore[arg-type]
        if early:
            e = cfg.nodes[early[0]]
            chk.bad("R17-b", eng.relfile(init), e.line, init.fq, f"`{e.text()}` may draw random numbers before random.seed() runs",
                    "the first draws do not depend on the given seed", keyparts="draw-before-seed")
        else:
            chk.ok("R17-b", init.fq, seed_node.line, f"`{short(arg)}` precedes every statement that may draw ({len(draws)} candidates)")
        if arg.args and isinstance(arg.args[0], ast.Name) and arg.args[0].id in init.params():
            chk.ok("R17-b", init.fq, seed_node.line, f"the seed is the constructor parameter `{arg.args[0].id}`")
        else:
            chk.bad("R17-b", eng.relfile(init), seed_node.line, init.fq, f"`{short(arg)}` does not seed with the constructor's seed parameter",
                    "the given seed is ignored", keyparts="seed-arg")
    priv = []
    for fq in sorted(reach):
        f = cg.funcs.get(fq)
        if f is None:
            continue
        for c in walk_local(f.node):
            if isinstance(c, ast.Call) and norm(c.func) in ("random.Random", "random.SystemRandom", "Random", "SystemRandom", "numpy.random.default_rng", "np.random.default_rng"):
                priv.append((f, c))
            elif isinstance(c, ast.Call) and (norm(c.func).startswith("np.random.") or norm(c.func).startswith("numpy.random.")):
                priv.append((f, c))
    for f, c in priv:
        if c.args or c.keywords:
            chk.ok("R17-b", f.fq, c.lineno, f"`{short(c)}` is a private generator with an explicit seed", nontrivial=False)
        else:
            chk.bad("R17-b", eng.relfile(f), c.lineno, f.fq, f"`{short(c)}` creates an unseeded private random generator",
                    "draws from it ignore the run's seed", keyparts="private-rng|" + short(c, 30))
    chk.ok("R17-b", "fandango.*", 0, f"no unseeded private random generator in {len(reach)} API-reachable functions")

    # ---- R17-d ---------------------------------------------------------------
    # the seed reaches random.seed() for *every* integer: presence tests on the way are `is not None` / hasattr, never truthiness (0 is a seed)
    chk.rule("R17-d", "on the way from the command line / the constructor to random.seed() the seed is tested for presence (`is not None`, hasattr), never for truthiness", floor=2)

    def presence_conjuncts(test: ast.AST) -> tuple[list[ast.AST], list[ast.AST]]:
        """(presence tests, truthiness tests) among the conjuncts of `test`."""
        conj = test.values if isinstance(test, ast.BoolOp) and isinstance(test.op, ast.And) else [test]
        pres, truth = [], []
        for c in conj:
            if isinstance(c, ast.Compare) and len(c.ops) == 1 and isinstance(c.ops[0], (ast.IsNot, ast.Is, ast.In, ast.NotIn)):
                pres.append(c)
            elif isinstance(c, ast.Call) and call_name(c) in ("hasattr", "isinstance"):
                pres.append(c)
            elif isinstance(c, ast.Compare):
                pres.append(c)  # an explicit comparison is a decision of its own, not an accidental truthiness test
            else:
                truth.append(c)
        return pres, truth

    # (a) the seeding statement in the constructor
    pm_init = parents_map(init.node)
    for c in walk_local(init.node):
        if isinstance(c, ast.Call) and norm(c.func) == "random.seed":
            for a in ancestors(pm_init, c):
                if isinstance(a, ast.If):
                    pres, truth = presence_conjuncts(a.test)
                    bad_t = [t for t in truth if "seed" in norm(t)]
                    if bad_t:
                        chk.bad("R17-d", eng.relfile(init), a.lineno, init.fq, f"`random.seed(...)` is guarded by the truth value of `{short(bad_t[0])}`",
                                "seed 0 is falsy: the run is seeded from OS entropy and is not reproducible", keyparts="seed-truthiness|init")
                    else:
                        chk.ok("R17-d", init.fq, a.lineno, f"`random.seed(...)` is guarded by the presence test `{short(a.test)}`")
    # (b) the command-line plumbing: every function that copies an option named random_seed, and the helpers it delegates to
    cli_mod = eng.module("fandango.cli.utils")
    copiers = []
    for f in eng.ix.all_functions:
        if f.module != "fandango.cli.utils":
            continue
        # names that range over a literal collection containing "random_seed" (`for name in ("population_size", ..., "random_seed"): copy(args, settings, name)`)
        def literal_collection(e: ast.AST) -> Optional[ast.AST]:
            """the collection itself, or the module-level constant a name stands for (`_COPIED_SETTINGS = ("population_size", ..., "random_seed")`)"""
            if isinstance(e, (ast.Tuple, ast.List, ast.Set)):
                return e
            if isinstance(e, ast.Name):
                vals = [getattr(v, "value", v) for v in cli_mod.globals_assigned.get(e.id, [])]
                if len(vals) == 1 and isinstance(vals[0], (ast.Tuple, ast.List, ast.Set)):
                    return vals[0]
            return None

        seed_names = {lp.target.id for lp in walk_local(f.node) if isinstance(lp, (ast.For, ast.comprehension)) and isinstance(lp.target, ast.Name)
                      and literal_collection(lp.iter) is not None and any(isinstance(e_, ast.Constant) and e_.value == "random_seed" for e_ in literal_collection(lp.iter).elts)}  # type: ignore[union-attr]
        for c in walk_local(f.node):
            if isinstance(c, ast.Call) and isinstance(c.func, ast.Name) and any((isinstance(a, ast.Constant) and a.value == "random_seed") or (isinstance(a, ast.Name) and a.id in seed_names)
                                                                              for a in c.args):
                r = eng.ix.resolve_name(cli_mod, c.func.id)
                if isinstance(r, FuncInfo) and r not in copiers:
                    copiers.append(r)
    if not copiers:
        raise AnalysisError("fandango.cli.utils: no helper copies the option 'random_seed' into the settings any more")
    for h in copiers:
        pm_h = parents_map(h.node)
        stores = [n for n in walk_local(h.node) if isinstance(n, ast.Assign) and any(isinstance(t, ast.Subscript) for t in n.targets)]
        if not stores:
            raise AnalysisError(f"{h.fq}: no `settings[...] = ...` store found")
        # locals that hold the option's value
        val_locals = {t.id for n in walk_local(h.node) if isinstance(n, ast.Assign) and isinstance(n.value, ast.Call) and call_name(n.value) == "getattr" for t in n.targets if isinstance(t, ast.Name)}
        # the option's value used as an operand of `or` / `and` / `not`, or as the test of a conditional expression, is a truth test as well
        def is_value(e: ast.AST) -> bool:
            return (isinstance(e, ast.Name) and e.id in val_locals) or (isinstance(e, ast.Call) and call_name(e) == "getattr") or isinstance(e, ast.NamedExpr)

        for x in walk_local(h.node):
            hit = None
            if isinstance(x, ast.BoolOp) and not (isinstance(pm_h.get(x), ast.If) and isinstance(x.op, ast.And)):
                hit = next((o for o in x.values[:-1] if is_value(o)), None)
            elif isinstance(x, ast.UnaryOp) and isinstance(x.op, ast.Not) and is_value(x.operand):
                hit = x.operand
            elif isinstance(x, ast.IfExp) and is_value(x.test):
                hit = x.test
            if hit is not None:
                chk.bad("R17-d", eng.relfile(h), x.lineno, h.fq, f"`{short(x, 70)}` decides by the truth value of the option `{short(hit)}`",
                        "an option given as 0 (`--random-seed 0`) is replaced or dropped: the run is seeded from OS entropy and differs from run to run", keyparts="seed-truthiness|cli-expr")
        for st in stores:
            for a in ancestors(pm_h, st):
                if isinstance(a, ast.If):
                    pres, truth = presence_conjuncts(a.test)
                    bad_t = [t for t in truth if (isinstance(t, ast.Name) and t.id in val_locals) or (isinstance(t, ast.Call) and call_name(t) == "getattr") or
                             (isinstance(t, ast.NamedExpr))]
                    if bad_t:
                        chk.bad("R17-d", eng.relfile(h), a.lineno, h.fq, f"`{short(st, 50)}` is guarded by the truth value of `{short(bad_t[0])}`",
                                "an option given as 0 (`--random-seed 0`) is dropped: the run is seeded from OS entropy and differs from run to run", keyparts="seed-truthiness|cli")
                    else:
                        chk.ok("R17-d", h.fq, a.lineno, f"`{short(st, 50)}` is guarded by presence tests only: `{short(a.test, 80)}`")

    # ---- R17-c ---------------------------------------------------------------
    BUILTIN_CONTENT = {"str", "int", "bytes", "float", "bool", "tuple", "frozenset", "NoneType"}

    _ch_cache: dict[str, Optional[bool]] = {}

    def content_hashed(c: ClassInfo, depth: int = 0) -> Optional[bool]:
        if c.fq in _ch_cache:
            return _ch_cache[c.fq]
        _ch_cache[c.fq] = True  # cycles: assume content (the cycle's other members decide)
        r = _content_hashed(c, depth)
        _ch_cache[c.fq] = r
        return r

    def _content_hashed(c: ClassInfo, depth: int) -> Optional[bool]:
        from ..core import ann_class_names
        for k in c.mro():
            if "__hash__" in k.methods:
                hm = k.methods["__hash__"]
                src = norm(hm.node)
                if "id(self" in src or "id(" in src:
                    return False
                # a content hash over attributes is only as stable as the hashes of those attributes: an attribute whose class
                # (or one of its subclasses) is hashed by identity makes the whole hash depend on memory addresses
                if depth < 3:
                    anns = c.instance_attr_annotations()
                    for n in ast.walk(hm.node):
                        a = self_attr(n) if isinstance(n, ast.Attribute) else None
                        if a is None or a not in anns:
                            continue
                        for nm in ann_class_names(anns[a]):
                            for t in ix.classes_by_name.get(nm, []):
                                for kk in [t] + t.all_subclasses():
                                    if content_hashed(kk, depth + 1) is False:
                                        return False
                return True
            if "__eq__" in k.methods and "__hash__" not in k.methods and "__hash__" not in k.class_attrs:
                # defines __eq__ without __hash__: unhashable (cannot be a set element at all)
                return True
            if any("dataclass" in norm(d) for d in k.node.decorator_list):
                return True
            if any(b.endswith("Enum") or b in ("str", "int", "tuple", "NamedTuple") for b in k.base_exprs):
                return True
        return False

    def is_set_expr(f: FuncInfo, e: ast.AST, env, depth: int = 0) -> bool:
        if isinstance(e, (ast.Set, ast.SetComp)):
            return True
        if isinstance(e, ast.Call) and isinstance(e.func, ast.Name) and e.func.id in ("set", "frozenset"):
            return True
        if isinstance(e, ast.Call) and isinstance(e.func, ast.Attribute) and e.func.attr in ("union", "intersection", "difference", "symmetric_difference"):
            return True
        if isinstance(e, ast.Name) and depth < 2:
            for n in walk_local(f.node):
                if isinstance(n, ast.AnnAssign) and isinstance(n.target, ast.Name) and n.target.id == e.id:
                    return norm(n.annotation).lower().startswith(("set[", "frozenset[", "set", "optional[set["))
                if isinstance(n, ast.Assign) and len(n.targets) == 1 and isinstance(n.targets[0], ast.Name) and n.targets[0].id == e.id and is_set_expr(f, n.value, env, depth + 1):
                    return True
            a = f.node.args  # type: ignore[attr-defined]
            for p in a.posonlyargs + a.args + a.kwonlyargs:
                if p.arg == e.id and p.annotation is not None and norm(p.annotation).lower().startswith(("set[", "frozenset[", "optional[set[")):
                    return True
            return False
        if isinstance(e, ast.Attribute):
            t = env.type_of(e.value)
            for fq in t:
                modn, cn = fq.split(":")
                c = ix.modules[modn].classes.get(cn)
                if c is not None:
                    ann = c.instance_attr_annotations().get(e.attr)
                    if ann is not None and norm(ann).lower().startswith(("set[", "frozenset[")):
                        return True
            return False
        if isinstance(e, ast.Call) and isinstance(e.func, ast.Attribute):
            tg, how = cg.resolve_call(f, e)
            if how == "exact":
                for tq in tg:
                    g = cg.funcs.get(tq)
                    if g is not None and g.node.returns is not None and norm(g.node.returns).lower().startswith(("set[", "frozenset[")):  # type: ignore[attr-defined]
                        return True
        return False

    def raw_elem_names(f: FuncInfo, e: ast.AST, env) -> set[str]:
        out = set()
        if isinstance(e, ast.Name):
            for n in walk_local(f.node):
                if isinstance(n, ast.AnnAssign) and isinstance(n.target, ast.Name) and n.target.id == e.id and isinstance(n.annotation, ast.Subscript):
                    out.add(norm(n.annotation.slice))
            a = f.node.args  # type: ignore[attr-defined]
            for p in a.posonlyargs + a.args + a.kwonlyargs:
                if p.arg == e.id and isinstance(p.annotation, ast.Subscript):
                    out.add(norm(p.annotation.slice))
        if isinstance(e, ast.Call) and isinstance(e.func, ast.Attribute):
            tg, how = cg.resolve_call(f, e)
            for tq in tg:
                g = cg.funcs.get(tq)
                if g is not None and isinstance(g.node.returns, ast.Subscript):  # type: ignore[attr-defined]
                    out.add(norm(g.node.returns.slice))  # type: ignore[attr-defined]
        return out

    n_sites = n_unknown = 0
    for fq in sorted(reach):
        f = cg.funcs.get(fq)
        if f is None or f.module.startswith(("fandango.cli", "fandango.converters", "fandango.language.server")):
            continue
        env = cg.env(f)
        for x in walk_local(f.node):
            it = None
            kind = ""
            if isinstance(x, (ast.For, ast.comprehension)):
                it, kind = x.iter, "for"
            elif isinstance(x, ast.Call) and isinstance(x.func, ast.Name) and x.func.id in ("list", "tuple", "next", "iter", "enumerate", "zip") and x.args:
                it, kind = x.args[0], x.func.id
            elif isinstance(x, ast.Call) and isinstance(x.func, ast.Attribute) and x.func.attr == "pop" and not x.args:
                it, kind = x.func.value, "pop"
            if it is None or not is_set_expr(f, it, env):
                continue
            n_sites += 1
            line = getattr(x, "lineno", getattr(it, "lineno", 0))
            elem = env.elem_type_of(it)
            if isinstance(it, ast.Call) and isinstance(it.func, ast.Name) and it.func.id in ("set", "frozenset") and it.args:
                elem = elem or env.elem_type_of(it.args[0])
            raw = raw_elem_names(f, it, env)
            verdicts = []
            for cfq in elem:
                modn, cn = cfq.split(":")
                c = ix.modules[modn].classes.get(cn)
                if c is not None:
                    fam = [c] + c.all_subclasses()
                    ident = [k.name for k in fam if content_hashed(k) is False]
                    verdicts.append(("identity", ident) if ident else ("content", [c.name]))
            for r in raw:
                head = r.split("[")[0].strip()
                if head in BUILTIN_CONTENT or head.startswith("tuple"):
                    verdicts.append(("content", [r]))
            if not verdicts:
                n_unknown += 1
                continue
            ident = [n for k, ns in verdicts if k == "identity" for n in ns]
            key = (f.fq, short(it, 40))
            if not ident:
                chk.ok("R17-c", f.fq, line, f"[{kind}] over set `{short(it, 40)}`: elements are content-hashed ({', '.join(n for _, ns in verdicts for n in ns)})")
            elif key in SET_OK:
                chk.ok("R17-c", f.fq, line, f"[{kind}] over set `{short(it, 40)}` with identity-hashed elements {ident[:4]} accepted: {SET_OK[key]}")
            else:
                chk.bad("R17-c", eng.relfile(f), line, f.fq, f"[{kind}] over set `{short(it, 50)}` whose elements {ident[:5]} are hashed by identity",
                        "the iteration order depends on memory addresses, which differ between two processes with the same seeds; the order reaches "
                        "a list / a choice / a result", keyparts=f"set-order|{short(it, 40)}")
    chk.extra["set_iteration_sites"] = {"total": n_sites, "element_type_unresolved": n_unknown}
    if n_sites < 10:
        raise AnalysisError(f"only {n_sites} set-iteration sites found")


# ------------------------------------------------------------------ self-test variants
from ..mutants import M  # noqa: E402

_ALG = "src/fandango/evolution/algorithm.py"
_EV = "src/fandango/evolution/evaluation.py"
_POP = "src/fandango/evolution/population.py"
_G = "src/fandango/language/grammar/grammar.py"
MUTANTS = [
    M("command-line-or-stored-setting", "src/fandango/cli/utils.py", "    if hasattr(args, args_name) and getattr(args, args_name) is not None:\n        settings[name] = getattr(args, args_name)\n",
      "    value = getattr(args, args_name, None) or settings.get(name)\n    if value is not None:\n        settings[name] = value\n", "R17-d"),
    M("time-budget-in-generation", _ALG, "            if max_generations is not None and generation >= max_generations:\n                break\n            generation += 1\n",
      "            if max_generations is not None and generation >= max_generations:\n                break\n            if time.time() % 2 > 1.9:\n                continue\n            generation += 1\n", "R17-a"),
    M("id-as-tiebreak", _EV, "            for x in sorted(evaluation, key=lambda x: x[1], reverse=True)[", "            for x in sorted(evaluation, key=lambda x: (x[1], id(x[0])), reverse=True)[", "R17-a"),
    M("uuid-in-tree-symbol", _POP, "        return self._grammar.fuzz(self._start_symbol, max_nodes)", "        import uuid\n\n        tag = uuid.uuid4().hex\n        tree = self._grammar.fuzz(self._start_symbol, max_nodes)\n        tree.origin_repetitions.append((tag, 0, 0))\n        return tree", "R17-a"),
    M("private-unseeded-rng", _EV, "        tournament = random.sample(evaluation, k=min(tournament_size, len(evaluation)))", "        tournament = random.Random().sample(evaluation, k=min(tournament_size, len(evaluation)))", "R17-b"),
]
MUTANTS += [
    M("seeding-removed", _ALG, "        if random_seed is not None:\n            random.seed(random_seed)\n", "", "R17-b"),
    M("seed-constant", _ALG, "            random.seed(random_seed)\n", "            random.seed(0)\n", "R17-b"),
    M("dedupe-alternatives-through-set", "src/fandango/language/grammar/nodes/alternative.py", "        random.choice(in_range_nodes).fuzz(parent, grammar, max_nodes, in_message)", "        random.choice(list(set(in_range_nodes))).fuzz(parent, grammar, max_nodes, in_message)", "R17-c"),
]
MUTANTS += [
    M("cli-drops-falsy-options", "src/fandango/cli/utils.py", "    if hasattr(args, args_name) and getattr(args, args_name) is not None:\n        settings[name] = getattr(args, args_name)\n",
      "    value = getattr(args, args_name, None)\n    if value:\n        settings[name] = value\n", "R17-d"),
    M("constructor-seeds-only-truthy", _ALG, "        if random_seed is not None:\n            random.seed(random_seed)\n", "        if random_seed:\n            random.seed(random_seed)\n", "R17-d"),
    M("failing-trees-deduplicated-through-set", "src/fandango/constraints/forall.py", "        failing_trees = list(\n            itertools.chain.from_iterable(\n                fitness.failing_trees for fitness in fitness_values\n            )\n        )\n",
      "        failing_trees = list(\n            set(\n                itertools.chain.from_iterable(\n                    fitness.failing_trees for fitness in fitness_values\n                )\n            )\n        )\n", "R17-c"),
]
TWINS = [
    M("twin-option-value-in-a-local", "src/fandango/cli/utils.py", "    if hasattr(args, args_name) and getattr(args, args_name) is not None:\n        settings[name] = getattr(args, args_name)\n",
      "    value = getattr(args, args_name, None)\n    if value is not None:\n        settings[name] = value\n", None),
    M("twin-cli-settings-copied-in-a-loop", "src/fandango/cli/utils.py", "    _copy_setting(args, settings, \"best_effort\")\n    _copy_setting(args, settings, \"random_seed\")\n    _copy_setting(args, settings, \"max_repetition_rate\")\n",
      "    for setting_name in (\"best_effort\", \"random_seed\", \"max_repetition_rate\"):\n        _copy_setting(args, settings, setting_name)\n", None),
    M("twin-cli-copy-with-local", "src/fandango/cli/utils.py", "    if hasattr(args, args_name) and getattr(args, args_name) is not None:\n        settings[name] = getattr(args, args_name)\n",
      "    value = getattr(args, args_name, None)\n    if value is not None:\n        settings[name] = value\n", None),
    M("twin-log-more-time", _ALG, "        LOGGER.info(f\"Time taken: {(time.time() - start_time):.2f} seconds\")\n\n        return solutions", "        LOGGER.info(f\"Time taken: {(time.time() - start_time):.3f} seconds\")\n\n        return solutions", None),
]
