"""C12 - parse results do not depend on earlier parse calls (cache protocol).

R12-a  publish after completion: a memo entry that a later call serves as *the* forest is stored
       only when the producing loop ran to exhaustion (no store from which a `yield` is still
       reachable, no store on a generator-abandonment path), and only Parser writes the memo.
R12-b  served trees share nothing with the memo: no definition of a tree variable reaches both
       a memo store and a `yield` (whether collapse() results alias their argument is derived from
       the effect summary of IterativeParser.collapse and from list arguments it passes by reference).
R12-c  per-parse state is reset: every attribute of IterativeParser written while consuming
       input is re-initialised by new_parse (frozen, reasoned exceptions).
R12-d  hit path and miss path of the memo serve trees under the same conditions on the
       function's boolean parameters.
"""

from __future__ import annotations

import ast
from typing import Optional

from ..cfg import CFG
from ..core import AnalysisError, ClassInfo, FuncInfo, call_name, norm, self_attr, short, walk_local
from ..dataflow import ReachingDefs, head_exprs, uses_in
from ..engine import Engine
from ..report import Check

PMOD = "fandango.language.grammar.parser"

# attributes written during a parse that need no reset, each with the reason confirmed by reading
_COMPILE_ONLY = ("written only through {m}(), which the parse-time entry visitRepetition(node, nt, tree) reaches only on its non-context "
                 "branch; that branch is dead at parse time because only context repetitions are registered in _context_rules "
                 "(grammar-compile-time state, rebuilt by _process)")
# (attribute, writer method) pairs that need no reset, each with the reason confirmed by reading
RESET_EXCEPTIONS = {
    ("_nodes", "visitRepetition"): "id -> grammar-node registry; re-registration stores the same node under the same id (idempotent)",
    ("_rules", "set_rule"): _COMPILE_ONLY.format(m="set_rule"),
    ("_implicit_rules", "set_implicit_rule"): _COMPILE_ONLY.format(m="set_implicit_rule"),
    ("_context_rules", "set_context_rule"): _COMPILE_ONLY.format(m="set_context_rule"),
}


def is_memo_attr_store(n: ast.AST, attr: str) -> bool:
    """self.<attr>[k] = v | self.<attr>[k].append(v) | self.<attr>.setdefault(k, []).append(v) | self.<attr>.update(...)"""
    if isinstance(n, (ast.Assign, ast.AugAssign, ast.AnnAssign)):
        ts = n.targets if isinstance(n, ast.Assign) else [n.target]
        for t in ts:
            if isinstance(t, ast.Subscript) and self_attr(t.value) == attr:
                return True
    for c in ast.walk(n):
        if isinstance(c, ast.Call) and isinstance(c.func, ast.Attribute) and c.func.attr in ("append", "extend", "insert", "update", "setdefault", "add"):
            base = c.func.value
            while isinstance(base, (ast.Subscript, ast.Call)):
                base = base.value if isinstance(base, ast.Subscript) else (base.func.value if isinstance(base.func, ast.Attribute) else base.func)
            if self_attr(base) == attr:
                return True
    return False


def stored_names(n: ast.AST, attr: str, aliases: set[str]) -> set[str]:
    """Names whose object is put into the memo (or into a list alias later stored) by statement n."""
    out: set[str] = set()
    if isinstance(n, ast.Assign):
        for t in n.targets:
            if isinstance(t, ast.Subscript) and self_attr(t.value) == attr:
                out |= uses_in(n.value)
    for c in ast.walk(n):
        if isinstance(c, ast.Call) and isinstance(c.func, ast.Attribute) and c.func.attr in ("append", "extend", "insert", "add"):
            base = c.func.value
            b0 = base
            while isinstance(b0, ast.Subscript):
                b0 = b0.value
            if self_attr(b0) == attr or (isinstance(base, ast.Name) and base.id in aliases):
                for a in c.args:
                    out |= uses_in(a)
    return out


def memo_attribute(eng: Engine, parser: ClassInfo) -> str:
    """The attribute of Parser that __init__ creates as an empty mapping and another method indexes."""
    init = parser.methods.get("__init__")
    if init is None:
        raise AnalysisError("Parser.__init__ not found")
    cands = []
    for n in walk_local(init.node):
        if isinstance(n, (ast.Assign, ast.AnnAssign)) and n.value is not None:
            ts = n.targets if isinstance(n, ast.Assign) else [n.target]
            v = n.value
            empty_map = (isinstance(v, ast.Dict) and not v.keys) or (isinstance(v, ast.Call) and call_name(v) in ("dict", "OrderedDict", "defaultdict", "LRUCache") )
            for t in ts:
                if self_attr(t) and empty_map:
                    cands.append(self_attr(t))
    used = []
    for a in cands:
        for m in parser.methods.values():
            if m.name == "__init__":
                continue
            if any(isinstance(n, ast.Subscript) and self_attr(n.value) == a for n in walk_local(m.node)) or \
               any(isinstance(n, ast.Compare) and any(self_attr(c) == a for c in n.comparators) for n in walk_local(m.node)):
                used.append(a)
                break
    if len(used) != 1:
        raise AnalysisError(f"Parser: expected exactly one memo mapping, found {used}")
    return used[0]  # type: ignore[return-value]


def memo_helpers(parser: ClassInfo, memo: str) -> tuple[dict[str, int], dict[str, tuple[int, int]]]:
    """Small methods that wrap the memo: getters {name: index of the key parameter} return an entry (self.M.get(k) / self.M[k]),
    setters {name: (key index, value index)} store a parameter under a parameter (self.M[k] = v).  Indices are positions among the
    non-self parameters."""
    getters: dict[str, int] = {}
    setters: dict[str, tuple[int, int]] = {}
    for m in parser.methods.values():
        if m.name in ("__init__", "parse_forest") or m.is_generator():
            continue
        ps = [p for p in m.params() if p != "self"]
        for n in walk_local(m.node):
            if isinstance(n, ast.Assign) and len(n.targets) == 1 and isinstance(n.targets[0], ast.Subscript) and self_attr(n.targets[0].value) == memo \
                    and isinstance(n.targets[0].slice, ast.Name) and n.targets[0].slice.id in ps and isinstance(n.value, ast.Name) and n.value.id in ps:
                setters[m.name] = (ps.index(n.targets[0].slice.id), ps.index(n.value.id))
        if m.name in setters:
            continue
        reads = []
        for n in walk_local(m.node):
            if isinstance(n, ast.Subscript) and self_attr(n.value) == memo and isinstance(n.slice, ast.Name) and n.slice.id in ps and isinstance(n.ctx, ast.Load):
                reads.append(n.slice.id)
            if isinstance(n, ast.Call) and isinstance(n.func, ast.Attribute) and n.func.attr == "get" and self_attr(n.func.value) == memo and n.args and isinstance(n.args[0], ast.Name) and n.args[0].id in ps:
                reads.append(n.args[0].id)
        if reads and any(isinstance(n, ast.Return) and n.value is not None for n in walk_local(m.node)):
            getters[m.name] = ps.index(reads[0])
    return getters, setters


def key_constructions(parser: ClassInfo, memo: str, getters: dict[str, int], setters: dict[str, tuple[int, int]]) -> list[tuple[FuncInfo, ast.AST, int]]:
    """(function, key expression, line) for every expression used as a key of the memo, traced through local variables
    and through the key parameter of the helper methods back to where the key is built."""
    out: list[tuple[FuncInfo, ast.AST, int]] = []

    def resolve(f: FuncInfo, e: ast.AST, line: int, depth: int = 0) -> None:
        if depth > 4:
            return
        if isinstance(e, ast.Name):
            ps = [p for p in f.params() if p != "self"]
            defs = [n for n in walk_local(f.node) if isinstance(n, (ast.Assign, ast.AnnAssign)) and n.value is not None
                    and any(isinstance(t, ast.Name) and t.id == e.id for t in (n.targets if isinstance(n, ast.Assign) else [n.target]))]
            if defs:
                for d in defs:
                    resolve(f, d.value, d.lineno, depth + 1)  # type: ignore[arg-type]
                return
            if e.id in ps:
                idx = ps.index(e.id)
                for g in parser.methods.values():
                    for c in walk_local(g.node):
                        if isinstance(c, ast.Call) and isinstance(c.func, ast.Attribute) and self_attr(c.func) == f.name and len(c.args) > idx:
                            resolve(g, c.args[idx], c.lineno, depth + 1)
                return
        out.append((f, e, line))

    for m in parser.methods.values():
        for n in walk_local(m.node):
            k = None
            if isinstance(n, ast.Subscript) and self_attr(n.value) == memo:
                k = n.slice
            elif isinstance(n, ast.Compare) and len(n.ops) == 1 and isinstance(n.ops[0], (ast.In, ast.NotIn)) and self_attr(n.comparators[0]) == memo:
                k = n.left
            elif isinstance(n, ast.Call) and isinstance(n.func, ast.Attribute) and n.func.attr in ("get", "pop", "setdefault", "move_to_end") and self_attr(n.func.value) == memo and n.args:
                k = n.args[0]
            if k is not None and not any(self_attr(x) == memo for x in ast.walk(k)):  # keys taken from the memo itself: eviction / maintenance
                resolve(m, k, n.lineno)
    # one entry per (function, expression text)
    seen = set()
    uniq = []
    for f, e, ln in out:
        key = (f.fq, norm(e))
        if key not in seen:
            seen.add(key)
            uniq.append((f, e, ln))
    return uniq


def rule_e(chk: Check, eng: Engine, parser: ClassInfo, memo: str, getters, setters, rule: str = "R12-e", only: Optional[set[str]] = None) -> None:
    """R12-e key completeness: every variable handed to the producer of a forest (the call iterated on the miss path) is a
    component of the memo key built in the same function - otherwise two requests that differ in it share an entry."""
    kcs = key_constructions(parser, memo, getters, setters)
    if not kcs:
        raise AnalysisError("Parser: no construction of a memo key found")
    for f, e, ln in kcs:
        if not isinstance(e, ast.Tuple):
            chk.bad(rule, eng.relfile(f), ln, f.fq, f"memo key `{short(e, 60)}` is not a tuple of the request's parameters", "the key's coverage cannot be established", keyparts="key-shape")
            continue
        key_names = {n.id for el in e.elts for n in ast.walk(el) if isinstance(n, ast.Name)}
        producers = []
        # calls of the class's own generator methods (wherever they are consumed: a for loop, next(), a wrapper object) ...
        for n in walk_local(f.node):
            if isinstance(n, ast.Call) and isinstance(n.func, ast.Attribute) and self_attr(n.func) is not None and n.func.attr != f.name:
                callee = parser.lookup(n.func.attr)
                if callee is not None and callee.is_generator():
                    producers.append(n)
        # ... or, failing that, any iterated call on self next to a yield
        for n in walk_local(f.node):
            if producers:
                break
            if isinstance(n, ast.For) and isinstance(n.iter, ast.Call) and isinstance(n.iter.func, ast.Attribute) and isinstance(n.iter.func.value, (ast.Name, ast.Attribute)) \
                    and norm(n.iter.func.value).split(".")[0] == "self" and any(isinstance(y, (ast.Yield, ast.YieldFrom)) for y in ast.walk(n)):
                producers.append(n.iter)
        if not producers:
            raise AnalysisError(f"{f.fq}: no producer loop (`for tree in self.<producer>(...)` with a yield) found next to the memo key")
        for pc in producers:
            args = list(pc.args) + [k.value for k in pc.keywords]
            used = sorted({n.id for a in args for n in ast.walk(a) if isinstance(n, ast.Name)} - {"self"})
            missing = [u for u in used if u not in key_names and (only is None or u in only)]
            if only is not None and not (set(used) & only):
                raise AnalysisError(f"{f.fq}: the producer call no longer takes {sorted(only)}")
            if missing:
                chk.bad(rule, eng.relfile(f), ln, f.fq, f"memo key `{short(e, 70)}` omits `{', '.join(missing)}`, which `{short(pc, 50)}` depends on",
                        "two parse requests that differ only in that value share one memo entry: the second is answered with the forest of the first "
                        "(e.g. a prefix-mode forest served to a complete-mode parse)", keyparts="key-omits|" + ",".join(missing))
            else:
                chk.ok(rule, f.fq, ln, f"memo key `{short(e, 60)}` covers every input of `{short(pc, 40)}`: {used if only is None else sorted(only)}")


MEMO_SCOPE = ("fandango.language.symbols", "fandango.language.grammar", "fandango.io.navigation", "fandango.language.tree", "fandango.language.search")


def memo_input_rule(chk: Check, eng: Engine, rule: str, scope: tuple = MEMO_SCOPE) -> int:
    """A value kept on a long-lived object (a symbol, a grammar node, a converter) and handed out again later answers for *every* later call.
    (a) one-slot memo (`if self.x is None: self.x = f(...)`): the computed value must not depend on a parameter of the method - the slot
        holds the answer for the first argument only;
    (b) keyed memo with a hit path (`if k in self.d: return self.e[k]` ... `self.e[k] = v`): every attribute of a parameter object that
        the stored value is built from must also determine the key."""
    n = 0
    for f in eng.ix.all_functions:
        if not f.module.startswith(scope) or f.cls is None:
            continue
        params = [p_ for p_ in f.params() if p_ != "self"]
        if not params:
            continue
        local_defs: dict[str, list[ast.AST]] = {}
        for a in walk_local(f.node):
            if isinstance(a, ast.Assign):
                for t_ in a.targets:
                    if isinstance(t_, ast.Name):
                        local_defs.setdefault(t_.id, []).append(a.value)

        def param_deps(e: ast.AST, depth: int = 0) -> set[str]:
            """`p` / `p.attr` of parameters that expression e depends on (through local definitions)."""
            out: set[str] = set()
            for x in ast.walk(e):
                if isinstance(x, ast.Attribute) and isinstance(x.value, ast.Name) and x.value.id in params:
                    out.add(f"{x.value.id}.{x.attr}")
                elif isinstance(x, ast.Name) and x.id in params:
                    out.add(x.id)
                elif isinstance(x, ast.Name) and x.id in local_defs and depth < 3:
                    for d in local_defs[x.id]:
                        out |= param_deps(d, depth + 1)
            # `p.attr` subsumes the bare mention of p inside it
            return {d for d in out if "." in d or not any(o.startswith(d + ".") for o in out)}

        # (a) one-slot memo
        slot_locals = {t_.id: (self_attr(a.value) or (a.value.args[1].value if isinstance(a.value, ast.Call) and call_name(a.value) == "getattr" and len(a.value.args) >= 2
                                                      and isinstance(a.value.args[1], ast.Constant) and norm(a.value.args[0]) == "self" else None))
                       for a in walk_local(f.node) if isinstance(a, ast.Assign) for t_ in a.targets if isinstance(t_, ast.Name)}
        for i_ in walk_local(f.node):
            if not (isinstance(i_, ast.If) and isinstance(i_.test, ast.Compare) and len(i_.test.ops) == 1 and isinstance(i_.test.ops[0], ast.Is)
                    and isinstance(i_.test.comparators[0], ast.Constant) and i_.test.comparators[0].value is None):
                continue
            slot = self_attr(i_.test.left) or (slot_locals.get(i_.test.left.id) if isinstance(i_.test.left, ast.Name) else None)
            if not slot:
                continue
            for a in ast.walk(i_):
                if isinstance(a, ast.Assign) and any(self_attr(t_) == slot for t_ in a.targets):
                    n += 1
                    deps = param_deps(a.value)
                    if deps:
                        chk.bad(rule, eng.relfile(f), a.lineno, f.fq, f"the one-slot memo `self.{slot}` is filled with `{short(a.value, 50)}`, which depends on the argument(s) {sorted(deps)}",
                                "the object outlives the call: the value computed for the first argument is served for every later one (e.g. a pattern compiled for text input is "
                                "applied to bytes input of a later parse)", keyparts=f"one-slot-memo|{slot}")
                    else:
                        chk.ok(rule, f.fq, a.lineno, f"one-slot memo `self.{slot}` does not depend on any argument")
        # (b) keyed memo with a hit path
        hits = []
        for i_ in walk_local(f.node):
            if isinstance(i_, ast.If) and isinstance(i_.test, ast.Compare) and len(i_.test.ops) == 1 and isinstance(i_.test.ops[0], ast.In) and self_attr(i_.test.comparators[0]):
                rets = [r for r in i_.body if isinstance(r, ast.Return) and isinstance(r.value, ast.Subscript) and self_attr(r.value.value)]
                for r in rets:
                    hits.append((i_.test.left, self_attr(r.value.value), r.value.slice))
        for key_expr, store_attr, _ in hits:
            for a in walk_local(f.node):
                if isinstance(a, ast.Assign) and len(a.targets) == 1 and isinstance(a.targets[0], ast.Subscript) and self_attr(a.targets[0].value) == store_attr:
                    n += 1
                    kdeps = param_deps(a.targets[0].slice) | param_deps(key_expr)
                    vdeps = param_deps(a.value)
                    missing = sorted(d for d in vdeps if d not in kdeps and d.split(".")[0] not in kdeps)
                    # a parameter object used as the key covers only what its __eq__ / __hash__ look at
                    for d in sorted(vdeps):
                        base_, _, attr_ = d.partition(".")
                        if attr_ and base_ in kdeps and d not in kdeps:
                            ident = _identity_of_param(eng, f, base_)
                            if ident is not None and attr_ not in ident and attr_.lstrip("_") not in {i.lstrip("_") for i in ident}:
                                missing.append(f"{d} (the key `{base_}` is compared by {sorted(ident)} only)")
                    if missing:
                        chk.bad(rule, eng.relfile(f), a.lineno, f.fq, f"`{short(a, 60)}` is served again for every later key `{short(key_expr, 30)}`, but it is built from {missing}, which the key does not cover",
                                "the first value stored under a key answers for all later arguments with that key: e.g. the replacement node of a message type keeps the sender and recipient of its first "
                                "occurrence", keyparts=f"keyed-memo|{store_attr}|" + ",".join(missing))
                    else:
                        chk.ok(rule, f.fq, a.lineno, f"keyed memo `self.{store_attr}`: the key covers every input of the stored value")
        # (c) keyed memo through `.get`: `v = self.d.get(k)` / `if v is None: <produce>; self.d[k] = v` - besides the parameters, the producer may
        #     read state of the object that somebody else sets before the call (a hidden input); the key has to cover that as well
        for g in walk_local(f.node):
            if not (isinstance(g, ast.Assign) and len(g.targets) == 1 and isinstance(g.targets[0], ast.Name) and isinstance(g.value, ast.Call)
                    and isinstance(g.value.func, ast.Attribute) and g.value.func.attr == "get" and self_attr(g.value.func.value) and g.value.args):
                continue
            var, store_attr, key_expr = g.targets[0].id, self_attr(g.value.func.value), g.value.args[0]
            for i_ in walk_local(f.node):
                if not (isinstance(i_, ast.If) and isinstance(i_.test, ast.Compare) and isinstance(i_.test.left, ast.Name) and i_.test.left.id == var
                        and len(i_.test.ops) == 1 and isinstance(i_.test.ops[0], ast.Is) and isinstance(i_.test.comparators[0], ast.Constant) and i_.test.comparators[0].value is None):
                    continue
                stores = [a for a in ast.walk(i_) if isinstance(a, ast.Assign) and len(a.targets) == 1 and isinstance(a.targets[0], ast.Subscript) and self_attr(a.targets[0].value) == store_attr]
                if not stores:
                    continue
                n += 1
                kdeps = param_deps(key_expr)
                vdeps: set[str] = set()
                for st_ in i_.body:
                    for a in ast.walk(st_):
                        if isinstance(a, ast.Assign):
                            vdeps |= param_deps(a.value)
                missing = sorted(d for d in vdeps if d not in kdeps and d.split(".")[0] not in kdeps)
                hidden = _hidden_inputs(eng, f, i_.body)
                if missing or hidden:
                    what = missing + [f"self.{h} (set from outside by {w})" for h, w in sorted(hidden.items())]
                    chk.bad(rule, eng.relfile(f), stores[0].lineno, f.fq, f"the memo `self.{store_attr}[{short(key_expr, 30)}]` is filled from {what}, which the key does not cover",
                            "the entry computed for the first caller is served to every later one with the same key, although what they would compute differs "
                            "(e.g. the parse of a message history depends on the contents of the recorded messages, not only on their types)", keyparts=f"get-memo|{store_attr}|" + ",".join(sorted(hidden) + missing))
                else:
                    chk.ok(rule, f.fq, stores[0].lineno, f"keyed memo `self.{store_attr}` (get / store): the key covers the parameters and no externally set state is read on the miss path")
    return n


def generator_cleanup_rule(chk: Check, eng: Engine, rule: str) -> int:
    """R12-h.  A parse request is a generator, and callers abandon generators (Parser.parse takes the first tree).  The clean-up of a generator -
    a `finally` block, an `except GeneratorExit` - runs when the abandoned object is closed or collected: at an arbitrary later time, possibly
    while another request on the same grammar is suspended between two yields.  It must therefore not write the state the requests share
    (the iterative parser of the grammar): no assignment through `self`, no call of a method that assigns attributes of its receiver."""
    n = 0

    def writes_state(m: FuncInfo, depth: int = 0) -> bool:
        for x in walk_local(m.node):
            if isinstance(x, ast.Attribute) and isinstance(x.ctx, (ast.Store, ast.Del)) and isinstance(x.value, ast.Name) and x.value.id == "self":
                return True
            if depth < 2 and isinstance(x, ast.Call) and isinstance(x.func, ast.Attribute) and self_attr(x.func) and m.cls is not None:
                g = m.cls.lookup(x.func.attr)
                if g is not None and g.fq != m.fq and writes_state(g, depth + 1):
                    return True
        return False

    for f in eng.ix.all_functions:
        if f.cls is None or not (f.module.startswith(PMOD) or (f.module == "fandango.language.grammar.grammar" and f.name.startswith("parse"))) or not f.is_generator():
            continue
        n += 1
        bad = None
        for t in walk_local(f.node):
            if not isinstance(t, ast.Try):
                continue
            cleanup = list(t.finalbody)
            for h in t.handlers:
                if h.type is not None and "GeneratorExit" in norm(h.type):
                    cleanup += h.body
            yields_inside = any(isinstance(y, (ast.Yield, ast.YieldFrom)) for b in t.body for y in ast.walk(b))
            if not cleanup or not yields_inside:
                continue
            env = eng.env(f)
            for st in cleanup:
                for x in ast.walk(st):
                    if isinstance(x, ast.Attribute) and isinstance(x.ctx, (ast.Store, ast.Del)) and norm(x).startswith("self."):
                        bad = bad or (x, f"`{short(st, 60)}` assigns shared state")
                    if isinstance(x, ast.Call) and isinstance(x.func, ast.Attribute) and norm(x.func.value).startswith("self"):
                        for fq in env.type_of(x.func.value) or ({f.cls.fq} if norm(x.func.value) == "self" else set()):
                            mod, _, cname = fq.partition(":")
                            k = eng.ix.modules[mod].classes.get(cname) if mod in eng.ix.modules else None
                            g = k.lookup(x.func.attr) if k is not None else None
                            if g is not None and writes_state(g):
                                bad = bad or (x, f"`{short(x, 50)}` re-initialises state of the shared {cname}")
        if bad:
            chk.bad(rule, eng.relfile(f), bad[0].lineno, f.fq, f"the clean-up of the generator {f.qualname} writes shared parser state: {bad[1]}",
                    "the clean-up runs whenever an abandoned parse iterator is closed or collected - also while another request on the same grammar is half-way through: "
                    "that request continues on a re-initialised parser (wrong mode, empty table) and its truncated forest is cached", keyparts=f"generator-cleanup|{f.qualname}")
        else:
            chk.ok(rule, f.fq, f.line, f"{f.qualname}: no clean-up code that writes shared state runs when the generator is abandoned")
    return n


def _identity_of_param(eng: Engine, f: FuncInfo, param: str) -> Optional[set]:
    """Attributes that __eq__ / __hash__ of the (annotated) class of a parameter look at; None if unknown or identity-hashed."""
    from .common_memo import class_line, identity_fields
    tys = eng.env(f).type_of(ast.Name(id=param, ctx=ast.Load()))
    out: Optional[set] = None
    for fq in tys:
        mod, _, cname = fq.partition(":")
        m = eng.ix.modules.get(mod)
        c = m.classes.get(cname) if m else None
        if c is None:
            continue
        ident = identity_fields(class_line(c))
        if ident is None:
            return None
        out = ident if out is None else (out & ident)
    return out


def _hidden_inputs(eng: Engine, f: FuncInfo, miss_body: list) -> dict:
    """Attributes of self read by the methods the miss path calls (transitively, within the class line) that functions outside the class line
    assign through another receiver (`self._parser.reference_tree = tree`)."""
    assert f.cls is not None
    line = f.cls.mro()
    own = {m.fq for c in line for m in c.methods.values()}
    reads: dict[str, str] = {}
    seen: set[str] = set()
    todo = []
    for st in miss_body:
        for c in ast.walk(st):
            if isinstance(c, ast.Call) and isinstance(c.func, ast.Attribute) and self_attr(c.func):
                m = f.cls.lookup(c.func.attr)
                if m is not None:
                    todo.append(m)
    while todo:
        m = todo.pop()
        if m.fq in seen:
            continue
        seen.add(m.fq)
        for x in walk_local(m.node):
            if isinstance(x, ast.Attribute) and isinstance(x.ctx, ast.Load):
                a = self_attr(x)
                if a is not None:
                    g = f.cls.lookup(a)
                    if g is None:
                        reads.setdefault(a, m.qualname)
            if isinstance(x, ast.Call) and isinstance(x.func, ast.Attribute) and self_attr(x.func):
                g = f.cls.lookup(x.func.attr)
                if g is not None and len(seen) < 60:
                    todo.append(g)
    if not reads:
        return {}
    hidden: dict[str, str] = {}
    for g in eng.ix.all_functions:
        if g.fq in own:
            continue
        for x in walk_local(g.node):
            if isinstance(x, ast.Attribute) and isinstance(x.ctx, ast.Store) and x.attr in reads and not (isinstance(x.value, ast.Name) and x.value.id == "self"):
                tys = eng.env(g).type_of(x.value)
                if not tys or any(t in {c.fq for c in line} or t in {s_.fq for c in line for s_ in c.all_subclasses()} for t in tys):
                    hidden.setdefault(x.attr, g.qualname)
    return hidden


def run(chk: Check, eng: Engine) -> None:
    chk.rule("R12-f", "values memoised on symbols, grammar nodes and converters do not depend on inputs their slot / key does not cover", floor=2)
    if memo_input_rule(chk, eng, "R12-f") < 2:
        raise AnalysisError("fewer than two memo idioms found on long-lived objects")
    chk.rule("R12-h", "the clean-up of a parse generator (finally / except GeneratorExit around its yields) writes no state that parse requests share", floor=3)
    if generator_cleanup_rule(chk, eng, "R12-h") < 3:
        raise AnalysisError("fewer than three parse generators found")
    chk.rule("R12-g", "no function a parse request reaches is memoised by a decorator whose key leaves out something the function reads", floor=1)
    from .common_memo import decorated_memo_rule
    decorated_memo_rule(chk, eng, "R12-g", [f.fq for f in eng.ix.all_functions if f.cls is not None and f.cls.name == "Grammar" and f.name.startswith("parse")], "parse results")
    chk.rule("R12-a", "a parse-forest memo entry is published only after the producing loop is exhausted; only Parser writes the memo", floor=2)
    chk.rule("R12-b", "no tree object is both stored in the memo and handed out (collapse() results alias their argument)", floor=2)
    chk.rule("R12-c", "every IterativeParser attribute written while consuming input is reset by new_parse", floor=5)
    chk.rule("R12-d", "hit path and miss path of the memo yield under the same conditions on boolean parameters", floor=2)
    chk.rule("R12-e", "the memo key covers every variable the forest producer is called with", floor=1)
    chk.not_decided += ["that the Earley run itself is a function of (grammar, word)", "on-disk spec cache"]

    parser = eng.cls(f"{PMOD}.parser", "Parser")
    pf = eng.method(parser, "parse_forest")
    cfg = eng.cfg(pf)
    file = eng.relfile(pf)
    # memo attribute: the dict-like attribute of Parser that is created empty in __init__ and indexed by a key elsewhere
    memo = memo_attribute(eng, parser)
    getters, setters = memo_helpers(parser, memo)

    def is_memo_read(e: ast.AST) -> bool:
        """self.M[k] | self.M.get(k) | self.<getter>(k)"""
        if isinstance(e, ast.Subscript) and self_attr(e.value) == memo:
            return True
        if isinstance(e, ast.Call) and isinstance(e.func, ast.Attribute):
            if e.func.attr == "get" and self_attr(e.func.value) == memo:
                return True
            if self_attr(e.func) in getters:
                return True
        return False

    def setter_call(n: ast.AST) -> Optional[ast.Call]:
        for c in ast.walk(n):
            if isinstance(c, ast.Call) and isinstance(c.func, ast.Attribute) and self_attr(c.func) in setters:
                return c
        return None

    # hit test: `key in self.M` / `key not in self.M`, or a None / truth test of a variable read from the memo
    memo_read_names = {t.id for n in walk_local(pf.node) if isinstance(n, (ast.Assign, ast.AnnAssign)) and n.value is not None and is_memo_read(n.value)
                       for t in (n.targets if isinstance(n, ast.Assign) else [n.target]) if isinstance(t, ast.Name)}
    hit_if = None
    hit_is_true = True
    for n in cfg.nodes:
        if n.kind == "if" and hit_if is None:
            t = n.ast.test  # type: ignore[union-attr]
            if isinstance(t, ast.Compare) and len(t.ops) == 1 and isinstance(t.ops[0], (ast.In, ast.NotIn)) and self_attr(t.comparators[0]) == memo:
                hit_if, hit_is_true = n, isinstance(t.ops[0], ast.In)
            elif isinstance(t, ast.Compare) and len(t.ops) == 1 and isinstance(t.ops[0], (ast.Is, ast.IsNot)) and isinstance(t.left, ast.Name) and t.left.id in memo_read_names \
                    and isinstance(t.comparators[0], ast.Constant) and t.comparators[0].value is None:
                hit_if, hit_is_true = n, isinstance(t.ops[0], ast.IsNot)
            elif isinstance(t, ast.Name) and t.id in memo_read_names:
                hit_if, hit_is_true = n, True
            elif isinstance(t, ast.UnaryOp) and isinstance(t.op, ast.Not) and isinstance(t.operand, ast.Name) and t.operand.id in memo_read_names:
                hit_if, hit_is_true = n, False
    if hit_if is None:
        raise AnalysisError(f"Parser.parse_forest: no hit test of the memo `{memo}` found (`key in self.{memo}` or a None test of a value read from it)")

    rule_e(chk, eng, parser, memo, getters, setters)
    yields = [n for n in cfg.nodes if n.kind == "stmt" and isinstance(n.ast, ast.Expr) and isinstance(n.ast.value, (ast.Yield, ast.YieldFrom))]
    if not yields:
        raise AnalysisError("Parser.parse_forest: no yield")
    # aliases of lists that end up in the memo: `forest = []` ... `self._cache[key] = forest`
    aliases: set[str] = set()
    for n in walk_local(pf.node):
        if isinstance(n, ast.Assign):
            for t in n.targets:
                if isinstance(t, ast.Subscript) and self_attr(t.value) == memo and isinstance(n.value, ast.Name):
                    aliases.add(n.value.id)
        sc = setter_call(n) if isinstance(n, ast.Expr) else None
        if sc is not None:
            for a_ in sc.args[1:]:
                if isinstance(a_, ast.Name):
                    aliases.add(a_.id)
    stores = [n for n in cfg.nodes if n.kind == "stmt" and n.ast is not None and (is_memo_attr_store(n.ast, memo) or setter_call(n.ast) is not None)]
    if not stores:
        chk.ok("R12-a", pf.fq, pf.line, "no memo store at all (nothing is cached)", nontrivial=False)
    for s in stores:
        after = cfg.reach([s.id], ignore=("exc-out", "raise-out", "abandon"))
        y_after = [y for y in yields if y.id in after]
        if y_after:
            p = cfg.find_path(s.id, [y_after[0].id], ignore=("exc-out", "raise-out", "abandon"))
            chk.bad("R12-a", file, s.line, pf.fq, f"memo store `{s.text()}` happens while the forest is still being produced",
                    "a caller that stops after the first tree (Parser.parse does) leaves a truncated forest in the memo; the next "
                    "parse_forest call for the same input is served that prefix instead of the full forest",
                    path=cfg.describe_path(p) if p else [], keyparts="store-before-exhaustion")
        else:
            chk.ok("R12-a", pf.fq, s.line, f"`{s.text()}`: no yield reachable afterwards (stored after exhaustion)")
        # abandonment paths
        for y in yields:
            ab = [b for b, lab in cfg.succ[y.id] if lab == "abandon"]
            if ab:
                r = {ab[0]} | cfg.reach(ab, ignore=("exc-out", "raise-out"))
                if s.id in r:
                    chk.bad("R12-a", file, s.line, pf.fq, f"memo store `{s.text()}` runs when the generator is abandoned",
                            "an abandoned iteration publishes a partial forest", keyparts="store-on-abandon")
    # who may write the memo
    writers = 0
    for f in eng.ix.all_functions:
        if f.cls is parser:
            continue
        for n in walk_local(f.node):
            if isinstance(n, ast.Attribute) and n.attr == memo and not (isinstance(n.value, ast.Name) and n.value.id == "self" and f.cls is not None and not f.cls.is_subclass_of(parser)):
                # x._cache where x is a Parser
                if f.module.startswith("fandango.language.grammar") or "parser" in norm(n.value).lower():
                    ty = eng.env(f).type_of(n.value)
                    if parser.fq in ty or (not ty and "parser" in norm(n.value).lower()):
                        writers += 1
                        chk.bad("R12-a", eng.relfile(f), n.lineno, f.fq, f"`{short(n)}` touches the parse memo outside Parser",
                                "the memo protocol (publish after completion, serve copies) can be bypassed", keyparts="outside-access")
    chk.ok("R12-a", "fandango.*", 0, f"parse memo `{memo}` is accessed only by Parser ({writers} outside accesses)")

    # R12-b -----------------------------------------------------------------
    rd = ReachingDefs(cfg, pf.params())
    # uses: (node, name, role)
    store_uses: list[tuple[int, str]] = []
    for s in cfg.nodes:
        if s.kind == "stmt" and s.ast is not None:
            for nm in stored_names(s.ast, memo, aliases):
                store_uses.append((s.id, nm))
            sc = setter_call(s.ast)
            if sc is not None:
                for a_ in sc.args[1:]:
                    for nm in uses_in(a_):
                        store_uses.append((s.id, nm))
    # loop variables iterating the memo entry (hit path) are memo objects by definition
    memo_defs: set[tuple[int, str]] = set()
    memo_list_names = set(aliases)
    for n in cfg.nodes:
        if n.kind == "stmt" and isinstance(n.ast, ast.Assign) and is_memo_read(n.ast.value):
            for t in n.ast.targets:
                if isinstance(t, ast.Name):
                    memo_list_names.add(t.id)
    for n in cfg.nodes:
        if n.kind == "for":
            it = n.ast.iter  # type: ignore[union-attr]
            if (isinstance(it, ast.Name) and it.id in memo_list_names) or is_memo_read(it):
                if isinstance(n.ast.target, ast.Name):  # type: ignore[union-attr]
                    memo_defs.add((n.id, n.ast.target.id))  # type: ignore[union-attr]
    for sid, nm in store_uses:
        for d in rd.defs_reaching(sid, nm):
            memo_defs.add((d, nm))

    FRESH_CALLS = {"deepcopy"}
    # does collapse() hand out something that shares structure with its argument?
    from ..effects import EffectAnalysis, base_of

    ea = EffectAnalysis(eng)
    ipc = eng.cls(f"{PMOD}.iterative_parser", "IterativeParser")
    collapse_alias: list[str] = []
    for mname in ("collapse", "_collapse"):
        m = ipc.lookup(mname)
        if m is None:
            continue
        sm = ea.summary(m, ipc)
        regs = {r for r in sm.ret.B if base_of(r).startswith("p:")} | {r for (_, r) in sm.ret.R if base_of(r).startswith("p:")}
        if regs:
            collapse_alias.append(f"{mname}() returns an object in / linked to {sorted(regs)}")
        tparams = [p_ for p_ in m.params() if p_ != "self"]
        for c in walk_local(m.node):
            if isinstance(c, ast.Call) and call_name(c) in ("DerivationTree", "ParserDerivationTree", "SliceTree"):
                for kw in c.keywords:
                    if kw.arg in ("sources", "origin_repetitions", "children") and isinstance(kw.value, ast.Attribute) \
                            and isinstance(kw.value.value, ast.Name) and kw.value.value.id in tparams:
                        collapse_alias.append(f"{mname}() passes `{kw.arg}={short(kw.value)}` by reference")
    collapse_is_fresh = not collapse_alias

    def origin_defs(node: int, e: ast.AST, depth: int = 0) -> set[tuple[int, str]]:
        """Definitions whose object may be (part of) the value of expression e at `node`."""
        out: set[tuple[int, str]] = set()
        if depth > 4:
            return out
        if isinstance(e, ast.Name):
            for d in rd.defs_reaching(node, e.id):
                out.add((d, e.id))
                v = rd.def_value(d, e.id)
                if v is not None and not isinstance(v, ast.AugAssign):
                    if isinstance(v, ast.Call) and call_name(v) in FRESH_CALLS:
                        continue
                    if isinstance(v, ast.Call) and call_name(v) in ("collapse", "_collapse") and not collapse_is_fresh:
                        for a in v.args:
                            out |= origin_defs(d, a, depth + 1)
            return out
        if isinstance(e, ast.Call):
            if call_name(e) in FRESH_CALLS:
                return out
            if call_name(e) in ("collapse", "_collapse") and not collapse_is_fresh:
                for a in e.args:
                    out |= origin_defs(node, a, depth + 1)
            return out
        return out

    n_y = 0
    for y in yields:
        val = y.ast.value.value  # type: ignore[union-attr]
        if val is None:
            continue
        n_y += 1
        od = origin_defs(y.id, val)
        shared = od & memo_defs
        if shared:
            d, nm = sorted(shared)[0]
            dn = cfg.nodes[d]
            via = "collapse() of " if not (isinstance(val, ast.Name) and (d, val.id) in memo_defs) else ""
            chk.bad("R12-b", file, y.line, pf.fq, f"`{y.text()}` hands out {via}the object defined at `{dn.text()}` which is also kept in the memo"
                    + (f" [{'; '.join(collapse_alias)}]" if via else ""),
                    "the caller (fuzz-internal repair, populate_sources, user code) mutates a structure the memo still references, so later "
                    "parses of the same input return altered trees",
                    keyparts=f"shared|{'collapse' if via else 'direct'}|{short(dn.ast, 50) if dn.ast is not None else ''}")
        else:
            chk.ok("R12-b", pf.fq, y.line, f"`{y.text()}`: value originates from a copy, not from a memo-resident object"
                   + (" (collapse() builds a tree that shares nothing with its argument)" if collapse_is_fresh else ""))
    if n_y == 0:
        raise AnalysisError("Parser.parse_forest: no value-yield found")
    chk.ok("R12-b", f"{PMOD}.iterative_parser:IterativeParser._collapse", 0,
           "collapse() result is FRESH w.r.t. its argument" if collapse_is_fresh else "collapse() result aliases its argument: " + "; ".join(collapse_alias))

    # R12-d -----------------------------------------------------------------
    bool_params = []
    a = pf.node.args  # type: ignore[attr-defined]
    for arg in a.args + a.kwonlyargs:
        if arg.annotation is not None and norm(arg.annotation) == "bool":
            bool_params.append(arg.arg)
    hit_edge = "true" if hit_is_true else "false"
    miss_edge = "false" if hit_is_true else "true"
    hit_start = [b for b, lab in cfg.succ[hit_if.id] if lab == hit_edge]
    miss_start = [b for b, lab in cfg.succ[hit_if.id] if lab == miss_edge]
    for bp in bool_params:
        for val in (True, False):
            ige = set()
            for g in cfg.nodes:
                if g.kind == "if":
                    t = g.ast.test  # type: ignore[union-attr]
                    if isinstance(t, ast.Name) and t.id == bp:
                        ige.add((g.id, "false" if val else "true"))
                    elif isinstance(t, ast.UnaryOp) and isinstance(t.op, ast.Not) and isinstance(t.operand, ast.Name) and t.operand.id == bp:
                        ige.add((g.id, "true" if val else "false"))
            ign = ("exc-out", "raise-out", "abandon")
            hit_reach = set(hit_start) | cfg.reach(hit_start, ignore=ign, ignore_edges=ige)
            miss_reach = set(miss_start) | cfg.reach(miss_start, ignore=ign, ignore_edges=ige)
            hy = any(y.id in hit_reach for y in yields)
            my = any(y.id in miss_reach for y in yields)
            if hy == my:
                chk.ok("R12-d", pf.fq, hit_if.line, f"{bp}={val}: hit path yields={hy}, miss path yields={my}")
            else:
                chk.bad("R12-d", file, hit_if.line, pf.fq, f"with {bp}={val} the miss path yields trees but the hit path yields {'trees' if hy else 'nothing'}",
                        "the second identical request is answered differently from the first one (served from the memo)",
                        keyparts=f"hit-miss-disagree|{bp}={val}")

    # R12-c -----------------------------------------------------------------
    ip = eng.cls(f"{PMOD}.iterative_parser", "IterativeParser")
    new_parse = eng.method(ip, "new_parse")

    def self_calls(f: FuncInfo) -> set[str]:
        return {c.func.attr for c in walk_local(f.node) if isinstance(c, ast.Call) and isinstance(c.func, ast.Attribute) and self_attr(c.func) is not None}

    def closure(start: list[str]) -> set[str]:
        seen: set[str] = set()
        todo = list(start)
        while todo:
            m = todo.pop()
            if m in seen:
                continue
            f = ip.lookup(m)
            if f is None:
                continue
            seen.add(m)
            todo.extend(self_calls(f))
        return seen

    MUT = {"append", "extend", "insert", "add", "update", "remove", "pop", "clear", "discard", "setdefault"}

    def written(f: FuncInfo) -> dict[str, int]:
        out: dict[str, int] = {}
        for n in walk_local(f.node):
            if isinstance(n, (ast.Assign, ast.AugAssign, ast.AnnAssign)):
                ts = n.targets if isinstance(n, ast.Assign) else [n.target]
                for t in ts:
                    for x in ([t] if not isinstance(t, (ast.Tuple, ast.List)) else t.elts):
                        b = x.value if isinstance(x, ast.Subscript) else x
                        if self_attr(b):
                            out.setdefault(self_attr(b), n.lineno)  # type: ignore[arg-type]
            elif isinstance(n, ast.Call) and isinstance(n.func, ast.Attribute) and n.func.attr in MUT:
                b = n.func.value
                while isinstance(b, ast.Subscript):
                    b = b.value
                if self_attr(b):
                    out.setdefault(self_attr(b), n.lineno)  # type: ignore[arg-type]
        return out

    consume_side = closure(["consume", "_consume"]) - {"new_parse"}
    reset_side = closure(["new_parse"])
    w: dict[tuple[str, str], tuple[str, int]] = {}
    for m in sorted(consume_side):
        f = ip.lookup(m)
        assert f is not None
        for attr, ln in written(f).items():
            w.setdefault((attr, m), (f.fq, ln))
    r: set[str] = set()
    for m in reset_side:
        f = ip.lookup(m)
        assert f is not None
        r |= set(written(f))
    if len(w) < 4:
        raise AnalysisError(f"only {len(w)} attributes found that are written while consuming input: {sorted(w)}")
    for (attr, m), (where, ln) in sorted(w.items()):
        if attr in r:
            chk.ok("R12-c", where, ln, f"self.{attr} is written while parsing and re-initialised by new_parse")
        elif RESET_EXCEPTIONS.get((attr, m)):
            chk.ok("R12-c", where, ln, f"self.{attr} not reset - accepted: {RESET_EXCEPTIONS[(attr, m)]}", nontrivial=False)
        else:
            chk.bad("R12-c", eng.relfile(new_parse), ln, where, f"self.{attr} is written during a parse but not reset by new_parse",
                    "state of an earlier parse (another input, an abandoned iteration) leaks into the next one", keyparts=f"not-reset|{attr}")


# ------------------------------------------------------------------ self-test variants
from ..mutants import M  # noqa: E402

_P = "src/fandango/language/grammar/parser/parser.py"
_IP = "src/fandango/language/grammar/parser/iterative_parser.py"
MUTANTS = [
    M("parse-generator-resets-the-parser-on-close", "src/fandango/language/grammar/parser/parser.py", "        for tree, is_complete in self._iter_parser.consume(word):\n            yield tree\n",
      "        try:\n            for tree, is_complete in self._iter_parser.consume(word):\n                yield tree\n        finally:\n            self._iter_parser.new_parse()\n", "R12-h"),
    M("forest-key-drops-mode", _P, "        cache_key = (word, start, mode, hookin_parent, starter_bit)\n", "        cache_key = (word, start, hookin_parent, starter_bit)\n", "R12-e"),
    M("forest-key-drops-starter-bit", _P, "        cache_key = (word, start, mode, hookin_parent, starter_bit)\n", "        cache_key = (word, start, mode, hookin_parent)\n", "R12-e"),
    M("forest-key-through-helper-drops-mode", _P, "        cache_key = (word, start, mode, hookin_parent, starter_bit)\n        forest: list[DerivationTree]\n        if cache_key in self._cache:\n            forest = self._cache[cache_key]\n",
      "        cache_key = (word, start, hookin_parent, starter_bit)\n        forest: list[DerivationTree]\n        cached = self._cached_forest(cache_key)\n        if cached is not None:\n            forest = cached\n", "R12-e",
      more=(("        self._cache: dict[\n            tuple[\n                str | bytes,\n                NonTerminal,\n                ParsingMode,\n                Optional[DerivationTree],\n                int,\n            ],\n            list[DerivationTree],\n        ] = {}\n",
             "        self._cache: dict = {}\n\n    def _cached_forest(self, key):\n        forest = self._cache.get(key)\n        return forest\n\n    def _cache_forest(self, key, forest) -> None:\n        self._cache[key] = forest\n        while len(self._cache) > 2048:\n            self._cache.pop(next(iter(self._cache)))\n"),
            ("        self._cache[cache_key] = forest\n", "        self._cache_forest(cache_key, forest)\n"))),
    M("store-inside-loop", _P, "            forest.append(tree)\n", "            forest.append(tree)\n            self._cache[cache_key] = forest\n", "R12-a"),
    M("store-in-finally", _P, "        forest = []\n        for tree in self._parse_forest(", "        forest = []\n        self._cache[cache_key] = forest\n        for tree in self._parse_forest(", "R12-a"),
    M("yield-cached-object", _P, "                yield deepcopy(tree)\n", "                yield tree\n", "R12-b"),
    M("hit-path-no-copy", _P, "            for tree in forest:\n                tree = deepcopy(tree)\n", "            for tree in forest:\n", "R12-b"),
    M("collapse-shares-tags", _IP, "                origin_repetitions=list(tree.origin_repetitions),\n            )\n        ]", "                origin_repetitions=tree.origin_repetitions,\n            )\n        ]", "R12-b"),
    M("hit-path-drops-controlflow", _P, "                if include_controlflow:\n                    yield tree\n                else:\n                    collapsed = self.collapse(tree)\n                    if collapsed is not None:\n                        yield collapsed\n            return",
      "                if not include_controlflow:\n                    collapsed = self.collapse(tree)\n                    if collapsed is not None:\n                        yield collapsed\n            return", "R12-d"),
    M("new-parse-keeps-incomplete", _IP, "        self._incomplete.clear()\n        self._max_position = -1\n", "        self._max_position = -1\n", "R12-c"),
    M("new-parse-keeps-first-consume", _IP, "        self._first_consume = True\n        self._incomplete.clear()", "        self._incomplete.clear()", "R12-c"),
]
TWINS = [
    M("twin-parse-generator-logs-on-close", "src/fandango/language/grammar/parser/parser.py", "        for tree, is_complete in self._iter_parser.consume(word):\n            yield tree\n",
      "        try:\n            for tree, is_complete in self._iter_parser.consume(word):\n                yield tree\n        finally:\n            position = self._iter_parser.max_position()\n", None),
    M("twin-forest-key-renamed", _P, "cache_key", "memo_key", None, count=4),
    M("twin-forest-memo-behind-helpers", _P, "        cache_key = (word, start, mode, hookin_parent, starter_bit)\n        forest: list[DerivationTree]\n        if cache_key in self._cache:\n            forest = self._cache[cache_key]\n",
      "        cache_key = (word, start, mode, hookin_parent, starter_bit)\n        forest: list[DerivationTree]\n        cached = self._cached_forest(cache_key)\n        if cached is not None:\n            forest = cached\n", None,
      more=(("        self._cache: dict[\n            tuple[\n                str | bytes,\n                NonTerminal,\n                ParsingMode,\n                Optional[DerivationTree],\n                int,\n            ],\n            list[DerivationTree],\n        ] = {}\n",
             "        self._cache: dict = {}\n\n    def _cached_forest(self, key):\n        forest = self._cache.get(key)\n        return forest\n\n    def _cache_forest(self, key, forest) -> None:\n        self._cache[key] = forest\n        while len(self._cache) > 2048:\n            self._cache.pop(next(iter(self._cache)))\n"),
            ("        self._cache[cache_key] = forest\n", "        self._cache_forest(cache_key, forest)\n"))),
    M("twin-comment-and-blank", _P, "        self._cache[cache_key] = forest\n", "\n        # store the complete forest\n        self._cache[cache_key] = forest\n", None),
    M("twin-copy-call", _P, "                yield deepcopy(tree)\n", "                cp = deepcopy(tree)\n                yield cp\n", None),
]
