"""Failure-recording obligations of `fitness` methods (shared by C02, C04, C07).

For a `fitness` method of the hard-constraint family the verdict is the `success=` argument of
the fitness object it returns.  That argument is sliced to local accumulators and classified:

  COUNT  success = (S == T)                       fail = T grows, S does not
  ALL1   success = all(x == 1.0 for x in L)       fail = L.append(<constant < 1.0>)
  AGG    success = all/any(f.success for f in L)  (composition of sub-verdicts; no own evaluation)

An exception handler inside the combination loop that can complete normally must, on every path
to the next iteration or to the loop exit, perform the failing update of that class.
"""

from __future__ import annotations

import ast
from dataclasses import dataclass, field
from typing import Optional

from ..cfg import CFG, loop_body_nodes
from ..core import AnalysisError, ClassInfo, FuncInfo, call_name, get_kwarg, norm, self_attr, short, walk_local
from ..engine import Engine

FITNESS_CTORS = {"ConstraintFitness", "DistanceAwareConstraintFitness"}


@dataclass
class Verdict:
    fn: FuncInfo
    ctor: ast.Call
    kind: str  # COUNT ALL1 AGG CONST OTHER
    solved: Optional[str] = None
    total: Optional[str] = None
    lst: Optional[str] = None
    agg: Optional[str] = None  # all / any
    success_expr: Optional[ast.AST] = None


def ctor_param_index(eng: Engine, fn: FuncInfo, ctor_name: str, param: str) -> Optional[int]:
    mod = eng.ix.modules[fn.module]
    r = eng.ix.resolve_name(mod, ctor_name)
    if isinstance(r, ClassInfo):
        init = r.lookup("__init__")
        if init is not None:
            ps = [p for p in init.params() if p != "self"]
            if param in ps:
                return ps.index(param)
    return None


def ctor_arg(eng: Engine, fn: FuncInfo, call: ast.Call, param: str) -> Optional[ast.AST]:
    v = get_kwarg(call, param)
    if v is not None:
        return v
    idx = ctor_param_index(eng, fn, call_name(call), param)
    if idx is not None and idx < len(call.args):
        return call.args[idx]
    return None


def local_defs(fn: FuncInfo, name: str) -> list[ast.AST]:
    out = []
    for n in ast.walk(fn.node):
        if isinstance(n, ast.Assign):
            for t in n.targets:
                if isinstance(t, ast.Name) and t.id == name:
                    out.append(n.value)
        elif isinstance(n, ast.AnnAssign) and isinstance(n.target, ast.Name) and n.target.id == name and n.value is not None:
            out.append(n.value)
    return out


def classify_success(eng: Engine, fn: FuncInfo, e: ast.AST, depth: int = 0) -> Verdict:
    v = Verdict(fn, None, "OTHER", success_expr=e)  # type: ignore[arg-type]
    if isinstance(e, ast.Compare) and len(e.ops) == 1 and isinstance(e.ops[0], ast.Eq) \
            and isinstance(e.left, ast.Name) and isinstance(e.comparators[0], ast.Name):
        v.kind, v.solved, v.total = "COUNT", e.left.id, e.comparators[0].id
        return v
    if isinstance(e, ast.Call) and isinstance(e.func, ast.Name) and e.func.id in ("all", "any") and e.args:
        g = e.args[0]
        if isinstance(g, (ast.GeneratorExp, ast.ListComp)) and len(g.generators) == 1 and isinstance(g.generators[0].iter, ast.Name):
            it = g.generators[0].iter.id
            elt = g.elt
            if isinstance(elt, ast.Compare) and len(elt.ops) == 1 and isinstance(elt.ops[0], ast.Eq) \
                    and isinstance(elt.comparators[0], ast.Constant) and elt.comparators[0].value == 1.0 and e.func.id == "all":
                v.kind, v.lst = "ALL1", it
                return v
            if isinstance(elt, ast.Attribute) and elt.attr == "success":
                v.kind, v.lst, v.agg = "AGG", it, e.func.id
                return v
    if isinstance(e, ast.Constant) and isinstance(e.value, bool):
        v.kind = "CONST"
        return v
    if isinstance(e, ast.Name) and depth < 3:
        defs = local_defs(fn, e.id)
        if len(defs) == 1:
            return classify_success(eng, fn, defs[0], depth + 1)
    return v


def final_verdict(eng: Engine, fn: FuncInfo) -> Optional[Verdict]:
    """The fitness constructor whose result is stored in the memo / returned last."""
    ctors = [n for n in ast.walk(fn.node) if isinstance(n, ast.Call) and call_name(n) in FITNESS_CTORS]
    if not ctors:
        return _aggregating_helper(eng, fn)
    # the last one in source order is the aggregate; earlier ones are early exits
    ctors.sort(key=lambda c: (c.lineno, c.col_offset))
    best: Optional[Verdict] = None
    for c in ctors:
        s = ctor_arg(eng, fn, c, "success")
        if s is None:
            continue
        v = classify_success(eng, fn, s)
        v.ctor = c
        if v.kind in ("COUNT", "ALL1", "AGG"):
            best = v
    return best or _aggregating_helper(eng, fn)


def _aggregating_helper(eng: Engine, fn: FuncInfo) -> Optional[Verdict]:
    """The verdict of `return self._aggregate(values)` / `fitness = self._aggregate(values)`: when the function builds no
    aggregate itself but calls one helper of the package that ends in an all/any aggregation over one of its parameters, the
    verdict is that aggregation over the argument the caller passes (a local list of the caller)."""
    found: list[Verdict] = []
    for c in walk_local(fn.node):
        if not isinstance(c, ast.Call) or call_name(c) in FITNESS_CTORS:
            continue
        if not (isinstance(c.func, ast.Name) or (isinstance(c.func, ast.Attribute) and isinstance(c.func.value, ast.Name))):
            continue
        tgs, _how = eng.cg.resolve_call(fn, c)
        for t in tgs:
            h = eng.cg.funcs.get(t)
            if h is None or h is fn or h.module != fn.module:
                continue
            hv = final_verdict_local(eng, h)
            if hv is None or hv.kind != "AGG":
                continue
            ps = [p_ for p_ in h.params() if p_ not in ("self", "cls")]
            if hv.lst not in ps:
                continue
            arg = get_kwarg(c, hv.lst)
            if arg is None and ps.index(hv.lst) < len(c.args):
                arg = c.args[ps.index(hv.lst)]
            if isinstance(arg, ast.Name):
                found.append(Verdict(fn, hv.ctor, "AGG", lst=arg.id, agg=hv.agg, success_expr=hv.success_expr))
    return found[0] if len(found) == 1 else None


def final_verdict_local(eng: Engine, fn: FuncInfo) -> Optional[Verdict]:
    ctors = [n for n in ast.walk(fn.node) if isinstance(n, ast.Call) and call_name(n) in FITNESS_CTORS]
    ctors.sort(key=lambda c: (c.lineno, c.col_offset))
    best: Optional[Verdict] = None
    for c in ctors:
        s = ctor_arg(eng, fn, c, "success")
        if s is None:
            continue
        v = classify_success(eng, fn, s)
        v.ctor = c
        if v.kind in ("COUNT", "ALL1", "AGG"):
            best = v
    return best


def is_fail_update(n: ast.AST, v: Verdict) -> bool:
    if v.kind == "ALL1":
        if isinstance(n, ast.Expr) and isinstance(n.value, ast.Call) and isinstance(n.value.func, ast.Attribute) \
                and n.value.func.attr == "append" and isinstance(n.value.func.value, ast.Name) and n.value.func.value.id == v.lst:
            a = n.value.args[0] if n.value.args else None
            if isinstance(a, ast.Constant) and isinstance(a.value, (int, float)) and not isinstance(a.value, bool) and a.value < 1.0:
                return True
    if v.kind == "COUNT":
        if isinstance(n, ast.AugAssign) and isinstance(n.target, ast.Name) and n.target.id == v.total and isinstance(n.op, ast.Add):
            return True
    return False


def is_success_update(n: ast.AST, v: Verdict) -> bool:
    if v.kind == "COUNT":
        if isinstance(n, ast.AugAssign) and isinstance(n.target, ast.Name) and n.target.id == v.solved and isinstance(n.op, ast.Add):
            return True
        if isinstance(n, ast.Assign) and any(isinstance(t, ast.Name) and t.id == v.solved for t in n.targets):
            return True
    if v.kind == "ALL1":
        if isinstance(n, ast.Expr) and isinstance(n.value, ast.Call) and isinstance(n.value.func, ast.Attribute) \
                and n.value.func.attr == "append" and isinstance(n.value.func.value, ast.Name) and n.value.func.value.id == v.lst:
            a = n.value.args[0] if n.value.args else None
            if isinstance(a, ast.Constant) and a.value == 1.0:
                return True
    return False


def total_is_counted_in_loop(fn: FuncInfo, v: Verdict) -> bool:
    for n in ast.walk(fn.node):
        if isinstance(n, ast.AugAssign) and isinstance(n.target, ast.Name) and n.target.id == v.total:
            return True
    return False


def handlers_in_loops(cfg: CFG, fn: FuncInfo) -> list[tuple[ast.ExceptHandler, ast.AST, ast.Try]]:
    """(handler, enclosing loop, try) for every except-handler lexically inside a for/while."""
    out = []

    def rec(node: ast.AST, loop: Optional[ast.AST]) -> None:
        for ch in ast.iter_child_nodes(node):
            if isinstance(ch, (ast.FunctionDef, ast.AsyncFunctionDef, ast.Lambda, ast.ClassDef)):
                continue
            if isinstance(ch, (ast.For, ast.While)):
                rec(ch, ch)
            elif isinstance(ch, ast.Try):
                if loop is not None:
                    for h in ch.handlers:
                        out.append((h, loop, ch))
                rec(ch, loop)
            else:
                rec(ch, loop)

    rec(fn.node, None)
    return out


def check_handler_records_failure(eng: Engine, fn: FuncInfo, v: Verdict, handler: ast.ExceptHandler, loop: ast.AST):
    """None if every normally-completing path from the handler to the next iteration / loop exit
    records a failure; otherwise (description, path)."""
    cfg = eng.cfg(fn)
    hn = cfg.nodes_of(handler, {"handler"})
    if not hn:
        raise AnalysisError(f"{fn.fq}: handler at line {handler.lineno} has no CFG node")
    h = hn[0]
    heads = cfg.nodes_of(loop, {"for", "while"})
    afters = [i for i in cfg.by_ast.get(id(loop), []) if cfg.nodes[i].kind == "join" and cfg.nodes[i].note == "after-loop"]
    targets = set(heads) | set(afters)
    if v.kind == "COUNT" and not total_is_counted_in_loop(fn, v):
        fail_nodes: set[int] = set()
        need_fail = False
    else:
        fail_nodes = {n.id for n in cfg.nodes if n.ast is not None and n.kind == "stmt" and is_fail_update(n.ast, v)}
        need_fail = True
    succ_nodes = {n.id for n in cfg.nodes if n.ast is not None and n.kind == "stmt" and is_success_update(n.ast, v)}
    # does the handler complete normally at all?
    if cfg.find_path(h, targets) is None:
        return None
    if need_fail:
        p = cfg.find_path(h, targets, avoid=fail_nodes)
        if p is not None:
            return ("a path from the handler to the next combination records nothing", cfg.describe_path(p))
    # the counted total must not be taken back on the handler path
    if v.kind == "COUNT":
        tamper = {n.id for n in cfg.nodes if n.kind == "stmt" and n.ast is not None and (
            (isinstance(n.ast, ast.AugAssign) and isinstance(n.ast.target, ast.Name) and n.ast.target.id == v.total and not isinstance(n.ast.op, ast.Add))
            or (isinstance(n.ast, ast.Assign) and any(isinstance(t, ast.Name) and t.id == v.total for t in n.ast.targets)))}
        r0 = cfg.reach([h], avoid=targets) & tamper
        if r0:
            p = cfg.find_path(h, r0, avoid=targets)
            return ("the handler path takes the combination out of the total again", cfg.describe_path(p) if p else [])
    if v.kind == "ALL1":
        tamper = {n.id for n in cfg.nodes if n.kind == "stmt" and n.ast is not None and any(
            isinstance(c, ast.Call) and isinstance(c.func, ast.Attribute) and c.func.attr in ("pop", "remove", "clear") and isinstance(c.func.value, ast.Name) and c.func.value.id == v.lst
            for c in ast.walk(n.ast))}
        r0 = cfg.reach([h], avoid=targets) & tamper
        if r0:
            p = cfg.find_path(h, r0, avoid=targets)
            return ("the handler path removes recorded values again", cfg.describe_path(p) if p else [])
    # a success update reachable from the handler before the next iteration
    reach = cfg.reach([h], avoid=targets)
    bad = reach & succ_nodes
    if bad:
        p = cfg.find_path(h, bad, avoid=targets)
        return ("a path from the handler reaches a success update", cfg.describe_path(p) if p else [])
    return None


# ---------------------------------------------------------------- score ranges of a scored constraint
@dataclass
class ScoreSite:
    fn: FuncInfo  # the function that appends scores (ComparisonConstraint.fitness)
    line: int
    expr: ast.AST  # the appended expression
    failing: Optional[object] = None  # interval.AV of the score when the comparison does not hold
    holding: Optional[object] = None  # interval.AV of the score when it holds
    via: str = ""


def score_sites(eng: Engine, cls: ClassInfo) -> tuple[list[ScoreSite], str]:
    """For a constraint class whose verdict is `all(x == 1.0 for x in L)` (kind ALL1): every `L.append(X)` of its
    fitness() with the range of X, computed by interval interpretation, split by the outcome of the one test
    `self._operator.compare(...)` in the scoring helper.  Returns (sites, name of L)."""
    from ..interval import Interp, TOP

    fn = eng.method(cls, "fitness")
    fv = final_verdict(eng, fn)
    vs = [fv] if fv is not None and fv.kind == "ALL1" else []
    if not vs:
        raise AnalysisError(f"{fn.fq}: the verdict is no longer `all(x == 1.0 for x in <scores>)`; the score-range rule has lost its anchor")
    lst = vs[0].lst
    sites: list[ScoreSite] = []
    # local definitions `a, b = self.helper(...)`
    tuple_defs: dict[str, tuple[ast.Call, int]] = {}
    for n in ast.walk(fn.node):
        if isinstance(n, ast.Assign) and len(n.targets) == 1 and isinstance(n.targets[0], ast.Tuple) and isinstance(n.value, ast.Call):
            for i, el in enumerate(n.targets[0].elts):
                if isinstance(el, ast.Name):
                    tuple_defs[el.id] = (n.value, i)
        elif isinstance(n, ast.Assign) and len(n.targets) == 1 and isinstance(n.targets[0], ast.Name) and isinstance(n.value, ast.Call):
            tuple_defs[n.targets[0].id] = (n.value, -1)
    for n in ast.walk(fn.node):
        if isinstance(n, ast.Call) and isinstance(n.func, ast.Attribute) and n.func.attr == "append" and norm(n.func.value) == lst and len(n.args) == 1:
            x = n.args[0]
            site = ScoreSite(fn, n.lineno, x)
            if isinstance(x, ast.Name) and x.id in tuple_defs:
                call, idx = tuple_defs[x.id]
                callees, how = eng.cg.resolve_call(fn, call)
                if how != "exact" or len(callees) != 1:
                    site.failing = site.holding = TOP
                    site.via = f"{short(call, 50)} (unresolved)"
                else:
                    mod, qn = next(iter(callees)).split(":")
                    helper = eng.func(mod, qn)
                    tests = [t for t in ast.walk(helper.node) if isinstance(t, ast.Call) and isinstance(t.func, ast.Attribute) and t.func.attr == "compare"]
                    if len(tests) != 1:
                        raise AnalysisError(f"{helper.fq}: expected exactly one `<operator>.compare(...)` test, found {len(tests)}")
                    the_test = tests[0]
                    for outcome in (False, True):
                        it = Interp(eng, helper, {}, assume=lambda t, o=outcome: o if t is the_test else None)
                        v = it.run()
                        if idx >= 0:
                            v = v.items[idx] if v.items is not None and not v.other and not v.none and idx < len(v.items) else TOP
                        if outcome:
                            site.holding = v
                        else:
                            site.failing = v
                    site.via = f"{helper.fq} (test `{short(the_test, 50)}`)"
            else:
                it = Interp(eng, fn, {})
                v = it.ev(x) if isinstance(x, (ast.Constant, ast.UnaryOp, ast.BinOp)) else TOP
                site.failing = site.holding = v
                site.via = "literal"
            sites.append(site)
    return sites, lst or "?"


# ---------------------------------------------------------------- context forwarding (scope / local_variables)
def context_forwarding_rule(chk, eng: Engine, rule: str) -> None:
    """Quantifiers bind their variable in `scope` (and `local_variables`) and evaluate their body - a constraint or a search - under that
    binding.  The binding travels as an ordinary argument through the constraint classes and the search classes; a method that receives
    it and calls another method that also takes it must pass it on.  Where it is dropped the callee runs with the default (None): the inner
    search resolves against the whole tree or finds nothing, and a nested quantifier becomes vacuously true."""
    CTX = ("scope", "local_variables")
    fams = []
    for modn, cn in (("fandango.language.search", "NonTerminalSearch"), ("fandango.constraints.base", "GeneticBase")):
        base = eng.cls(modn, cn)
        fams.append([base] + base.all_subclasses())
    n = 0
    # method name -> parameter lists (without self) of every definition in both families (a constraint calls searches and vice versa)
    sigs: dict[str, list[list[str]]] = {}
    for fam in fams:
        for k in fam:
            for m in k.methods.values():
                sigs.setdefault(m.name, []).append([p_ for p_ in m.params() if p_ != "self"])
    for fam in fams:
        for k in fam:
            for m in k.methods.values():
                mine = [p_ for p_ in m.params() if p_ in CTX]
                if not mine:
                    continue
                # locals derived from a context parameter (`scope = scope or {}`, `new_scope = dict(scope)`, `local_vars = {**local_variables, ...}`)
                derived = {c: {c} for c in mine}
                for _ in range(3):
                    for a in walk_local(m.node):
                        if isinstance(a, (ast.Assign, ast.AnnAssign)) and a.value is not None:
                            used = {x.id for x in ast.walk(a.value) if isinstance(x, ast.Name)}
                            for c in mine:
                                if used & derived[c]:
                                    for t_ in (a.targets if isinstance(a, ast.Assign) else [a.target]):
                                        if isinstance(t_, ast.Name):
                                            derived[c].add(t_.id)
                for c_ in walk_local(m.node):
                    if not (isinstance(c_, ast.Call) and isinstance(c_.func, ast.Attribute) and c_.func.attr in sigs) or c_.func.attr.startswith("__"):
                        continue
                    recv = c_.func.value
                    if isinstance(recv, ast.Name) and recv.id == "self":
                        # resolved in the receiver's own class line
                        line = k.mro() + k.all_subclasses()
                        cands = [[p_ for p_ in kk.methods[c_.func.attr].params() if p_ != "self"] for kk in line if c_.func.attr in kk.methods]
                    else:
                        cands = sigs[c_.func.attr]
                    callee_sigs = [sg for sg in cands if any(p_ in CTX for p_ in sg)]
                    if not callee_sigs or len(callee_sigs) != len(cands):
                        continue  # not (or not always) a context-taking method
                    if any(isinstance(a_, ast.Starred) for a_ in c_.args) or any(kw.arg is None for kw in c_.keywords):
                        continue
                    for c in mine:
                        with_c = [sg for sg in callee_sigs if c in sg]
                        if len(with_c) != len(callee_sigs):
                            continue
                        n += 1
                        passed = None
                        for kw in c_.keywords:
                            if kw.arg == c:
                                passed = kw.value
                        if passed is None:
                            idxs = {sg.index(c) for sg in with_c}
                            if len(idxs) == 1 and len(c_.args) > next(iter(idxs)):
                                passed = c_.args[next(iter(idxs))]
                            elif len(idxs) > 1 and all(len(c_.args) > i_ for i_ in idxs):
                                chk.ok(rule, m.fq, c_.lineno, f"`{short(c_, 60)}` passes `{c}` positionally (position differs between overrides)", nontrivial=False)
                                continue
                        ok_ = passed is not None and ({x.id for x in ast.walk(passed) if isinstance(x, ast.Name)} & derived[c])
                        if ok_:
                            chk.ok(rule, m.fq, c_.lineno, f"`{short(c_, 60)}` passes `{c}` on")
                        elif passed is not None:
                            chk.ok(rule, m.fq, c_.lineno, f"`{short(c_, 60)}` passes an explicit `{c}` of its own (`{short(passed, 30)}`)", nontrivial=False)
                        else:
                            chk.bad(rule, eng.relfile(m), c_.lineno, m.fq, f"`{short(c_, 70)}` does not pass `{c}` on although {k.name}.{m.name} received it and `{c_.func.attr}` takes it",
                                    "bindings of enclosing quantifiers are lost: the inner search is resolved without them (an inner domain `<r>.<cell>` finds nothing, the inner forall is "
                                    "vacuously true) and trees that violate the constraint are accepted", keyparts=f"context-dropped|{k.name}.{m.name}|{c_.func.attr}|{c}")
    if n < 20:
        raise AnalysisError(f"only {n} context-forwarding call sites found in the search and constraint classes")


# ---------------------------------------------------------------- bindings are written into owned dictionaries
def owned_binding_rule(chk, eng: Engine, rule: str) -> None:
    """A quantifier binds its variable with `scope[<bound>] = ...` / `local_variables[<name>] = ...` and evaluates its body.  The dictionary
    it writes must be its own (a copy made in this call).  Writing into the caller's dictionary lets the binding outlive the quantifier: a
    sibling or the next iteration of an enclosing quantifier resolves the bound name to the stale tree (visible when the bound name is also
    a grammar symbol), and lazy / eager evaluation - which visit different numbers of elements - leave different residues."""
    base = eng.cls("fandango.constraints.base", "GeneticBase")
    n = 0
    for k in [base] + base.all_subclasses():
        for m in k.methods.values():
            ctx = [p_ for p_ in m.params() if p_ in ("scope", "local_variables")]
            if not ctx:
                continue
            for w in walk_local(m.node):
                tg = []
                if isinstance(w, (ast.Assign, ast.AugAssign)):
                    tg = [t_ for t_ in (w.targets if isinstance(w, ast.Assign) else [w.target]) if isinstance(t_, ast.Subscript) and isinstance(t_.value, ast.Name)]
                elif isinstance(w, ast.Call) and isinstance(w.func, ast.Attribute) and w.func.attr in ("update", "setdefault", "pop", "clear") and isinstance(w.func.value, ast.Name):
                    tg = [ast.Subscript(value=w.func.value, slice=ast.Constant(value=None), ctx=ast.Store())]
                for t_ in tg:
                    name = t_.value.id  # type: ignore[union-attr]
                    if name not in ctx:
                        continue
                    n += 1
                    # every definition of `name` that can reach the write: the parameter itself or local re-bindings
                    defs = [a.value for a in walk_local(m.node) if isinstance(a, ast.Assign) and any(isinstance(x, ast.Name) and x.id == name for x in a.targets) and a.lineno < w.lineno]

                    def owned(v: ast.AST) -> bool:
                        if isinstance(v, (ast.Dict, ast.DictComp)):
                            return True
                        if isinstance(v, ast.Call) and call_name(v) in ("dict", "copy", "deepcopy"):
                            return True
                        if isinstance(v, ast.Call) and isinstance(v.func, ast.Attribute) and v.func.attr == "copy":
                            return True
                        return False
                    if defs and all(owned(v) for v in defs):
                        chk.ok(rule, m.fq, w.lineno, f"`{short(w, 50)}` writes into a dictionary built in this call (`{name} = {short(defs[-1], 30)}`)")
                    else:
                        how = f"`{name} = {short(defs[-1], 30)}` may still be the caller's dictionary" if defs else f"`{name}` is the caller's dictionary"
                        chk.bad(rule, eng.relfile(m), w.lineno, m.fq, f"`{short(w, 50)}` binds into a dictionary the method does not own ({how})",
                                "the binding outlives the quantifier: with `forall <x> in <item>: exists <d> in <x>..<d>: ...` the <d> bound for the previous <item> is used when the domain "
                                "of the next one is resolved - wrong verdicts, and lazy and eager evaluation disagree", keyparts=f"binding-into-callers-dict|{k.name}.{m.name}|{name}")
    if n < 4:
        raise AnalysisError(f"only {n} binding writes found in the constraint classes")


# ---------------------------------------------------------------- memoised verdicts read no re-bindable module state
def rebound_module_state(eng: Engine) -> dict[tuple[str, str], str]:
    """(module, name) of module-level variables that some function re-binds (`global X; X = ...` or `module.X = ...`) -> the writer."""
    from ..core import ModuleInfo, attr_chain
    rebound: dict[tuple[str, str], str] = {}
    for f in eng.ix.all_functions:
        globs = {n for st in walk_local(f.node) if isinstance(st, ast.Global) for n in st.names}
        mod = eng.ix.modules[f.module]
        for n in walk_local(f.node):
            if isinstance(n, (ast.Assign, ast.AugAssign, ast.AnnAssign)):
                for t in (n.targets if isinstance(n, ast.Assign) else [n.target]):
                    if isinstance(t, ast.Name) and t.id in globs:
                        rebound[(f.module, t.id)] = f.fq
                    elif isinstance(t, ast.Attribute):
                        ch = attr_chain(t)
                        if ch and len(ch) >= 2:
                            r = eng.ix.resolve_dotted(mod, t.value)
                            if isinstance(r, ModuleInfo):
                                rebound[(r.name, t.attr)] = f.fq
    return rebound


def memo_purity_rule(chk, eng: Engine, rule: str) -> None:
    """The verdict memo of a constraint is keyed by (root, tree, scope, local variables).  Whatever else fitness() reads must not change during
    a run.  Module-level variables that some function re-binds (the repetition cap `nodes.MAX_REPETITIONS`, raised by the adaptive tuner and
    reset per protocol message) are such state: a fitness that reads one - directly or through a property of an object it holds - answers from
    the memo with the verdict computed under the old value."""
    from ..core import ModuleInfo
    rebound = rebound_module_state(eng)
    if not rebound:
        raise AnalysisError("no re-bound module-level state found at all (nodes.MAX_REPETITIONS was the confirmed instance)")
    base = eng.cls("fandango.constraints.base", "GeneticBase")
    n = 0
    for c in [base] + base.all_subclasses():
        m = c.methods.get("fitness")
        if m is None or not any(isinstance(x, ast.Attribute) and self_attr(x) == "cache" for x in walk_local(m.node)):
            continue
        n += 1
        seen: set[str] = set()
        todo = [(m, c)]
        bad = []
        while todo:
            f, owner = todo.pop()
            if f.fq in seen or len(seen) > 60:
                continue
            seen.add(f.fq)
            mod = eng.ix.modules[f.module]
            tenv = eng.env(f)
            for x in walk_local(f.node):
                if isinstance(x, ast.Attribute) and isinstance(x.ctx, ast.Load):
                    # self.<method / property>
                    a = self_attr(x)
                    if a is not None and owner is not None:
                        g = owner.lookup(a)
                        if g is not None:
                            todo.append((g, owner))
                    else:
                        # <typed expression>.<method / property> of a repository class (self.repetition_node.max)
                        for t in tenv.type_of(x.value):
                            modn, cn = t.split(":")
                            k = eng.ix.modules[modn].classes.get(cn) if modn in eng.ix.modules else None
                            if k is not None and not k.fq.endswith(("DerivationTree", "TreeValue")):
                                g = k.lookup(x.attr)
                                if g is not None:
                                    todo.append((g, k))
                    r = eng.ix.resolve_dotted(mod, x.value)
                    if isinstance(r, ModuleInfo) and (r.name, x.attr) in rebound:
                        bad.append((f, x, f"{r.name}.{x.attr}", rebound[(r.name, x.attr)]))
                elif isinstance(x, ast.Name) and isinstance(x.ctx, ast.Load):
                    if (f.module, x.id) in rebound and x.id not in f.params():
                        bad.append((f, x, f"{f.module}.{x.id}", rebound[(f.module, x.id)]))
                    elif x.id in mod.imports:
                        b_, at_ = mod.imports[x.id]
                        if at_ is not None and (b_, at_) in rebound:
                            bad.append((f, x, f"{b_}.{at_}", rebound[(b_, at_)]))
        if not bad:
            chk.ok(rule, m.fq, m.line, f"{c.name}.fitness (closure of {len(seen)} function(s)) reads no module-level state that is re-bound during a run")
        for f, x, what, writer in bad[:1]:
            chk.bad(rule, eng.relfile(f), x.lineno, m.fq, f"{c.name}.fitness reads `{what}` (in {f.qualname}), which {writer.split(':')[1]} re-binds during a run",
                    "the memo is keyed by the tree and its bindings only: after the value changed (the adaptive tuner raises the repetition cap every generation) the memo still "
                    "answers with the verdict computed under the old value - a tree's verdict depends on when it was first evaluated", keyparts=f"memo-reads-global|{c.name}|{what}")
    if n < 5:
        raise AnalysisError(f"only {n} memoised fitness() methods found")


def search_errors_surface_rule(chk, eng: Engine, rule: str) -> None:
    """"No match = nothing to violate" is the documented meaning of a selector that finds nothing; an *error* while evaluating a selector (an index
    that does not exist, a slice of the wrong kind) is something else: it must reach the constraint, which counts the combination as failed.
    A handler inside a search method that swallows the error turns it into "no match", and the constraint becomes vacuously true for that tree.
    Every find / quantify / evaluation method of the selector classes and containers is free of handlers that do not re-raise."""
    base = eng.cls("fandango.language.search", "NonTerminalSearch")
    classes = [base] + base.all_subclasses()
    for extra in ("Container", "Tree", "TreeList", "Length"):
        try:
            k = eng.cls("fandango.language.search", extra)
            classes += [k] + k.all_subclasses()
        except Exception:
            pass
    n = 0
    seen = set()
    for c in classes:
        for m in c.methods.values():
            if m.fq in seen or m.name.startswith("__") and m.name not in ("__getitem__", "__call__"):
                continue
            seen.add(m.fq)
            n += 1
            swallowed = None
            for t in walk_local(m.node):
                if isinstance(t, ast.Try):
                    for h in t.handlers:
                        if not any(isinstance(x, ast.Raise) for st in h.body for x in ast.walk(st)):
                            swallowed = swallowed or h
            if swallowed is None:
                chk.ok(rule, m.fq, m.line, f"{m.qualname}: evaluation errors propagate", nontrivial=False)
            else:
                chk.bad(rule, eng.relfile(m), swallowed.lineno, m.fq, f"{m.qualname} catches `{norm(swallowed.type) if swallowed.type is not None else 'everything'}` and goes on",
                        "a selector that cannot be evaluated on a tree contributes no match instead of an error: the constraint has no combination left and is vacuously satisfied - "
                        "trees that the constraint was written to exclude are emitted as solutions", keyparts=f"search-swallows|{m.qualname}")
    if n < 20:
        raise AnalysisError(f"only {n} selector methods found")
