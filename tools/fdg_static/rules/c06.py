"""C06 - parsing always terminates (state-identity argument).

Earley terminates because a column holds finitely many items.  Here a column admits a state
through membership in a Python set, i.e. through ParseState.__hash__/__eq__.

R06-a  item identity is finite and consistent: every field read by __hash__ and __eq__ has a
       domain that is finite for a fixed grammar and input (derived from the constructor's
       annotations), and fields(__hash__) is a subset of fields(__eq__).
R06-b  no bypass of the de-duplication: Column.states / Column.unique are mutated only inside
       Column, and `add` appends only behind the membership test.
R06-c  loop variants of _consume: the column index grows on every path through the while body
       and is never decreased; the table is extended only before the loop.
"""

from __future__ import annotations

import ast
from typing import Optional

from ..core import AnalysisError, ClassInfo, FuncInfo, ancestors, norm, parents_map, self_attr, short, walk_local
from ..engine import Engine
from ..report import Check

PMOD = "fandango.language.grammar.parser"


def fields_read(cls: ClassInfo, fn: FuncInfo, recv: str = "self", _depth: int = 0) -> set[str]:
    """Underlying instance fields read on `recv` in fn (properties expanded)."""
    out: set[str] = set()
    for n in walk_local(fn.node):
        a = self_attr(n, recv)
        if a is None:
            continue
        m = cls.lookup(a)
        if m is not None and any("property" in d for d in m.decorators()) and _depth < 3:
            out |= fields_read(cls, m, "self", _depth + 1)
        elif m is not None and _depth < 3 and not a.startswith("__"):
            # method call on self: include what it reads
            out |= fields_read(cls, m, "self", _depth + 1)
        else:
            out.add(a)
    return out


UNBOUNDED_MARKERS = ("list", "List", "DerivationTree", "dict", "Dict", "set[", "Set[", "Sequence", "Any")


def progress_guards(chk: Check, eng: Engine) -> None:
    """R06-d.  A scan that adds its successor to the *same* column creates a new item without consuming input; with a nullable symbol
    under * or + the items of that column then grow without bound (their children differ).  The scanners exclude it by rejecting a match
    that is not longer than what the state had matched before.  The rejection must hold for every state: an extra conjunct
    (only for incomplete states, only in some mode) re-opens zero-width matches."""
    ip = eng.cls(f"{PMOD}.iterative_parser", "IterativeParser")

    def is_len_test(c: ast.AST) -> Optional[str]:
        """`match_length <= prev` / `match_length < 1` / `match_length == 0` (and mirrored forms) -> text"""
        if isinstance(c, ast.Compare) and len(c.ops) == 1:
            l, r, op = c.left, c.comparators[0], c.ops[0]
            names = {n.id for n in ast.walk(c) if isinstance(n, ast.Name)}
            if any("match_length" in n or "length" in n for n in names):
                if isinstance(op, (ast.LtE, ast.Lt, ast.Eq, ast.GtE, ast.Gt)):
                    return norm(c)
        return None

    # scan_regex: `if match and match_length <= prev_match_length: match = False`
    sr = eng.method(ip, "scan_regex", inherited=False)
    rej = [n for n in walk_local(sr.node) if isinstance(n, ast.If) and any(
        isinstance(a, ast.Assign) and isinstance(a.value, ast.Constant) and a.value.value is False and any(isinstance(t, ast.Name) and t.id == "match" for t in a.targets) for a in n.body)]
    if not rej:
        chk.bad("R06-d", eng.relfile(sr), sr.line, sr.fq, "scan_regex no longer rejects a match that consumed nothing new",
                "a regex that matches the empty string yields a successor item in the same column: under * or + the column never stops growing", keyparts="regex-no-progress-guard")
    for n in rej:
        conj = n.test.values if isinstance(n.test, ast.BoolOp) and isinstance(n.test.op, ast.And) else [n.test]
        lens = [c for c in conj if is_len_test(c)]
        extra = [c for c in conj if not is_len_test(c) and not (isinstance(c, ast.Name) and c.id == "match")]
        if not lens:
            chk.bad("R06-d", eng.relfile(sr), n.lineno, sr.fq, f"the rejection `{short(n.test, 70)}` does not compare the match length with what was matched before",
                    "zero-width matches are accepted", keyparts="regex-guard-no-length")
        elif extra or (isinstance(n.test, ast.BoolOp) and not isinstance(n.test.op, ast.And)):
            chk.bad("R06-d", eng.relfile(sr), n.lineno, sr.fq, f"the no-progress rejection `{short(n.test, 90)}` applies only when `{short(extra[0], 40) if extra else 'one alternative'}` holds",
                    "for the other states a regex match of length 0 is accepted: the successor item lands in the same column, and a symbol that can be empty only through "
                    "such a regex makes `<symbol>+` / `<symbol>*` produce new items for ever", keyparts="regex-guard-conditional")
        else:
            chk.ok("R06-d", sr.fq, n.lineno, f"`{short(n.test, 70)}` rejects every match that consumed nothing new")
    # the default of "already matched" for a fresh state must be 0
    prev0 = [a for a in walk_local(sr.node) if isinstance(a, ast.Assign) and any(isinstance(t, ast.Name) and t.id == "prev_match_length" for t in a.targets)]
    prev0.sort(key=lambda a: a.lineno)
    if prev0 and isinstance(prev0[0].value, ast.Constant) and prev0[0].value.value == 0:
        chk.ok("R06-d", sr.fq, prev0[0].lineno, "a fresh state has matched 0 characters before (`prev_match_length = 0`)")
    elif rej:
        chk.bad("R06-d", eng.relfile(sr), prev0[0].lineno if prev0 else sr.line, sr.fq, "`prev_match_length` does not start at 0", "the rejection threshold for fresh states is not zero", keyparts="regex-prev-default")
    # scan_bytes: the incomplete branch returns False for `match_length == 0`
    sb = eng.method(ip, "scan_bytes", inherited=False)
    rets = [n for n in walk_local(sb.node) if isinstance(n, ast.If) and any(isinstance(r, ast.Return) and isinstance(r.value, ast.Constant) and r.value.value is False for r in n.body)]
    zero = [n for n in rets if any(is_len_test(c) and "== 0" in norm(c) for c in (n.test.values if isinstance(n.test, ast.BoolOp) and isinstance(n.test.op, ast.Or) else [n.test]))]
    if zero:
        chk.ok("R06-d", sb.fq, zero[0].lineno, f"`{short(zero[0].test, 70)}` -> return False: an incomplete literal match of length 0 is not a match")
    else:
        chk.bad("R06-d", eng.relfile(sb), sb.line, sb.fq, "scan_bytes accepts an incomplete match of length 0", "an item is copied into its own column without consuming input", keyparts="bytes-zero-incomplete")


def earliest_parent(chk: Check, eng: Engine) -> None:
    """R06-e.  construct_incomplete_tree climbs from an item to the start item: in the item's origin column it looks for an item whose dot is
    the item's nonterminal.  Columns are filled in prediction order, so the item that predicted a rule precedes the rule's own items; with
    left recursion the rule's own item `<list> -> . <list> ';' <item>` waits for <list> too, but *later* in the column.  Taking the earliest
    match walks towards the start item; taking any later one can stay on the left-recursive item for ever."""
    ip = eng.cls(f"{PMOD}.iterative_parser", "IterativeParser")
    f = eng.method(ip, "construct_incomplete_tree", inherited=False)
    loops = [w for w in walk_local(f.node) if isinstance(w, ast.While)]
    if not loops:
        raise AnalysisError("construct_incomplete_tree: the climbing loop was not found")
    w = loops[0]
    # how is the climbing variable re-bound inside the loop?
    rebinds = [a for a in ast.walk(w) if isinstance(a, ast.Assign) and any(isinstance(t, ast.Name) and t.id == "current_state" for t in a.targets)]
    if not rebinds:
        raise AnalysisError("construct_incomplete_tree: `current_state` is not re-bound in the loop")
    from ..core import parents_map, ancestors
    pm = parents_map(f.node)
    for a in rebinds:
        v = a.value
        # (i) inside `for s in <column>.states: if <match>: current_state = s ... break`
        fors = [x for x in ancestors(pm, a) if isinstance(x, ast.For)]
        if fors and isinstance(v, ast.Name) and isinstance(fors[0].target, ast.Name) and fors[0].target.id == v.id and ".states" in norm(fors[0].iter):
            ifs = [x for x in ancestors(pm, a) if isinstance(x, ast.If)]
            brk = bool(ifs) and any(isinstance(b, ast.Break) for b in ifs[0].body)
            rev = "reversed" in norm(fors[0].iter) or "[::-1]" in norm(fors[0].iter)
            if brk and not rev:
                chk.ok("R06-e", f.fq, a.lineno, f"first match in column order: `for {v.id} in {short(fors[0].iter, 40)}` ... `break`")
            else:
                chk.bad("R06-e", eng.relfile(f), a.lineno, f.fq, f"the scan over `{short(fors[0].iter, 40)}` does not stop at the first match" + (" (reversed order)" if rev else ""),
                        "a later waiting item is taken: with a left-recursive rule the walk returns to the rule's own item for ever", keyparts="parent-not-first|loop")
            continue
        # (ii) through a mapping built from the column: which entry wins for equal keys?
        src = v
        names = {n.id for n in ast.walk(v) if isinstance(n, ast.Name)}
        maps = [d for d in ast.walk(f.node) if isinstance(d, ast.DictComp) and ".states" in norm(d)] + \
               [d for d in ast.walk(f.node) if isinstance(d, ast.Assign) and any(isinstance(t, ast.Subscript) for t in d.targets) and any(isinstance(x, ast.For) and ".states" in norm(x.iter) for x in ancestors(pm, d))]
        firsts = [c for c in ast.walk(f.node) if isinstance(c, ast.Call) and isinstance(c.func, ast.Attribute) and c.func.attr == "setdefault"]
        nexts = [c for c in ast.walk(v) if isinstance(c, ast.Call) and isinstance(c.func, ast.Name) and c.func.id == "next"]
        if nexts:
            chk.ok("R06-e", f.fq, a.lineno, f"first match through `{short(nexts[0], 60)}`")
        elif maps and not firsts:
            chk.bad("R06-e", eng.relfile(f), a.lineno, f.fq, f"the parent item is looked up in a mapping built from the column (`{short(maps[0], 60)}`), where the *last* item with a given dot wins",
                    "with a left-recursive rule the last item waiting for <list> is the rule's own `<list> -> . <list> ...` item: the walk never reaches the start item "
                    "(parse requests that go through a computed repetition hang and allocate without bound)", keyparts="parent-not-first|mapping")
        elif maps and firsts:
            chk.ok("R06-e", f.fq, a.lineno, "mapping built with setdefault: the earliest item per dot wins")
        else:
            raise AnalysisError(f"construct_incomplete_tree: cannot tell how `{short(a, 60)}` selects the parent item")


def process_once(chk: Check, eng: Engine, identity_is_finite: bool) -> None:
    """R06-f.  The work-list argument: every item of a column gets its turn once, in the driver loop over the column, and the completion
    of an item is triggered by that turn.  With a finite item identity (R06-a) re-completing items from inside a step function would be
    harmless (the duplicate test stops it - Aycock / Horspool do exactly that for nullable symbols); while the identity includes the children
    (the recorded finding of R06-a) every re-completion creates items that are new to the column, so termination rests on "once per turn".
    The rule is armed exactly in that situation: `complete` is called only from a loop over a column, for the loop's own item."""
    ip = eng.cls(f"{PMOD}.iterative_parser", "IterativeParser")
    steps = {"predict", "predict_ctx_rule", "scan_bit", "scan_bytes", "scan_regex", "complete", "place_repetition_shortcut"}
    n = 0
    for c in [ip] + ip.all_subclasses():
        for m in c.methods.values():
            pm = parents_map(m.node)
            for call in walk_local(m.node):
                if not (isinstance(call, ast.Call) and isinstance(call.func, ast.Attribute) and call.func.attr == "complete" and self_attr(call.func) == "complete"):
                    continue
                n += 1
                item = call.args[0] if call.args else None
                turn = None
                for a in ancestors(pm, call):
                    if isinstance(a, ast.For) and isinstance(a.target, ast.Name) and isinstance(item, ast.Name) and a.target.id == item.id \
                            and (isinstance(a.iter, ast.Subscript) or (isinstance(a.iter, ast.Attribute) and a.iter.attr == "states")):
                        turn = a
                        break
                in_step = m.name in steps
                if turn is not None and not in_step:
                    chk.ok("R06-f", m.fq, call.lineno, f"`{short(call, 50)}`: completion of the item whose turn it is in `for {item.id} in {short(turn.iter, 30)}`")  # type: ignore[union-attr]
                elif identity_is_finite:
                    chk.ok("R06-f", m.fq, call.lineno, f"`{short(call, 50)}` re-completes items outside their turn; harmless while the item identity is finite (R06-a holds)")
                else:
                    chk.bad("R06-f", eng.relfile(m), call.lineno, m.fq, f"`{short(call, 60)}` in {m.qualname} completes items outside their own turn in the column loop",
                            "while ParseState identity includes the children (R06-a), every repeated completion of a nullable symbol adds items the duplicate test has never seen: "
                            "the column grows without bound (left recursion with a nullable tail, `<e> ::= <e> <args>? | 'f'`, never returns)", keyparts=f"recompletion|{m.qualname}")
    if n < 3:
        raise AnalysisError(f"only {n} call(s) of IterativeParser.complete found")


def run(chk: Check, eng: Engine) -> None:
    chk.rule("R06-a", "ParseState identity (__hash__/__eq__) reads only fields of finite domain and hash-fields are a subset of eq-fields", floor=3)
    chk.rule("R06-b", "Column.states / Column.unique are mutated only inside Column, and add() appends only behind the membership test", floor=3)
    chk.rule("R06-c", "the column index of _consume increases on every path through the loop body and the table is not extended inside the loop", floor=3)
    chk.rule("R06-d", "a terminal scan that completes a match must have consumed input: the no-progress rejection (`match_length <= <already matched>` / "
             "`match_length == 0`) is unconditional in every scanner (armed while the item identity is not finite - the recorded finding F3; with a finite identity "
             "a zero-width advance is admitted once and C05 / R05-a requires it)", floor=2)
    chk.not_decided += ["termination of place_repetition_shortcut's upward walk", "termination of context-rule expansion (predict_ctx_rule)",
                        "that the earliest waiting item of a column is always a proper ancestor (Earley prediction order; relied upon by R06-e)"]
    chk.rule("R06-f", "every item is completed in its own turn of the driver loop over its column (armed while the item identity is not finite: then nothing else bounds a column)", floor=3)
    chk.rule("R06-e", "the walk from an item to the item that predicted it takes the *earliest* waiting item of the column (column order is prediction order)", floor=1)
    earliest_parent(chk, eng)

    ps = eng.cls(f"{PMOD}.parse_state", "ParseState")
    init = eng.method(ps, "__init__")
    h = eng.method(ps, "__hash__", inherited=False)
    e = eng.method(ps, "__eq__", inherited=False)
    # field -> annotation of the constructor parameter feeding it
    ann: dict[str, str] = {}
    params = {a.arg: a for a in init.node.args.args + init.node.args.kwonlyargs}  # type: ignore[attr-defined]
    for n in walk_local(init.node):
        tgt = None
        val = None
        if isinstance(n, ast.Assign) and len(n.targets) == 1:
            tgt, val = n.targets[0], n.value
        elif isinstance(n, ast.AnnAssign):
            tgt, val = n.target, n.value
            if self_attr(tgt) and n.annotation is not None:
                ann[self_attr(tgt)] = norm(n.annotation)  # type: ignore[index]
        f = self_attr(tgt) if tgt is not None else None
        if f is None or val is None:
            continue
        srcs = [x.id for x in ast.walk(val) if isinstance(x, ast.Name) and x.id in params]
        if srcs and f not in ann:
            a = params[srcs[0]].annotation
            ann[f] = norm(a) if a is not None else "?"
    memo_fields = set()
    for n in walk_local(h.node):
        if isinstance(n, ast.Assign):
            for t in n.targets:
                if self_attr(t):
                    memo_fields.add(self_attr(t))
    hf = fields_read(ps, h) - memo_fields
    ef = fields_read(ps, e)
    other_reads = set()
    for n in walk_local(e.node):
        a = self_attr(n, "other")
        if a is not None:
            m = ps.lookup(a)
            if m is not None and any("property" in d for d in m.decorators()):
                other_reads |= fields_read(ps, m)
            else:
                other_reads.add(a)
    if not hf or not ef:
        raise AnalysisError(f"ParseState identity fields could not be derived (hash={hf}, eq={ef})")
    file = eng.relfile(h)
    for fld in sorted(hf | ef):
        a = ann.get(fld)
        if a is None:
            raise AnalysisError(f"ParseState field {fld!r} read by __hash__/__eq__ is not assigned in __init__")
        unbounded = any(mk in a for mk in UNBOUNDED_MARKERS)
        where = h if fld in hf else e
        if unbounded:
            chk.bad("R06-a", file, where.line, where.fq, f"identity reads `{fld}` ({a}) whose domain is unbounded",
                    "states that differ only in this field are all admitted to a column; with an empty-deriving symbol under a repetition "
                    "every completion round creates a 'new' item and the parse never ends",
                    keyparts=f"unbounded-field|{fld}")
        else:
            chk.ok("R06-a", where.fq, where.line, f"field `{fld}`: {a} - finite for a fixed grammar and input")
    extra = hf - ef
    if extra:
        chk.bad("R06-a", file, h.line, h.fq, f"__hash__ reads {sorted(extra)} which __eq__ ignores",
                "equal items hash differently, so the column's set admits an equal item again and again (no fixpoint)",
                keyparts="hash-not-subset-of-eq|" + ",".join(sorted(extra)))
    else:
        chk.ok("R06-a", h.fq, h.line, f"fields(__hash__)={sorted(hf)} subset of fields(__eq__)={sorted(ef)}")
    if ef != other_reads:
        chk.bad("R06-a", file, e.line, e.fq, f"__eq__ compares {sorted(ef)} of self with {sorted(other_reads)} of other",
                "asymmetric equality breaks set membership", keyparts="eq-asymmetric")

    # R06-d / R06-f: both guard against the same thing - items of one column multiplying because their identity includes the children ------------
    finite = not any(v.rule == "R06-a" for v in chk.violations)
    if finite:
        ip_ = eng.cls(f"{PMOD}.iterative_parser", "IterativeParser")
        for nm in ("scan_regex", "scan_bytes"):
            m_ = eng.method(ip_, nm, inherited=False)
            chk.ok("R06-d", m_.fq, m_.line, "not armed: the item identity is finite, so an item advanced without consuming input is admitted to its column once "
                                            "(the zero-length instances C05 / R05-a asks for are harmless then)", nontrivial=False)
    else:
        progress_guards(chk, eng)
    process_once(chk, eng, identity_is_finite=finite)

    # R06-b --------------------------------------------------------------------
    col = eng.cls(f"{PMOD}.column", "Column")
    guarded = {"states", "unique"}
    MUT = {"append", "extend", "insert", "add", "update", "remove", "pop", "clear", "discard", "sort", "reverse"}
    n_sites = 0
    for f in eng.ix.all_functions:
        if f.cls is col:
            continue
        env = None
        for n in walk_local(f.node):
            tgt_attr: Optional[ast.Attribute] = None
            if isinstance(n, ast.Call) and isinstance(n.func, ast.Attribute) and n.func.attr in MUT and isinstance(n.func.value, ast.Attribute) \
                    and n.func.value.attr in guarded:
                tgt_attr = n.func.value
            elif isinstance(n, (ast.Assign, ast.AugAssign, ast.Delete)):
                ts = n.targets if isinstance(n, (ast.Assign, ast.Delete)) else [n.target]
                for t in ts:
                    base = t.value if isinstance(t, ast.Subscript) else t
                    if isinstance(base, ast.Attribute) and base.attr in guarded:
                        tgt_attr = base
            if tgt_attr is None:
                continue
            if env is None:
                env = eng.env(f)
            ty = env.type_of(tgt_attr.value)
            if ty and col.fq not in ty:
                continue  # a `states` attribute of another class
            if not f.module.startswith("fandango.language.grammar.parser") and not ty:
                continue
            n_sites += 1
            chk.bad("R06-b", eng.relfile(f), n.lineno, f.fq, f"`{short(n)}` mutates Column.{tgt_attr.attr} outside Column",
                    "states enter a column without the duplicate test, so the work list can grow without bound", keyparts="outside-write|" + tgt_attr.attr)
    chk.ok("R06-b", "fandango.*", 0, f"no mutation of Column.states/unique outside Column ({len(eng.ix.all_functions)} functions scanned)")
    add = eng.method(col, "add", inherited=False)
    cfg = eng.cfg(add)
    for n in cfg.nodes:
        if n.kind == "stmt" and n.ast is not None and any(isinstance(c, ast.Call) and isinstance(c.func, ast.Attribute) and c.func.attr in ("append", "insert")
                                                        and self_attr(c.func.value) == "states" for c in ast.walk(n.ast)):
            ige = set()
            for g in cfg.nodes:
                if g.kind == "if":
                    t = g.ast.test  # type: ignore[union-attr]
                    if isinstance(t, ast.Compare) and isinstance(t.ops[0], ast.NotIn) and self_attr(t.comparators[0]) in ("unique", "states"):
                        ige.add((g.id, "true"))
            p = cfg.find_path(cfg.entry, [n.id], ignore_edges=ige)
            if p is None and ige:
                chk.ok("R06-b", add.fq, n.line, "states.append only behind `state not in self.unique`")
            else:
                chk.bad("R06-b", eng.relfile(add), n.line, add.fq, "states.append reachable without the membership test",
                        "duplicates enter the column: the per-column work list never reaches a fixpoint", path=cfg.describe_path(p) if p else [],
                        keyparts="append-unguarded")
    # every other Column method that inserts must remove as many (replace) - count inserts vs deletes
    for name, m in col.methods.items():
        if name in ("add", "__init__"):
            continue
        ins = [c for c in ast.walk(m.node) if isinstance(c, ast.Call) and isinstance(c.func, ast.Attribute) and c.func.attr in ("append", "insert", "extend")
               and self_attr(c.func.value) == "states"]
        dels = [d for d in ast.walk(m.node) if (isinstance(d, ast.Delete) and any(isinstance(t, ast.Subscript) and self_attr(t.value) == "states" for t in d.targets))
                or (isinstance(d, ast.Call) and isinstance(d.func, ast.Attribute) and d.func.attr in ("remove", "pop") and self_attr(d.func.value) == "states")]
        if ins:
            if len(dels) >= len(ins):
                chk.ok("R06-b", m.fq, m.line, f"{len(ins)} insertion(s) paired with {len(dels)} removal(s) (size-neutral)")
            else:
                chk.bad("R06-b", eng.relfile(m), m.line, m.fq, f"{len(ins)} insertion(s) into states but only {len(dels)} removal(s)",
                        "a column grows without passing the duplicate test", keyparts="unpaired-insert")

    # R06-c --------------------------------------------------------------------
    ip = eng.cls(f"{PMOD}.iterative_parser", "IterativeParser")
    cons = eng.method(ip, "_consume")
    cfg = eng.cfg(cons)
    whiles = [n for n in cfg.nodes if n.kind == "while"]
    main = None
    for w in whiles:
        t = w.ast.test  # type: ignore[union-attr]
        if isinstance(t, ast.Compare) and isinstance(t.left, ast.Name) and "len(" in norm(t.comparators[0]):
            main = w
    if main is None:
        raise AnalysisError("_consume: main loop `while <idx> < len(table)` not found")
    idx = main.ast.test.left.id  # type: ignore[union-attr]
    table_name = [x.id for x in ast.walk(main.ast.test.comparators[0]) if isinstance(x, ast.Name) and x.id != "len"]  # type: ignore[union-attr]
    incs = [n.id for n in cfg.nodes if n.kind == "stmt" and isinstance(n.ast, ast.AugAssign) and isinstance(n.ast.target, ast.Name)
            and n.ast.target.id == idx and isinstance(n.ast.op, ast.Add)]
    p = cfg.find_path(main.id, [main.id], avoid=incs, ignore=("exc-out", "raise-out", "abandon"))
    if p is None and incs:
        chk.ok("R06-c", cons.fq, main.line, f"every path around `{main.text()}` passes `{idx} += ...`")
    else:
        chk.bad("R06-c", eng.relfile(cons), main.line, cons.fq, f"a path through the loop body does not advance `{idx}`",
                "the same column is processed forever", path=cfg.describe_path(p) if p else [], keyparts="no-advance")
    from ..cfg import loop_body_nodes

    body = loop_body_nodes(cfg, main.id)
    bad_writes = []
    for nid in body:
        n = cfg.nodes[nid]
        if n.kind != "stmt" or n.ast is None:
            continue
        a = n.ast
        if isinstance(a, (ast.Assign, ast.AugAssign)):
            ts = a.targets if isinstance(a, ast.Assign) else [a.target]
            for t in ts:
                if isinstance(t, ast.Name) and t.id == idx and not (isinstance(a, ast.AugAssign) and isinstance(a.op, ast.Add)):
                    bad_writes.append((n, "index re-assigned"))
        for c in ast.walk(a):
            if isinstance(c, ast.Call) and isinstance(c.func, ast.Attribute) and c.func.attr in ("append", "extend", "insert") \
                    and isinstance(c.func.value, ast.Name) and c.func.value.id in table_name:
                bad_writes.append((n, "table extended inside the loop"))
    if bad_writes:
        for n, why in bad_writes:
            chk.bad("R06-c", eng.relfile(cons), n.line, cons.fq, f"`{n.text()}`: {why}", "the loop bound moves with the loop", keyparts="variant|" + why)
    else:
        chk.ok("R06-c", cons.fq, main.line, f"`{idx}` only increases and `{table_name[0] if table_name else 'table'}` is not extended in the loop ({len(body)} body nodes)")
    # the per-column for loop iterates the column itself (the list only add() extends)
    fors = [n for n in cfg.nodes if n.kind == "for" and n.id in body]
    colfor = [n for n in fors if isinstance(n.ast.iter, ast.Subscript) and isinstance(n.ast.iter.value, ast.Name) and n.ast.iter.value.id in table_name]  # type: ignore[union-attr]
    if colfor:
        chk.ok("R06-c", cons.fq, colfor[0].line, f"work list `{short(colfor[0].ast.iter)}` is the column object (grows only through Column.add)")  # type: ignore[union-attr]
    else:
        raise AnalysisError("_consume: per-column work-list loop not found")


# ------------------------------------------------------------------ self-test variants
from ..mutants import M  # noqa: E402

_PS = "src/fandango/language/grammar/parser/parse_state.py"
_COL = "src/fandango/language/grammar/parser/column.py"
_IP = "src/fandango/language/grammar/parser/iterative_parser.py"
MUTANTS = [
    M("late-completion-from-predict", _IP, "            self.predict_ctx_rule(state, table, k, node, nt, hookin_parent)\n", "            self.predict_ctx_rule(state, table, k, node, nt, hookin_parent)\n            return\n        for other in table[k]:\n            if other.position == k and other.nonterminal == symbol and other.finished():\n                self.complete(other, table, k)\n", "R06-f"),
    M("parent-item-by-last-match", _IP, "            for table_state in table[current_state.position].states:\n                if table_state.dot == current_state.nonterminal:\n                    current_state = table_state\n                    found_next_state = True\n                    break\n",
      "            for table_state in table[current_state.position].states:\n                if table_state.dot == current_state.nonterminal:\n                    current_state = table_state\n                    found_next_state = True\n", "R06-e"),
    M("parent-item-through-dict", _IP, "            found_next_state = False\n            for table_state in table[current_state.position].states:\n                if table_state.dot == current_state.nonterminal:\n                    current_state = table_state\n                    found_next_state = True\n                    break\n",
      "            waiting = {s.dot: s for s in table[current_state.position].states}\n            parent_state = waiting.get(current_state.nonterminal)\n            found_next_state = parent_state is not None\n            if parent_state is not None:\n                current_state = parent_state\n", "R06-e"),
    M("regex-progress-guard-only-for-incomplete", _IP, "        if match and match_length <= prev_match_length:\n            match = False\n", "        if match and state.is_incomplete and match_length <= prev_match_length:\n            match = False\n", "R06-d"),
    M("regex-progress-guard-removed", _IP, "        if match and match_length <= prev_match_length:\n            match = False\n            match_length = 0\n", "", "R06-d"),
    M("bytes-accepts-empty-incomplete", _IP, "            if not match or match_length == 0:\n                return False\n", "            if not match:\n                return False\n", "R06-d"),
    M("hash-adds-field-eq-ignores", _PS, "                    self._dot,\n                    tuple(self.children),\n", "                    self._dot,\n                    tuple(self.children),\n                    self.incomplete_idx,\n", "R06-a"),
    M("eq-drops-dot", _PS, "            and self.symbols == other.symbols\n            and self._dot == other._dot\n", "            and self.symbols == other.symbols\n", "R06-a"),
    M("column-add-unconditional", _COL, "        if state not in self.unique:\n            self.states.append(state)\n            self.unique.add(state)\n",
      "        if True:\n            self.states.append(state)\n            self.unique.add(state)\n", "R06-b"),
    M("parser-appends-state-directly", _IP, "            table[k].add(s)\n", "            table[k].states.append(s)\n", "R06-b"),
    M("consume-index-conditional", _IP, "            self.place_repetition_shortcut(table, curr_table_idx)\n            curr_table_idx += 1\n",
      "            self.place_repetition_shortcut(table, curr_table_idx)\n            if len(table[curr_table_idx]) > 0 or at_end:\n                curr_table_idx += 1\n", "R06-c"),
    M("table-extended-in-loop", _IP, "            self.place_repetition_shortcut(table, curr_table_idx)\n", "            self.place_repetition_shortcut(table, curr_table_idx)\n            table.append(Column())\n", "R06-c"),
]
TWINS = [
    M("twin-parent-item-by-next", _IP, "            found_next_state = False\n            for table_state in table[current_state.position].states:\n                if table_state.dot == current_state.nonterminal:\n                    current_state = table_state\n                    found_next_state = True\n                    break\n",
      "            parent_state = next((s for s in table[current_state.position].states if s.dot == current_state.nonterminal), None)\n            found_next_state = parent_state is not None\n            if parent_state is not None:\n                current_state = next(iter([parent_state]))\n", None),
    M("twin-regex-progress-guard-mirrored", _IP, "        if match and match_length <= prev_match_length:\n", "        if match and prev_match_length >= match_length:\n", None),
    M("twin-eq-reordered", _PS, "            and self.nonterminal == other.nonterminal\n            and self.position == other.position\n", "            and self.position == other.position\n            and self.nonterminal == other.nonterminal\n", None),
    M("twin-add-else-return", _COL, "                self.dot_map[symbol] = state_list\n            return True\n        return False\n", "                self.dot_map[symbol] = state_list\n            return True\n        else:\n            return False\n", None),
]
