"""C11 - cached evaluations equal fresh evaluations (key completeness, ordering, isolation).

R11-a  key completeness: every memo idiom (`k = ...; if k in C: return ...; ...; C[k] = v`) of the
       hard-constraint family computes its key from *all* parameters the miss path reads (tree,
       scope, local_variables), through GeneticBase.get_hash, which hashes the root, the tree and
       both dictionaries' items; the evaluator's key covers the individual and its root.
R11-b  key before mutation: the key is computed before the function writes `scope` /
       `local_variables` (quantifiers mutate the dictionaries they pass down), and the store uses
       that same definition.
R11-c  isolation: hit paths return copy(...) of the stored fitness; a fitness object obtained from
       another constraint's fitness() is mutated only after copy(); no function mutates the
       failing_trees / values list of a fitness object in place (the lists are shared between a
       memo entry and its copies).
The clause "no hash coincidence can change a verdict" cannot hold by construction (64-bit hash
keys; tree equality is itself hash equality) - stated, not alarmed.
"""

from __future__ import annotations

import ast
from typing import Optional

from ..core import AnalysisError, FuncInfo, call_name, names_in, norm, self_attr, short, walk_local
from ..dataflow import ReachingDefs
from ..engine import Engine
from ..report import Check

CONS = "fandango.constraints"
FIT_FIELDS = {"solved", "total", "success", "failing_trees", "values", "suggestion"}


def memo_idiom(eng: Engine, fn: FuncInfo):
    """(key name, key def node id, hit-if node, store nodes, cache attr) or None."""
    cfg = eng.cfg(fn)
    for n in cfg.nodes:
        if n.kind == "if":
            t = n.ast.test  # type: ignore[union-attr]
            if isinstance(t, ast.Compare) and len(t.ops) == 1 and isinstance(t.ops[0], ast.In) and isinstance(t.left, ast.Name) and self_attr(t.comparators[0]):
                key = t.left.id
                cache = self_attr(t.comparators[0])
                stores = [s for s in cfg.nodes if s.kind == "stmt" and isinstance(s.ast, ast.Assign) and any(
                    isinstance(tg, ast.Subscript) and self_attr(tg.value) == cache for tg in s.ast.targets)]
                return key, n, stores, cache
    return None


def binding_key_quality(eng: Engine, gh: FuncInfo, hcall: ast.Call, param: str, depth: int = 0) -> tuple[str, str]:
    """('exact' | 'lossy' | 'missing', detail): how the dictionary `param` enters the hash call."""
    def uses_param(e: ast.AST) -> bool:
        return any(isinstance(x, ast.Name) and x.id == param for x in ast.walk(e))

    elems = hcall.args[0].elts if hcall.args and isinstance(hcall.args[0], ast.Tuple) else list(hcall.args)
    for el in elems:
        if not uses_param(el):
            continue
        src = norm(el)
        if ".items()" in src and isinstance(el, ast.Call) and call_name(el) in ("tuple", "frozenset", "sorted"):
            return "exact", short(el, 60)
        if ".keys()" in src or (isinstance(el, ast.Call) and call_name(el) == "len"):
            return "lossy", f"`{short(el, 60)}` ignores the bound values"
        if isinstance(el, ast.Call) and depth < 2:
            # helper: look into its body
            mod = eng.ix.modules[gh.module]
            target = None
            if isinstance(el.func, ast.Attribute) and gh.cls is not None:
                target = gh.cls.lookup(el.func.attr)
            elif isinstance(el.func, ast.Name):
                r = eng.ix.resolve_name(mod, el.func.id)
                target = r if isinstance(r, FuncInfo) else None
            if target is not None:
                body = norm(target.node)
                folds = [x for x in ast.walk(target.node) if isinstance(x, (ast.AugAssign, ast.BinOp)) and isinstance(x.op, (ast.BitXor, ast.Add, ast.BitOr, ast.BitAnd, ast.Mult))
                         and "hash(" in norm(x)]
                rets = [r_ for r_ in ast.walk(target.node) if isinstance(r_, ast.Return) and r_.value is not None]
                if folds:
                    return "lossy", f"{target.qualname} combines per-entry hashes with `{type(folds[0].op).__name__}` ({short(folds[0], 50)}), which forgets which value belongs to which name"
                if rets and all(".items()" in norm(r_.value) and isinstance(r_.value, ast.Call) and call_name(r_.value) in ("tuple", "frozenset", "sorted", "hash") for r_ in rets):
                    return "exact", f"via {target.qualname}: {short(rets[0].value, 50)}"
            return "missing", f"`{short(el, 60)}` (helper not understood)"
        return "missing", short(el, 60)
    return "missing", "not part of the hashed tuple"


def gethash_rule(chk: Check, eng: Engine, rule: str) -> None:
    """GeneticBase.get_hash must distinguish evaluations that differ in root, tree, scope or local variables."""
    gb = eng.cls(f"{CONS}.base", "GeneticBase")
    gh = eng.method(gb, "get_hash", inherited=False)
    # get_hash covers all its parameters
    gparams = [p for p in gh.params() if p not in ("self", "cls")]
    hcall = [c for c in walk_local(gh.node) if isinstance(c, ast.Call) and call_name(c) == "hash"]
    if not hcall:
        raise AnalysisError("GeneticBase.get_hash: hash(...) call not found")
    hsrc = norm(hcall[0])
    for p in gparams:
        if p in names_in(hcall[0]):
            chk.ok(rule, gh.fq, gh.line, f"get_hash hashes `{p}`")
        else:
            chk.bad(rule, eng.relfile(gh), gh.line, gh.fq, f"get_hash ignores its parameter `{p}`",
                    "two evaluations that differ only in that input share a memo entry: a quantifier binding or a local variable is ignored", keyparts=f"gethash-ignores|{p}")
    if "get_root()" in hsrc:
        chk.ok(rule, gh.fq, gh.line, "get_hash includes the tree's root (the same subtree in another tree is another key)")
    else:
        chk.bad(rule, eng.relfile(gh), gh.line, gh.fq, "get_hash does not include the tree's root", "verdicts for a subtree are reused across different enclosing trees", keyparts="gethash-root")
    for d, what in (("scope", "scope"), ("local_variables", "local variables")):
        q, detail = binding_key_quality(eng, gh, hcall[0], d)
        if q == "exact":
            chk.ok(rule, gh.fq, gh.line, f"get_hash includes the items (names paired with values) of {what}: {detail}")
        elif q == "lossy":
            chk.bad(rule, eng.relfile(gh), gh.line, gh.fq, f"get_hash folds the {what} lossily: {detail}",
                    "different bindings collide (e.g. {x: a, y: b} and {x: b, y: a}, or every {x: t, y: t}): the body of a nested quantifier is answered "
                    "with the cached verdict of another binding", keyparts=f"gethash-lossy|{d}")
        else:
            chk.bad(rule, eng.relfile(gh), gh.line, gh.fq, f"get_hash does not hash the items of {what}", "bindings with the same names but other values collide", keyparts=f"gethash-items|{d}")


def run(chk: Check, eng: Engine) -> None:
    chk.rule("R11-a", "memo keys are computed from every parameter the miss path reads; get_hash covers root, tree, scope and local variables", floor=10)
    chk.rule("R11-b", "the memo key is computed before scope/local_variables are written and the store uses that definition", floor=8)
    chk.rule("R11-c", "memo hits return copies; foreign fitness objects are mutated only after copy(); fitness lists are never mutated in place", floor=10)
    chk.not_decided += ["'no hash coincidence can change a verdict' cannot hold by construction: memo keys are 64-bit hashes and tree equality is hash equality",
                        "soft constraints (scores depend on history by design)"]

    base = eng.cls(f"{CONS}.constraint", "Constraint")
    gethash_rule(chk, eng, "R11-a")
    n_memo = 0
    for c in sorted(base.all_subclasses(), key=lambda c: c.fq):
        fn = c.methods.get("fitness")
        if fn is None:
            continue
        eng.consult(fn.module)
        mi = memo_idiom(eng, fn)
        if mi is None:
            chk.ok("R11-a", fn.fq, fn.line, f"{c.name}.fitness has no memo", nontrivial=False)
            continue
        n_memo += 1
        key, hit_if, stores, cache = mi
        cfg = eng.cfg(fn)
        rd = ReachingDefs(cfg, fn.params())
        kdefs = rd.defs_reaching(hit_if.id, key)
        if len(kdefs) != 1:
            raise AnalysisError(f"{fn.fq}: memo key `{key}` has {len(kdefs)} reaching definitions at the lookup")
        kdef = next(iter(kdefs))
        kval = rd.def_value(kdef, key)
        params = [p for p in fn.params() if p != "self"]
        if isinstance(kval, ast.Call) and call_name(kval) == "get_hash":
            args = [a.id for a in kval.args if isinstance(a, ast.Name)]
            missing = [p for p in params if p not in args]
            if not missing and args == params[:len(args)]:
                chk.ok("R11-a", fn.fq, cfg.nodes[kdef].line, f"{c.name}: key = get_hash({', '.join(args)}) covers every parameter of fitness()")
            else:
                chk.bad("R11-a", eng.relfile(fn), cfg.nodes[kdef].line, fn.fq, f"{c.name}: key `{short(kval)}` omits / reorders {missing or params}",
                        "a cached verdict is served for an evaluation whose scope or local variables differ", keyparts=f"key-omits|{','.join(missing)}")
        else:
            chk.bad("R11-a", eng.relfile(fn), cfg.nodes[kdef].line, fn.fq, f"{c.name}: memo key is `{short(kval) if kval is not None else '?'}`, not get_hash(tree, scope, local_variables)",
                    "the memo key does not determine the evaluation's inputs", keyparts="key-shape")
        # R11-b: writes to scope / local_variables after the key
        writes = []
        for n in cfg.nodes:
            if n.ast is None or n.kind != "stmt":
                continue
            a = n.ast
            if isinstance(a, (ast.Assign, ast.AugAssign)):
                for t in (a.targets if isinstance(a, ast.Assign) else [a.target]):
                    b = t.value if isinstance(t, ast.Subscript) else t
                    if isinstance(b, ast.Name) and b.id in ("scope", "local_variables"):
                        writes.append(n)
            elif isinstance(a, ast.Expr) and isinstance(a.value, ast.Call) and isinstance(a.value.func, ast.Attribute) and isinstance(a.value.func.value, ast.Name) \
                    and a.value.func.value.id in ("scope", "local_variables") and a.value.func.attr in ("update", "pop", "clear", "setdefault"):
                writes.append(n)
        early = [w for w in writes if cfg.find_path(cfg.entry, [w.id], avoid=[kdef]) is not None]
        if early:
            chk.bad("R11-b", eng.relfile(fn), early[0].line, fn.fq, f"{c.name}: `{early[0].text()}` can run before the memo key is computed",
                    "the key is computed from dictionaries that were already rebound: the entry is stored under a key that does not describe the caller's inputs",
                    keyparts="write-before-key")
        else:
            chk.ok("R11-b", fn.fq, cfg.nodes[kdef].line, f"{c.name}: key computed before any of the {len(writes)} write(s) to scope/local_variables")
        for s in stores:
            sub = [t for t in s.ast.targets if isinstance(t, ast.Subscript)][0]  # type: ignore[union-attr]
            k2 = sub.slice
            if isinstance(k2, ast.Name) and rd.defs_reaching(s.id, k2.id) == kdefs and k2.id == key:
                chk.ok("R11-b", fn.fq, s.line, f"{c.name}: `{s.text()}` stores under the key computed at entry")
            else:
                chk.bad("R11-b", eng.relfile(fn), s.line, fn.fq, f"{c.name}: `{s.text()}` stores under a re-computed / different key",
                        "with quantifiers the dictionaries were mutated in between: the entry is filed under the wrong inputs", keyparts="store-key")
        # R11-c: hit path returns a copy
        tb = cfg.true_branch_nodes(hit_if.id)
        rets = [cfg.nodes[i] for i in tb if cfg.nodes[i].kind == "stmt" and isinstance(cfg.nodes[i].ast, ast.Return)]
        for r in rets:
            v = r.ast.value  # type: ignore[union-attr]
            if isinstance(v, ast.Call) and call_name(v) in ("copy", "deepcopy"):
                chk.ok("R11-c", fn.fq, r.line, f"{c.name}: memo hit returns `{short(v)}`")
            else:
                chk.bad("R11-c", eng.relfile(fn), r.line, fn.fq, f"{c.name}: memo hit returns the stored object itself (`{short(r.ast)}`)",
                        "a caller that adjusts the returned fitness (implication adds 1 to total/solved) changes the memo entry and every later verdict served from it",
                        keyparts="hit-no-copy")
    if n_memo < 6:
        raise AnalysisError(f"only {n_memo} memoised fitness implementations found")

    # evaluator key
    ev = eng.cls("fandango.evolution.evaluation", "Evaluator")
    ei = eng.method(ev, "evaluate_individual", inherited=False)
    mi = memo_idiom(eng, ei)
    if mi is None:
        raise AnalysisError("Evaluator.evaluate_individual: memo idiom not found")
    key, hit_if, stores, cache = mi
    cfg = eng.cfg(ei)
    rd = ReachingDefs(cfg, ei.params())
    kdef = next(iter(rd.defs_reaching(hit_if.id, key)))
    kval = rd.def_value(kdef, key)
    ks = norm(kval) if kval is not None else ""
    if "individual" in ks and "get_root()" in ks and ks.startswith("hash("):
        chk.ok("R11-a", ei.fq, cfg.nodes[kdef].line, f"evaluator key `{ks}` covers the individual and its root")
    else:
        chk.bad("R11-a", eng.relfile(ei), cfg.nodes[kdef].line, ei.fq, f"evaluator key `{ks}` does not cover individual and root",
                "evaluations of different trees share a cache entry", keyparts="evaluator-key")
    for s in stores:
        sub = [t for t in s.ast.targets if isinstance(t, ast.Subscript)][0]  # type: ignore[union-attr]
        if isinstance(sub.slice, ast.Name) and sub.slice.id == key and rd.defs_reaching(s.id, key) == rd.defs_reaching(hit_if.id, key):
            chk.ok("R11-b", ei.fq, s.line, "evaluator stores under the key computed at entry")
        else:
            chk.bad("R11-b", eng.relfile(ei), s.line, ei.fq, f"`{s.text()}` stores under another key", "the entry is filed under the wrong tree", keyparts="evaluator-store-key")

    # R11-c: foreign fitness objects mutated only after copy; no in-place list mutation
    n_sites = 0
    for f in eng.ix.all_functions:
        if not f.module.startswith(("fandango.constraints", "fandango.evolution")):
            continue
        cfgf = None
        for n in walk_local(f.node):
            tgt = None
            if isinstance(n, (ast.Assign, ast.AugAssign)):
                for t in (n.targets if isinstance(n, ast.Assign) else [n.target]):
                    if isinstance(t, ast.Attribute) and t.attr in FIT_FIELDS and isinstance(t.value, ast.Name) and t.value.id != "self":
                        tgt = t.value.id
            if isinstance(n, ast.Call) and isinstance(n.func, ast.Attribute) and n.func.attr in ("append", "extend", "insert", "remove", "pop", "clear") \
                    and isinstance(n.func.value, ast.Attribute) and n.func.value.attr in ("failing_trees", "values") and not (isinstance(n.func.value.value, ast.Name) and n.func.value.value.id == "self" and False):
                owner = n.func.value.value
                n_sites += 1
                chk.bad("R11-c", eng.relfile(f), n.lineno, f.fq, f"`{short(n)}` mutates a fitness object's list in place",
                        "the list is shared between a memo entry and the copies served from it (__copy__ of DistanceAwareConstraintFitness passes failing_trees by reference)",
                        keyparts="fitness-list-mutated|" + short(n, 40))
            if tgt is None:
                continue
            n_sites += 1
            # definitions of tgt: must be copy(...) or a constructor
            defs = [d for d in walk_local(f.node) if isinstance(d, ast.Assign) and any(isinstance(t, ast.Name) and t.id == tgt for t in d.targets)]
            ok = bool(defs) and all(isinstance(d.value, ast.Call) and (call_name(d.value) in ("copy", "deepcopy") or call_name(d.value).endswith("Fitness")) for d in defs)
            if ok:
                chk.ok("R11-c", f.fq, n.lineno, f"`{short(n, 50)}` adjusts `{tgt}`, which is a copy / a new object")
            else:
                chk.bad("R11-c", eng.relfile(f), n.lineno, f.fq, f"`{short(n, 60)}` mutates `{tgt}`, obtained from {[short(d.value, 40) for d in defs]} without copy()",
                        "the object is (also) the memo entry of the constraint that produced it: its cached verdict changes for every later evaluation",
                        keyparts=f"mutates-uncopied|{tgt}")
    chk.ok("R11-c", "fandango.constraints/evolution", 0, f"{n_sites} mutation site(s) of fitness objects examined")
    # __copy__ implementations build new objects
    fitb = eng.cls(f"{CONS}.fitness", "Fitness")
    for c in fitb.all_subclasses():
        m = c.methods.get("__copy__")
        if m is None:
            continue
        rets = [r for r in walk_local(m.node) if isinstance(r, ast.Return)]
        if rets and all(isinstance(r.value, ast.Call) and call_name(r.value) == c.name for r in rets):
            chk.ok("R11-c", m.fq, m.line, f"{c.name}.__copy__ builds a new {c.name}")
        else:
            chk.bad("R11-c", eng.relfile(m), m.line, m.fq, f"{c.name}.__copy__ does not build a new object", "copy() on a memo hit returns the entry itself", keyparts=f"copy-identity|{c.name}")


    chk.rule("R11-h", "memoised fitness() methods read no module-level state that is re-bound during a run", floor=5)
    from . import common_fitness as _cfp
    _cfp.memo_purity_rule(chk, eng, "R11-h")
    chk.rule("R11-i", "the hash of every symbol class carries the symbol kind (tree hashes - the identity all caches rely on - are built from hash(symbol))", floor=2)
    from .c10 import symbol_hash_rule
    symbol_hash_rule(chk, eng, "R11-i")
    chk.rule("R11-k", "in every loop of the evaluator over its constraints, constraint.fitness(tree) is called on every path through the loop body", floor=1)
    every_constraint_is_asked_rule(chk, eng, "R11-k")
    chk.rule("R11-l", "no constraint object is duplicated by a shallow copy (the duplicate would share the verdict memo)", floor=1)
    shared_cache_rule(chk, eng, "R11-l")
    chk.rule("R11-j", "no function the evaluation of a constraint reaches is memoised by a decorator whose key leaves out something the function reads", floor=1)
    from .common_memo import decorated_memo_rule
    decorated_memo_rule(chk, eng, "R11-j", [f.fq for f in eng.ix.all_functions if f.name in ("fitness", "check") and f.module.startswith("fandango.constraints")], "constraint verdicts")
    chk.rule("R11-g", "quantifiers write their bound variable only into dictionaries they own (copies made in the same call)", floor=4)
    from . import common_fitness as _cfo
    _cfo.owned_binding_rule(chk, eng, "R11-g")
    chk.rule("R11-f", "a value memoised on a tree node and handed out by reference is immutable", floor=1)
    memo_by_reference_rule(chk, eng)
    chk.rule("R11-e", "lists the evaluator extends in place come from helpers that build them anew on every call", floor=2)
    fresh_result_rule(chk, eng)
    chk.rule("R11-d", "what a memo hit deep-copies is copyable: the type closure of every deepcopy() argument in a Fitness.__copy__ stays clear of "
             "grammar / constraint objects (they hold the spec's globals - modules - and must be shared, not copied)", floor=3)
    copy_closure_rule(chk, eng, fitb)


def fresh_result_rule(chk: Check, eng: Engine) -> None:
    """R11-e.  The evaluator extends the lists it gets back from its own helper methods in place (`failing_trees.extend(...)`), and the
    tuple that holds them goes into the evaluator's memo.  That is only sound while every helper builds the list anew on every call: a helper
    that hands out a container kept elsewhere (an attribute, a module constant, a default) makes every tree's report accumulate the failing
    parts of the trees evaluated before it."""
    ev_mod = "fandango.evolution.evaluation"
    n_sites = 0
    for cname in ("Evaluator", "IoEvaluator"):
        cls = eng.cls(ev_mod, cname)

        def fresh_expr(m: FuncInfo, e: ast.AST, depth: int = 0) -> tuple[bool, str]:
            if isinstance(e, (ast.List, ast.ListComp, ast.Dict, ast.Set)):
                return True, "display"
            if isinstance(e, ast.Call) and isinstance(e.func, ast.Name) and e.func.id in ("list", "sorted", "dict", "set"):
                return True, e.func.id + "(...)"
            if isinstance(e, ast.BinOp) and isinstance(e.op, ast.Add):
                return True, "concatenation"
            if isinstance(e, ast.Name):
                if e.id in m.params():
                    return False, f"parameter `{e.id}`"
                defs = [a for a in walk_local(m.node) if isinstance(a, (ast.Assign, ast.AnnAssign)) and a.value is not None and
                        any(isinstance(t, ast.Name) and t.id == e.id for t in (a.targets if isinstance(a, ast.Assign) else [a.target]))]
                if not defs:
                    return False, f"`{e.id}` has no local definition"
                for d in defs:
                    ok, why = fresh_expr(m, d.value, depth + 1)  # type: ignore[arg-type]
                    if not ok:
                        return False, why
                stored = [a for a in walk_local(m.node) if isinstance(a, ast.Assign) and isinstance(a.value, ast.Name) and a.value.id == e.id and any(self_attr(t) for t in a.targets)]
                if stored:
                    return False, f"`{e.id}` is also kept in self.{self_attr(stored[0].targets[0])}"
                return True, "local list"
            return False, f"`{short(e, 40)}`"

        def fresh_at(m: FuncInfo, idx: Optional[int], depth: int = 0) -> tuple[bool, str]:
            """Is component idx of every value m returns (or the value itself, idx None) a container built during the call?"""
            if depth > 3:
                return False, "call chain too deep"
            rets = [r for r in walk_local(m.node) if isinstance(r, ast.Return) and r.value is not None]
            if not rets:
                return False, "no return value"
            for r in rets:
                v = r.value
                if isinstance(v, ast.Call) and isinstance(v.func, ast.Attribute) and self_attr(v.func) is not None:
                    callee = cls.lookup(v.func.attr)
                    if callee is None:
                        return False, f"`{short(v, 40)}` is not a method of {cls.name}"
                    ok, why = fresh_at(callee, idx, depth + 1)
                    if not ok:
                        return False, f"{callee.name}: {why}"
                    continue
                if idx is not None:
                    if isinstance(v, ast.Tuple) and idx < len(v.elts):
                        ok, why = fresh_expr(m, v.elts[idx])
                        if not ok:
                            return False, f"line {r.lineno}: component {idx} is {why}"
                        continue
                    return False, f"line {r.lineno}: returns `{short(v, 50)}`, not a tuple built in the call"
                ok, why = fresh_expr(m, v)
                if not ok:
                    return False, f"line {r.lineno}: returns {why}"
            return True, "fresh on every return"

        for m in cls.methods.values():
            for n in walk_local(m.node):
                tgt = None
                if isinstance(n, ast.Call) and isinstance(n.func, ast.Attribute) and n.func.attr in ("extend", "append", "insert", "remove", "clear", "sort") and isinstance(n.func.value, ast.Name):
                    tgt = n.func.value.id
                elif isinstance(n, ast.AugAssign) and isinstance(n.target, ast.Name):
                    tgt = n.target.id
                if tgt is None:
                    continue
                # definitions of tgt that come from a call of an own method
                for d in walk_local(m.node):
                    if not (isinstance(d, ast.Assign) and isinstance(d.value, ast.Call) and isinstance(d.value.func, ast.Attribute) and self_attr(d.value.func) is not None):
                        continue
                    callee = cls.lookup(d.value.func.attr)
                    if callee is None:
                        continue
                    for t in d.targets:
                        idx = None
                        hit = False
                        if isinstance(t, ast.Name) and t.id == tgt:
                            hit = True
                        elif isinstance(t, ast.Tuple):
                            for i, el in enumerate(t.elts):
                                if isinstance(el, ast.Name) and el.id == tgt:
                                    hit, idx = True, i
                        if not hit:
                            continue
                        if isinstance(n, ast.AugAssign) and idx is not None:
                            # x += ... on a number rebinding: only containers matter
                            ann = callee.node.returns  # type: ignore[attr-defined]
                            if ann is not None and isinstance(ann, ast.Subscript) and isinstance(ann.slice, ast.Tuple) and idx < len(ann.slice.elts) and norm(ann.slice.elts[idx]) in ("float", "int", "bool"):
                                continue
                        n_sites += 1
                        ok, why = fresh_at(callee, idx)
                        if ok:
                            chk.ok("R11-e", m.fq, n.lineno, f"`{short(n, 50)}` mutates component {idx} of `{short(d.value, 40)}`: {why}")
                        else:
                            chk.bad("R11-e", eng.relfile(m), n.lineno, m.fq, f"`{short(n, 50)}` mutates in place what `{short(d.value, 40)}` returned, and that is not built per call ({why})",
                                    "the failing parts of every tree evaluated so far pile up in one shared list, which also sits in every memo entry: a tree's report depends on the run's history",
                                    keyparts=f"shared-result|{callee.name}|{idx}")
    if n_sites < 2:
        raise AnalysisError(f"only {n_sites} in-place mutation(s) of helper results found in the evaluator")


def every_constraint_is_asked_rule(chk: Check, eng: Engine, rule: str) -> None:
    """R11-k.  A cached evaluation can only equal a fresh one if an evaluation *is* one: in every loop of the evaluator over its constraints the
    constraint's `fitness(<tree>)` is called on every path through the loop body.  A path that skips the call because of something the
    evaluator remembers about the *constraint* (it raised before, it was satisfied last time) makes the verdict of a tree depend on which trees
    were evaluated earlier - state that no tree-keyed memo key covers."""
    n = 0
    for modn, cn in (("fandango.evolution.evaluation", "Evaluator"), ("fandango.evolution.evaluation", "IoEvaluator")):
        cls = eng.cls(modn, cn)
        for m in cls.methods.values():
            loops = [lp for lp in walk_local(m.node) if isinstance(lp, ast.For) and isinstance(lp.target, ast.Name)
                     and any(isinstance(c, ast.Call) and isinstance(c.func, ast.Attribute) and c.func.attr == "fitness" and isinstance(c.func.value, ast.Name) and c.func.value.id == lp.target.id
                             for c in ast.walk(lp))]
            if not loops:
                continue
            cfg = eng.cfg(m)
            for lp in loops:
                heads = cfg.nodes_of(lp, {"for"})
                if not heads:
                    continue
                head = heads[0]
                calls = [nd.id for nd in cfg.nodes if nd.kind == "stmt" and nd.ast is not None and any(
                    isinstance(c, ast.Call) and isinstance(c.func, ast.Attribute) and c.func.attr == "fitness" and isinstance(c.func.value, ast.Name) and c.func.value.id == lp.target.id
                    for c in ast.walk(nd.ast)) and any(nd.ast is x or any(nd.ast is y for y in ast.walk(x)) for x in lp.body)]
                n += 1
                # from the loop head through the body back to the head without asking the constraint
                p = None
                for b, lab in cfg.succ[head]:
                    if lab not in ("loop", "true"):
                        continue
                    if b in calls:
                        continue
                    q = [(b, "true")] if any(s_ == head for s_, _ in cfg.succ[b]) else cfg.find_path(b, [head], avoid=calls)
                    if q is not None:
                        p = q
                if p is None and calls:
                    chk.ok(rule, m.fq, lp.lineno, f"`for {lp.target.id} in {short(lp.iter, 30)}`: {lp.target.id}.fitness(...) is called on every path through the loop body")
                else:
                    chk.bad(rule, eng.relfile(m), lp.lineno, m.fq, f"`for {lp.target.id} in {short(lp.iter, 30)}` has a path through its body that does not call {lp.target.id}.fitness(...)",
                            "whether a constraint is evaluated for a tree depends on what the evaluator remembers from earlier trees (a constraint that raised once for a short tree is "
                            "never asked again): the same tree gets another verdict from a fresh evaluator", path=cfg.describe_path(p) if p else [], keyparts=f"constraint-skipped|{m.qualname}")
    if n < 1:
        raise AnalysisError("no loop over constraints calling fitness() found in the evaluators")


def shared_cache_rule(chk: Check, eng: Engine, rule: str) -> None:
    """R11-l.  The verdict memo (`self.cache`) belongs to one constraint object.  A shallow copy of a constraint (`copy(self)`, `copy.copy(c)`)
    shares the dictionary: the copy - typically a variant with another operator, e.g. the result of invert() - reads and writes the same keys.
    Constraint objects are duplicated by constructing them (or by a `__copy__` that gives the duplicate a cache of its own)."""
    base = eng.cls("fandango.constraints.base", "GeneticBase")
    fam = [base] + base.all_subclasses()
    has_copy = {c.name for c in fam if "__copy__" in c.methods and any(isinstance(a, ast.Assign) and any(self_attr(t) == "cache" or (isinstance(t, ast.Attribute) and t.attr == "cache") for t in a.targets)
                                                                      for a in walk_local(c.methods["__copy__"].node))}
    n = 0
    for c in fam:
        for m in c.methods.values():
            n += 1
            for x in walk_local(m.node):
                if isinstance(x, ast.Call) and ((isinstance(x.func, ast.Name) and x.func.id == "copy") or norm(x.func) == "copy.copy") and x.args and norm(x.args[0]) == "self" and c.name not in has_copy:
                    chk.bad(rule, eng.relfile(m), x.lineno, m.fq, f"`{short(x, 40)}` in {m.qualname} duplicates a constraint by shallow copy",
                            "the duplicate shares `cache` with the original: after `c.invert()` the constraint and its negation answer each other's questions from one memo - whichever "
                            "judged a tree first decides the verdict of the other", keyparts=f"shallow-copy-of-constraint|{m.qualname}")
    if n < 20:
        raise AnalysisError(f"only {n} constraint methods scanned")
    chk.ok(rule, "fandango.constraints.*", 0, f"{n} methods of {len(fam)} constraint classes: no constraint is duplicated by a shallow copy")


def memo_by_reference_rule(chk: Check, eng: Engine, rule: str = "R11-f") -> None:
    """R11-f.  What constraint evaluation reads from a tree (value(), hash, size, ...) may be memoised on the node - but a memo that is handed
    out by reference must hold an immutable value.  An object with in-place mutators (TreeValue normalises itself inside its conversions) that is
    kept on the node and returned as is gets changed by its readers: the next evaluation of the same tree sees another value than a fresh one."""
    IMMUTABLE = {"int", "str", "bytes", "float", "bool", "tuple", "frozenset", "NoneType", "None"}
    n_memo = 0
    for modn, cn in (("fandango.language.tree", "DerivationTree"), ("fandango.language.tree_value", "TreeValue"), ("fandango.language.symbols.symbol", "Symbol"),
                     ("fandango.language.symbols.terminal", "Terminal"), ("fandango.language.symbols.non_terminal", "NonTerminal")):
        try:
            cls = eng.cls(modn, cn)
        except Exception:
            continue
        anns = cls.instance_attr_annotations()
        for m in cls.methods.values():
            # memo idiom: `if self.F is None: ... self.F = v ...` and `return self.F`
            fields = set()
            for n in walk_local(m.node):
                if isinstance(n, ast.If) and isinstance(n.test, ast.Compare) and len(n.test.ops) == 1 and isinstance(n.test.ops[0], ast.Is) and self_attr(n.test.left) \
                        and isinstance(n.test.comparators[0], ast.Constant) and n.test.comparators[0].value is None:
                    f_ = self_attr(n.test.left)
                    if any(isinstance(a, ast.Assign) and any(self_attr(t) == f_ for t in a.targets) for a in ast.walk(n)):
                        fields.add(f_)
            for f_ in sorted(fields):
                rets = [r for r in walk_local(m.node) if isinstance(r, ast.Return) and r.value is not None and self_attr(r.value) == f_]
                if not rets:
                    continue
                n_memo += 1
                from ..core import ann_class_names
                tnames = [t for t in ann_class_names(anns.get(f_)) if t not in ("Optional",)]
                mutable = []
                for t in tnames:
                    if t in IMMUTABLE:
                        continue
                    for k in eng.ix.classes_by_name.get(t, []):
                        muts = [mm.name for mm in k.methods.values() if mm.name not in ("__init__", "__post_init__") and
                                any(isinstance(a, (ast.Assign, ast.AugAssign)) and any(self_attr(x) for x in (a.targets if isinstance(a, ast.Assign) else [a.target])) for a in walk_local(mm.node))]
                        if muts:
                            mutable.append((k.name, muts[:3]))
                    if t not in IMMUTABLE and not eng.ix.classes_by_name.get(t):
                        mutable.append((t, ["unknown class"]))
                if not tnames:
                    raise AnalysisError(f"{m.fq}: cannot type the memo field `{f_}`")
                if mutable:
                    chk.bad(rule, eng.relfile(m), rets[0].lineno, m.fq, f"the memo `self.{f_}` holds a {mutable[0][0]} and is returned by reference, although {mutable[0][0]} changes itself in {mutable[0][1]}",
                            "a reader that converts the value (bytes(), str(), int()) normalises the memoised object in place: the same tree evaluated again - from another cache state or by a "
                            "fresh evaluator - yields a different verdict", keyparts=f"mutable-memo|{cls.name}.{f_}")
                else:
                    chk.ok(rule, m.fq, rets[0].lineno, f"memo `self.{f_}` holds {tnames}: immutable, safe to hand out by reference")
    if n_memo < 1:
        raise AnalysisError("no node-level memo (hash / size) found on DerivationTree")


UNCOPYABLE_ATTRS = {"global_variables", "_global_variables"}


def _ann_all_class_names(ann) -> list[str]:
    """Class names anywhere in an annotation (value, element, dict value, Optional ...); strings are parsed."""
    if ann is None:
        return []
    if isinstance(ann, ast.Constant) and isinstance(ann.value, str):
        try:
            return _ann_all_class_names(ast.parse(ann.value, mode="eval").body)
        except SyntaxError:
            return []
    out = []
    for n in ast.walk(ann):
        if isinstance(n, ast.Name):
            out.append(n.id)
        elif isinstance(n, ast.Attribute):
            out.append(n.attr)
        elif isinstance(n, ast.Constant) and isinstance(n.value, str) and n is not ann:
            out += _ann_all_class_names(n)
    return out


def copy_closure_rule(chk: Check, eng: Engine, fitb) -> None:
    """R11-d.  copy.deepcopy descends into every attribute of every object it meets unless a class defines __deepcopy__.
    A class-level field graph (annotations, `self.x = <annotated parameter>`, `self.x = Class(...)`) over-approximates that descent:
      * a class with a hand-written __deepcopy__ that does not loop over `self.__dict__` decides itself what it copies (trusted, counted);
      * one that loops over `self.__dict__` descends into all attributes except those it seeds into the memo (`memo[id(self.x)] = self.x`);
      * a class without __deepcopy__ descends into all attributes.
    Reaching a class that owns the spec's globals (attribute `global_variables`) is a violation: those dictionaries hold module
    objects, deepcopy raises TypeError, and the cached evaluation fails where the fresh one succeeded."""
    ix = eng.ix

    def classes_named(name: str):
        return ix.classes_by_name.get(name, [])

    n_roots = 0
    for c in [fitb] + fitb.all_subclasses():
        m = c.methods.get("__copy__")
        if m is None:
            continue
        for call in walk_local(m.node):
            if not (isinstance(call, ast.Call) and call_name(call) == "deepcopy" and call.args):
                continue
            arg = call.args[0]
            attr = self_attr(arg)
            if attr is None:
                chk.bad("R11-d", eng.relfile(m), call.lineno, m.fq, f"`{short(call)}` deep-copies something that is not an attribute of the fitness object", "the copied type is unknown", keyparts="deepcopy-arg")
                continue
            ann = c.instance_attr_annotations().get(attr)
            roots = [k for n in _ann_all_class_names(ann) for k in classes_named(n)]
            if not roots:
                raise AnalysisError(f"{m.fq}: cannot type `self.{attr}`")
            n_roots += 1
            # breadth-first over the field graph
            seen: dict[str, Optional[tuple[str, str]]] = {}
            queue = []
            for r in roots:
                for k in [r] + r.all_subclasses():
                    if k.fq not in seen:
                        seen[k.fq] = None
                        queue.append(k)
            trusted, generic = [], []
            bad = None
            while queue and bad is None:
                k = queue.pop(0)
                dc = k.lookup("__deepcopy__")
                shared: set[str] = set()
                if dc is not None:
                    src = ast.unparse(dc.node)
                    if "__dict__" not in src:
                        trusted.append(k.name)
                        continue
                    generic.append(k.name)
                    for n in ast.walk(dc.node):
                        if isinstance(n, ast.Assign) and len(n.targets) == 1 and isinstance(n.targets[0], ast.Subscript) and norm(n.targets[0].value) == "memo":
                            a = self_attr(n.value)
                            if a is not None and f"id(self.{a})" in norm(n.targets[0].slice):
                                shared.add(a)
                anns = k.instance_attr_annotations()
                stored = {n.attr for kk in k.mro() for mm in kk.methods.values() for n in ast.walk(mm.node)
                          if isinstance(n, ast.Attribute) and isinstance(n.ctx, ast.Store) and isinstance(n.value, ast.Name) and n.value.id == "self"}
                own = UNCOPYABLE_ATTRS & (set(anns) | stored)
                if own:
                    bad = (k, sorted(own)[0])
                    break
                for a, an in anns.items():
                    if a in shared:
                        continue
                    for nm in _ann_all_class_names(an):
                        for t in classes_named(nm):
                            for kk in [t] + t.all_subclasses():
                                if kk.fq not in seen:
                                    seen[kk.fq] = (k.fq, a)
                                    queue.append(kk)
            if bad is not None:
                k, a = bad
                path = [f"{k.name}.{a}"]
                cur = k.fq
                while seen.get(cur) is not None:
                    pk, pa = seen[cur]  # type: ignore[misc]
                    path.append(f"{pk.split(':')[-1]}.{pa}")
                    cur = pk
                path.reverse()
                chk.bad("R11-d", eng.relfile(m), call.lineno, m.fq, f"`{short(call)}` can descend {' -> '.join(path)}",
                        "the spec's globals hold module objects: deepcopy raises TypeError on a memo hit, so the cached evaluation of a tree fails (and loses its "
                        "failing trees and suggestion) where a fresh evaluation succeeds; copying grammar objects would also detach the suggestion from the grammar",
                        path=path, keyparts=f"deepcopy-reaches|{k.name}.{a}")
            else:
                chk.ok("R11-d", m.fq, call.lineno, f"`{short(call)}`: closure of {len(seen)} classes stays clear of the spec's globals "
                       f"(own __deepcopy__: {sorted(set(trusted))}; generic with shared fields: {sorted(set(generic))})")
    if n_roots == 0:
        chk.ok("R11-d", fitb.fq, 0, "no Fitness.__copy__ deep-copies anything", nontrivial=False)
    # every memo hit goes through such a __copy__ (R11-c); count the hand-written __deepcopy__ methods the closure trusts
    for cname in ("DerivationTree", "TreeValue"):
        for k in classes_named(cname):
            dc = k.lookup("__deepcopy__")
            if dc is not None:
                reaches = [n.attr for n in ast.walk(dc.node) if isinstance(n, ast.Attribute) and n.attr in UNCOPYABLE_ATTRS]
                if reaches:
                    chk.bad("R11-d", eng.relfile(dc), dc.line, dc.fq, f"{cname}.__deepcopy__ touches {reaches[0]}", "a tree copy would copy spec globals", keyparts=f"trusted-deepcopy|{cname}")
                else:
                    chk.ok("R11-d", dc.fq, dc.line, f"{cname}.__deepcopy__ is hand-written and copies no spec globals")


# ------------------------------------------------------------------ self-test variants
from ..mutants import M  # noqa: E402

_B = "src/fandango/constraints/base.py"
_FA = "src/fandango/constraints/forall.py"
_EX = "src/fandango/constraints/exists.py"
_IMP = "src/fandango/constraints/implication.py"
_EXP = "src/fandango/constraints/expression.py"
_CON = "src/fandango/constraints/conjunction.py"
_EV = "src/fandango/evolution/evaluation.py"
_FT = "src/fandango/constraints/fitness.py"
MUTANTS = [
    M("exists-binds-into-callers-scope", "src/fandango/constraints/exists.py", "        scope = dict(scope or {})\n        local_variables = dict(local_variables or {})\n", "        scope = scope or dict()\n        local_variables = local_variables or dict()\n", "R11-g"),
    M("gethash-drops-locals", _B, "                tuple((scope or {}).items()),\n                tuple((local_variables or {}).items()),\n", "                tuple((scope or {}).items()),\n", "R11-a"),
    M("gethash-keys-only", _B, "                tuple((scope or {}).items()),", "                tuple((scope or {}).keys()),", "R11-a"),
    M("gethash-no-root", _B, "                tree.get_root(),\n                tree,\n", "                tree,\n", "R11-a"),
    M("expression-key-without-scope", _EXP, "        tree_hash = self.get_hash(tree, scope, local_variables)", "        tree_hash = self.get_hash(tree)", "R11-a"),
    M("evaluator-key-without-root", _EV, "        key = hash((individual.get_root(), individual))\n        if key in self._fitness_cache:\n            return self._fitness_cache[key]\n\n        total", "        key = hash(individual)\n        if key in self._fitness_cache:\n            return self._fitness_cache[key]\n\n        total", "R11-a"),
    M("forall-key-after-binding", _FA, "        tree_hash = self.get_hash(tree, scope, local_variables)\n        # If the fitness has already been calculated, return the cached value\n        if tree_hash in self.cache:\n            return copy(self.cache[tree_hash])\n        fitness_values = list()\n",
      "        fitness_values = list()\n", "R11-b",
      more=(("        local_variables = dict(local_variables or {})\n", "        local_variables = dict(local_variables or {})\n        scope[NonTerminal(\"<_probe>\")] = tree\n        tree_hash = self.get_hash(tree, scope, local_variables)\n        # If the fitness has already been calculated, return the cached value\n        if tree_hash in self.cache:\n            return copy(self.cache[tree_hash])\n"),)),
    M("exists-store-recomputed-key", _EX, "        # Cache the fitness\n        self.cache[tree_hash] = fitness\n        return fitness", "        # Cache the fitness\n        self.cache[self.get_hash(tree, scope, local_variables)] = fitness\n        return fitness", "R11-b"),
    M("conjunction-hit-no-copy", _CON, "        if tree_hash in self.cache:\n            return copy(self.cache[tree_hash])", "        if tree_hash in self.cache:\n            return self.cache[tree_hash]", "R11-c"),
    M("implication-mutates-uncopied", _IMP, "            fitness = copy(self.consequent.fitness(tree, scope, local_variables))", "            fitness = self.consequent.fitness(tree, scope, local_variables)", "R11-c"),
    M("copy-returns-self", _FT, "    def __copy__(self) -> Fitness:\n        return ConstraintFitness(\n            solved=self.solved,\n            total=self.total,\n            success=self.success,\n            failing_trees=self.failing_trees[:],\n            suggestion=copy.deepcopy(self.suggestion),\n        )", "    def __copy__(self) -> Fitness:\n        return self", "R11-c"),
]
MUTANTS += [
    M("raising-constraint-skipped-from-then-on", _EV, "        for constraint in constraints:\n            try:\n                result = constraint.fitness(individual)\n", "        for constraint in constraints:\n            if id(constraint) in self._erroneous:\n                continue\n            try:\n                result = constraint.fitness(individual)\n", "R11-k"),
    M("inverted-comparison-is-a-shallow-copy", "src/fandango/constraints/comparison.py", "    def invert(self) -> \"ComparisonConstraint\":\n", "    def invert(self) -> \"ComparisonConstraint\":\n        if self.lazy:\n            inverted = copy(self)\n            inverted._operator = self._operator.invert()\n            return inverted\n", "R11-l"),
    M("node-value-memoised-by-reference", "src/fandango/language/tree.py", "        aggregate = TreeValue.empty()\n        for child in self._children:\n            aggregate = aggregate.append(child.value())\n        return aggregate\n",
      "        if self._value_cache is None:\n            aggregate = TreeValue.empty()\n            for child in self._children:\n                aggregate = aggregate.append(child.value())\n            self._value_cache = aggregate\n        return self._value_cache\n", "R11-f",
      more=(("        self.hash_cache: Optional[int] = None\n", "        self.hash_cache: Optional[int] = None\n        self._value_cache: Optional[TreeValue] = None\n"),)),
    M("shared-trivial-result", _EV, "        if len(constraints) == 0:\n            return 1.0, [], NopSuggestion()\n", "        if len(constraints) == 0:\n            return self._trivially_satisfied\n", "R11-e"),
    M("suggestion-copy-descends-into-grammar", "src/fandango/constraints/repetition_bounds.py", "        memo[id(self._repetition_node)] = self._repetition_node\n", "", "R11-d"),
    M("fitness-copy-copies-failing-tree-causes", _FT, "            failing_trees=self.failing_trees[:],\n            suggestion=copy.deepcopy(self.suggestion),\n", "            failing_trees=copy.deepcopy(self.failing_trees),\n            suggestion=copy.deepcopy(self.suggestion),\n", "R11-d"),
]
TWINS = [
    M("twin-trivial-result-by-constructor", _EV, "        if len(constraints) == 0:\n            return 1.0, [], NopSuggestion()\n", "        if len(constraints) == 0:\n            return 1.0, list(), NopSuggestion()\n", None),
    M("twin-key-name", _IMP, "tree_hash", "memo_key", None, count=4),
]
