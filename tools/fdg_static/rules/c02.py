"""C02 - emitted solutions satisfy every hard constraint (error / emission discipline).

R02-a  emission guard: every `yield` in (Io)Evaluator.evaluate_individual lies behind the
       acceptance-threshold comparison; the compared value depends on the results of both the
       hard-constraint and the repetition-bound evaluation; the constructor sorts every
       constraint into one of the three lists or raises; `_evaluate_constraints` iterates its
       whole list.
R02-b  evaluator level: an evaluation that raises cannot increase the accumulator that is later
       divided by the number of constraints.
R02-c  constraint level: every exception handler inside the combination loop of a hard
       constraint's fitness() drives the verdict accumulators towards failure.
R02-d  emission provenance: in COMPLETE mode every value yielded by the generation pipeline
       originates from an evaluator yield (fixpoint over the generator functions reachable from
       Fandango.generate).
R02-e  best-effort padding is added only under the `best_effort` setting.
"""

from __future__ import annotations

import ast
from typing import Optional

from ..cfg import CFG
from ..core import AnalysisError, ClassInfo, FuncInfo, call_name, get_kwarg, names_in, norm, self_attr, short, walk_local
from ..engine import Engine
from ..report import Check
from . import common_fitness as cf

EVAL_MOD = "fandango.evolution.evaluation"
THRESHOLD_ATTRS = {"_expected_fitness", "expected_fitness"}


def inline_predicate(cls: Optional[ClassInfo], c: ast.AST) -> ast.AST:
    """`self._is_solution(x)` -> the returned expression of that one-line predicate with the
    parameters substituted (so that an extracted helper does not hide the comparison)."""
    if cls is None or not (isinstance(c, ast.Call) and isinstance(c.func, ast.Attribute) and isinstance(c.func.value, ast.Name) and c.func.value.id == "self"):
        return c
    m = cls.lookup(c.func.attr)
    if m is None:
        return c
    body = [st for st in m.node.body if not (isinstance(st, ast.Expr) and isinstance(st.value, ast.Constant))]  # type: ignore[attr-defined]
    if len(body) != 1 or not isinstance(body[0], ast.Return) or body[0].value is None:
        return c
    params = [p for p in m.params() if p != "self"]
    bind = {p: a for p, a in zip(params, c.args)}
    for k in c.keywords:
        if k.arg:
            bind[k.arg] = k.value

    class Sub(ast.NodeTransformer):
        def visit_Name(self, n: ast.Name) -> ast.AST:
            return bind.get(n.id, n)

    import copy

    return ast.fix_missing_locations(Sub().visit(copy.deepcopy(body[0].value)))


def threshold_conjuncts(test: ast.AST, cls: Optional[ClassInfo] = None) -> list[tuple[ast.Compare, str, ast.AST]]:
    """(compare, normalised operator with the fitness on the left, fitness expr) for every
    top-level conjunct of `test` that compares something with the acceptance threshold."""
    out = []
    conj = test.values if isinstance(test, ast.BoolOp) and isinstance(test.op, ast.And) else [test]
    conj = [inline_predicate(cls, c) for c in conj]
    conj = [x for c in conj for x in (c.values if isinstance(c, ast.BoolOp) and isinstance(c.op, ast.And) else [c])]
    for c in conj:
        if isinstance(c, ast.Compare) and len(c.ops) == 1:
            l, r = c.left, c.comparators[0]
            op = type(c.ops[0]).__name__
            if isinstance(r, ast.Attribute) and r.attr in THRESHOLD_ATTRS:
                out.append((c, op, l))
            elif isinstance(l, ast.Attribute) and l.attr in THRESHOLD_ATTRS:
                out.append((c, {"Lt": "Gt", "Gt": "Lt", "LtE": "GtE", "GtE": "LtE"}.get(op, op), r))
    return out


def dataflow_closure(fn: FuncInfo, start: set[str]) -> tuple[set[str], set[str]]:
    """Flow-insensitive backward slice: names and called method names feeding `start`."""
    names = set(start)
    calls: set[str] = set()
    changed = True
    while changed:
        changed = False
        for n in walk_local(fn.node):
            targets: list[ast.AST] = []
            value: Optional[ast.AST] = None
            if isinstance(n, ast.Assign):
                targets, value = n.targets, n.value
            elif isinstance(n, ast.AugAssign):
                targets, value = [n.target], n.value
            elif isinstance(n, ast.AnnAssign) and n.value is not None:
                targets, value = [n.target], n.value
            if value is None:
                continue
            tn: set[str] = set()
            for t in targets:
                tn |= names_in(t)
            if tn & names:
                new = names_in(value) - names
                if new:
                    names |= new
                    changed = True
                for c in ast.walk(value):
                    if isinstance(c, ast.Call):
                        calls.add(call_name(c))
    return names, calls


def classification_status(eng: Engine) -> tuple[str, str, int]:
    """How Evaluator.__init__ sorts its `constraints` parameter into the evaluated lists:
    ('partition', description, line) - a loop whose body is a closed if/elif chain (each branch appends the element to
                                       exactly one list, the final else raises);
    ('lossy', reason, line)           - a recognisably lossy construction (groupby over unsorted input collected into a dict);
    ('unknown', '', line)             - anything else."""
    ev_cls = eng.cls(EVAL_MOD, "Evaluator")
    init = eng.method(ev_cls, "__init__")
    for n in walk_local(init.node):
        if isinstance(n, ast.Call) and call_name(n) == "groupby" and n.args:
            src = n.args[0]
            sorted_input = isinstance(src, ast.Call) and call_name(src) == "sorted"
            if not sorted_input:
                return ("lossy", f"`{short(n, 70)}` groups only *adjacent* elements; collected into a dict, a later run of a class overwrites the earlier one, "
                                 "so constraints of a class that are not declared next to each other are dropped", n.lineno)
    for lp in [x for x in init.node.body if isinstance(x, ast.For)]:  # type: ignore[attr-defined]
        if isinstance(lp.iter, ast.Name) and lp.iter.id in init.params() and len(lp.body) == 1 and isinstance(lp.body[0], ast.If):
            cur: Optional[ast.stmt] = lp.body[0]
            ok = True
            while isinstance(cur, ast.If):
                apps = [c for c in ast.walk(ast.Module(body=cur.body, type_ignores=[])) if isinstance(c, ast.Call) and isinstance(c.func, ast.Attribute) and c.func.attr == "append"]
                ok = ok and len(apps) == 1
                if len(cur.orelse) == 1 and isinstance(cur.orelse[0], ast.If):
                    cur = cur.orelse[0]
                else:
                    ok = ok and bool(cur.orelse) and isinstance(cur.orelse[-1], ast.Raise)
                    cur = None
            if ok:
                return ("partition", "closed if/elif chain, one append per branch, else raises", lp.lineno)
    return ("unknown", "", init.line)


def rule_a(chk: Check, eng: Engine) -> None:
    ev_cls = eng.cls(EVAL_MOD, "Evaluator")
    fns = [eng.method(ev_cls, "evaluate_individual")]
    for sub in ev_cls.all_subclasses():
        if "evaluate_individual" in sub.methods:
            fns.append(sub.methods["evaluate_individual"])
    for fn in fns:
        cfg = eng.cfg(fn)
        file = eng.relfile(fn)
        # accept edges of threshold tests
        accept_edges: set[tuple[int, str]] = set()
        fit_names: set[str] = set()
        for n in cfg.nodes:
            if n.kind == "if":
                for cmpn, op, fit in threshold_conjuncts(n.ast.test, fn.cls):  # type: ignore[union-attr]
                    fit_names |= names_in(fit)
                    if op == "GtE":
                        accept_edges.add((n.id, "true"))
                    elif op == "Lt" and not isinstance(n.ast.test, ast.BoolOp):  # type: ignore[union-attr]
                        accept_edges.add((n.id, "false"))
        yields = [n for n in cfg.nodes if n.kind == "stmt" and isinstance(n.ast, ast.Expr) and isinstance(n.ast.value, (ast.Yield, ast.YieldFrom))]
        if not yields:
            raise AnalysisError(f"{fn.fq}: no yield statement found")
        params = [p for p in fn.params() if p != "self"]
        for y in yields:
            val = y.ast.value  # type: ignore[union-attr]
            if isinstance(val, ast.YieldFrom):
                continue  # delegation to the parent implementation: covered there
            p = cfg.find_path(cfg.entry, [y.id], ignore=("exc-out", "raise-out", "abandon"), ignore_edges=accept_edges)
            if p is not None:
                chk.bad("R02-a", file, y.line, fn.fq, f"`{short(y.ast)}` reachable without passing the acceptance test",
                        "a tree whose fitness is below the threshold (an unsatisfied hard constraint) is handed out as a solution",
                        path=cfg.describe_path(p), keyparts="unguarded-yield")
            else:
                chk.ok("R02-a", fn.fq, y.line, f"`{short(y.ast)}` only reachable through the accepting edge of a threshold comparison")
            if not (isinstance(val.value, ast.Name) and val.value.id in params):
                chk.bad("R02-a", file, y.line, fn.fq, f"`{short(y.ast)}` yields something other than the evaluated individual",
                        "the emitted tree is not the one whose constraints were evaluated", keyparts="yield-other-value")
        # data dependence of the compared fitness
        if fn.cls is ev_cls:
            names, calls = dataflow_closure(fn, fit_names)
            for need in ("evaluate_hard_constraints", "evaluate_repetition_bounds_constraints"):
                if need in calls:
                    chk.ok("R02-a", fn.fq, fn.line, f"threshold operand depends on the result of {need}()")
                else:
                    chk.bad("R02-a", file, fn.line, fn.fq, f"threshold operand does not depend on {need}()",
                            "a class of hard constraints takes no part in the acceptance decision", keyparts=f"no-dep|{need}")
            # the repetition-bound evaluation is skipped only when there are no such constraints
            for n in cfg.nodes:
                if n.ast is not None and n.kind == "stmt" and any(isinstance(c, ast.Call) and call_name(c) == "evaluate_repetition_bounds_constraints" for c in ast.walk(n.ast)):
                    ige: set[tuple[int, str]] = set()
                    for g in cfg.nodes:
                        if g.kind == "if" and "_repetition_bounds_constraints" in norm(g.ast.test) and not (names_in(g.ast.test) - {"self", "len"}):  # type: ignore[union-attr]
                            ige.add((g.id, "false"))
                    for y in yields:
                        p = cfg.find_path(cfg.entry, [y.id], avoid=[n.id], ignore=("exc-out", "raise-out", "abandon"), ignore_edges=ige)
                        if p is not None:
                            chk.bad("R02-a", file, y.line, fn.fq, "a yield is reachable without evaluating the repetition bounds although such constraints exist",
                                    "computed repetition bounds are not enforced on an emitted tree", path=cfg.describe_path(p), keyparts="rep-skipped")
                        else:
                            chk.ok("R02-a", fn.fq, y.line, "every path to the yield evaluates the repetition bounds unless that list is empty")
            # the hard evaluation is unconditional
            for n in cfg.nodes:
                if n.ast is not None and n.kind == "stmt" and any(isinstance(c, ast.Call) and call_name(c) == "evaluate_hard_constraints" for c in ast.walk(n.ast)):
                    for y in yields:
                        p = cfg.find_path(cfg.entry, [y.id], avoid=[n.id], ignore=("exc-out", "raise-out", "abandon"))
                        if p is not None:
                            chk.bad("R02-a", file, y.line, fn.fq, "a yield is reachable without evaluating the hard constraints",
                                    "where-constraints are not enforced on an emitted tree", path=cfg.describe_path(p), keyparts="hard-skipped")
                        else:
                            chk.ok("R02-a", fn.fq, y.line, "every path to the yield evaluates the hard constraints")
        else:
            # wrapper: the compared value must be the parent's return value
            names, calls = dataflow_closure(fn, fit_names)
            if "evaluate_individual" in calls:
                chk.ok("R02-a", fn.fq, fn.line, "threshold operand is the parent evaluator's result")
            else:
                chk.bad("R02-a", file, fn.line, fn.fq, "threshold operand does not come from Evaluator.evaluate_individual",
                        "the wrapper decides acceptance on something other than the constraint evaluation", keyparts="wrapper-no-dep")

    # constructor classification ------------------------------------------------
    init = eng.method(ev_cls, "__init__")
    loops = [n for n in init.node.body if isinstance(n, ast.For)]  # type: ignore[attr-defined]
    done = False
    for lp in loops:
        if not (isinstance(lp.iter, ast.Name) and lp.iter.id in init.params()):
            continue
        st = lp.body[0] if len(lp.body) == 1 else None
        # the classification as a list of arms (description, body, line) and a default body: an if/elif chain or a `match` on the loop variable
        arms: list[tuple[str, list[ast.stmt], int]] = []
        default: list[ast.stmt] = []
        if isinstance(st, ast.If):
            cur: Optional[ast.stmt] = st
            while isinstance(cur, ast.If):
                arms.append((short(cur.test), cur.body, cur.lineno))
                if len(cur.orelse) == 1 and isinstance(cur.orelse[0], ast.If):
                    cur = cur.orelse[0]
                else:
                    default = cur.orelse
                    cur = None
        elif isinstance(st, ast.Match) and isinstance(lp.target, ast.Name) and isinstance(st.subject, ast.Name) and st.subject.id == lp.target.id:
            for case in st.cases:
                irrefutable = case.guard is None and isinstance(case.pattern, ast.MatchAs) and case.pattern.pattern is None
                if irrefutable:
                    default = case.body
                    break  # later cases are unreachable
                arms.append(("case " + short(case.pattern) + (" if " + short(case.guard) if case.guard is not None else ""), case.body, case.pattern.lineno))
        else:
            chk.bad("R02-a", eng.relfile(init), lp.lineno, init.fq, "classification loop is not a closed if/elif chain",
                    "a constraint may be dropped silently", keyparts="classification-shape")
            done = True
            continue
        lists: list[str] = []
        for desc, body, ln_ in arms:
            appended = [self_attr(c.func.value) for c in ast.walk(ast.Module(body=body, type_ignores=[]))
                        if isinstance(c, ast.Call) and isinstance(c.func, ast.Attribute) and c.func.attr == "append" and c.args
                        and isinstance(c.args[0], ast.Name) and isinstance(lp.target, ast.Name) and c.args[0].id == lp.target.id]
            if not appended or appended[0] is None:
                chk.bad("R02-a", eng.relfile(init), ln_, init.fq, f"branch `{desc}` stores the constraint nowhere",
                        "that kind of constraint is never evaluated", keyparts="branch-drops|" + desc)
            else:
                lists.append(appended[0])
        closed = bool(default) and all(isinstance(x, ast.Raise) for x in default[-1:])
        if closed and len(set(lists)) >= 3:
            chk.ok("R02-a", init.fq, lp.lineno, f"every constraint goes to one of {sorted(set(lists))} or raises")
        elif not closed:
            chk.bad("R02-a", eng.relfile(init), lp.lineno, init.fq, "classification chain does not end in `raise`",
                    "an unknown constraint kind is ignored instead of rejected", keyparts="classification-open")
        done = True
    if not done:
        st, why, ln = classification_status(eng)
        if st == "lossy":
            chk.bad("R02-a", eng.relfile(init), ln, init.fq, f"the constructor's classification of the constraints is lossy: {why}",
                    "a dropped constraint is never evaluated: trees violating it are emitted as solutions", keyparts="classification-lossy")
        else:
            raise AnalysisError("Evaluator.__init__: classification loop over the constraints parameter not found")

    # _evaluate_constraints iterates its whole parameter --------------------------
    ec = eng.method(ev_cls, "_evaluate_constraints")
    lps = [n for n in walk_local(ec.node) if isinstance(n, ast.For)]
    okloop = False
    for lp in lps:
        if isinstance(lp.iter, ast.Name) and lp.iter.id in ec.params():
            okloop = True
            # no break / continue / return in the loop before the evaluation call
            early = [x for x in ast.walk(lp) if isinstance(x, (ast.Break, ast.Return))]
            if early:
                chk.bad("R02-a", eng.relfile(ec), early[0].lineno, ec.fq, f"`{short(early[0])}` leaves the constraint loop early",
                        "constraints after the first are not evaluated", keyparts="early-exit")
            else:
                chk.ok("R02-a", ec.fq, lp.lineno, f"loop iterates the whole `{lp.iter.id}` parameter without early exit")
    for g_ in [x for x in walk_local(ec.node) if isinstance(x, ast.comprehension)]:
        if isinstance(g_.iter, ast.Name) and g_.iter.id in ec.params():
            okloop = True
            chk.ok("R02-a", ec.fq, getattr(g_.iter, "lineno", ec.line), f"comprehension iterates the whole `{g_.iter.id}` parameter")
    if not okloop:
        chk.bad("R02-a", eng.relfile(ec), ec.line, ec.fq, "no loop over the unsliced constraints parameter",
                "only part of the constraints is evaluated", keyparts="no-full-loop")
    # the two wrappers pass the full lists
    for name, attr in (("evaluate_hard_constraints", "_hard_constraints"), ("evaluate_repetition_bounds_constraints", "_repetition_bounds_constraints")):
        m = eng.method(ev_cls, name)
        calls = [c for c in ast.walk(m.node) if isinstance(c, ast.Call) and call_name(c) == "_evaluate_constraints"]
        if len(calls) == 1 and len(calls[0].args) >= 2 and self_attr(calls[0].args[1]) == attr:
            chk.ok("R02-a", m.fq, m.line, f"passes self.{attr} unsliced")
        else:
            chk.bad("R02-a", eng.relfile(m), m.line, m.fq, f"does not pass self.{attr} unchanged to _evaluate_constraints",
                    "part of the constraints is not evaluated", keyparts="wrapper-arg")


def rule_b(chk: Check, eng: Engine) -> None:
    ev_cls = eng.cls(EVAL_MOD, "Evaluator")
    for name in ("_evaluate_constraints", "evaluate_soft_constraints"):
        fn = eng.method(ev_cls, name)
        cfg = eng.cfg(fn)
        # accumulator: the name divided by len(...) after the loop
        acc = None
        divisors: list[tuple[ast.AST, int]] = []
        for n in walk_local(fn.node):
            if isinstance(n, ast.AugAssign) and isinstance(n.op, ast.Div) and isinstance(n.target, ast.Name) and "len(" in norm(n.value):
                acc = n.target.id
                divisors.append((n.value, n.lineno))
        if acc is None:
            for n in walk_local(fn.node):
                if isinstance(n, ast.BinOp) and isinstance(n.op, ast.Div) and "len(" in norm(n.right):
                    divisors.append((n.right, n.lineno))
                    if isinstance(n.left, ast.Name):
                        acc = n.left.id
        if not divisors:
            raise AnalysisError(f"{fn.fq}: no normalisation by a number of constraints (x / len(...)) found")
        # the divisor must be the number of *all* constraints of the class, not of the evaluations that went through
        iter_names = {p for p in fn.params() if "constraint" in p} | {"_soft_constraints", "_hard_constraints", "_repetition_bounds_constraints"}
        for d, ln in divisors:
            ok_div = isinstance(d, ast.Call) and call_name(d) == "len" and d.args and (
                (isinstance(d.args[0], ast.Name) and d.args[0].id in iter_names) or (self_attr(d.args[0]) in iter_names))
            if ok_div:
                chk.ok("R02-b", fn.fq, ln, f"normalised by `{short(d)}`: every constraint of the class counts, also one whose evaluation raised")
            else:
                chk.bad("R02-b", eng.relfile(fn), ln, fn.fq, f"the mean fitness is taken over `{short(d)}` instead of the number of constraints of the class",
                        "a constraint whose evaluation raises (or is otherwise left out) no longer lowers the fitness: the tree can reach the threshold although "
                        "that constraint was never satisfied", keyparts="divisor-not-all-constraints")
        hs = cf.handlers_in_loops(cfg, fn)
        if not hs:
            chk.ok("R02-b", fn.fq, fn.line, "no handler inside the constraint loop: an exception propagates (rejecting the evaluation)")
            continue
        for h, loop, tr in hs:
            hn = cfg.nodes_of(h, {"handler"})[0]
            heads = cfg.nodes_of(loop, {"for", "while"})
            afters = [i for i in cfg.by_ast.get(id(loop), []) if cfg.nodes[i].kind == "join" and cfg.nodes[i].note == "after-loop"]
            tg = set(heads) | set(afters)
            incs = set()
            if acc is None:
                continue
            for n in cfg.nodes:
                if n.kind == "stmt" and n.ast is not None:
                    a = n.ast
                    if isinstance(a, ast.AugAssign) and isinstance(a.target, ast.Name) and a.target.id == acc:
                        if isinstance(a.value, ast.Constant) and a.value.value in (0, 0.0):
                            continue
                        incs.add(n.id)
                    elif isinstance(a, ast.Assign) and any(isinstance(t, ast.Name) and t.id == acc for t in a.targets):
                        incs.add(n.id)
            reach = cfg.reach([hn], avoid=tg)
            bad = reach & incs
            if bad:
                p = cfg.find_path(hn, bad, avoid=tg)
                chk.bad("R02-b", eng.relfile(fn), h.lineno, fn.fq, f"handler `{cfg.nodes[hn].text()}` reaches an update of `{acc}`",
                        "a constraint whose evaluation raised contributes fitness as if it were (partly) satisfied",
                        path=cfg.describe_path(p) if p else [], keyparts=f"handler-increases|{acc}")
            else:
                chk.ok("R02-b", fn.fq, h.lineno, f"handler `{cfg.nodes[hn].text()}`: no path to the next iteration increases `{acc}`")


def rule_c(chk: Check, eng: Engine) -> None:
    base = eng.cls("fandango.constraints.constraint", "Constraint")
    fam = base.all_subclasses()
    n_fit = 0
    for c in sorted(fam, key=lambda c: c.fq):
        fn = c.methods.get("fitness")
        if fn is None:
            continue
        n_fit += 1
        eng.consult(fn.module)
        cfg = eng.cfg(fn)
        tries = [t for t in walk_local(fn.node) if isinstance(t, ast.Try)]
        v = cf.final_verdict(eng, fn)
        if not tries:
            chk.ok("R02-c", fn.fq, fn.line, "no try/except: an exception raised by spec code propagates to the evaluator (R02-b) or to the caller", nontrivial=False)
            continue
        hs = cf.handlers_in_loops(cfg, fn)
        outside = [t for t in tries if not any(t is tr for _, _, tr in hs)]
        for t in outside:
            for h in t.handlers:
                hn = cfg.nodes_of(h, {"handler"})[0]
                if cfg.find_path(hn, [cfg.exit]) is not None:
                    raise AnalysisError(f"{fn.fq}:{h.lineno}: handler outside a combination loop completes normally - unknown idiom")
        if v is None or v.kind not in ("COUNT", "ALL1"):
            raise AnalysisError(f"{fn.fq}: has try/except around evaluation but its verdict ({short(v.success_expr) if v and v.success_expr else 'none'}) fits no accumulator shape")
        for h, loop, tr in hs:
            r = cf.check_handler_records_failure(eng, fn, v, h, loop)
            what = f"except {short(h.type) if h.type is not None else ''} in try at line {tr.lineno}"
            body_calls = sorted({call_name(x) for x in ast.walk(ast.Module(body=tr.body, type_ignores=[])) if isinstance(x, ast.Call)})
            if r is None:
                chk.ok("R02-c", fn.fq, h.lineno, f"{what} (guards {body_calls}): every normal path records a failure [{v.kind}]")
            else:
                desc, path = r
                # key: which evaluated expression the try protects (stable against line moves)
                prot = sorted({short(x.args[0], 40) for x in ast.walk(ast.Module(body=tr.body, type_ignores=[])) if isinstance(x, ast.Call) and call_name(x) == "eval" and x.args})
                chk.bad("R02-c", eng.relfile(fn), h.lineno, fn.fq, f"{what}: {desc}",
                        "a combination whose evaluation raises is dropped; with no other combination the constraint counts as satisfied "
                        "(all([]) / solved == total), so a tree violating or crashing the constraint is accepted",
                        path=path, keyparts="handler-drops|" + "|".join(prot))
    if n_fit < 6:
        raise AnalysisError(f"only {n_fit} fitness implementations found in the Constraint family")


# ------------------------------------------------------------------ R02-d


def rule_d(chk: Check, eng: Engine) -> None:
    cg = eng.cg
    algo = eng.cls("fandango.evolution.algorithm", "Fandango")
    ev_cls = eng.cls(EVAL_MOD, "Evaluator")
    base_clean = {m.fq for c in ev_cls.family() for n, m in c.methods.items() if n == "evaluate_individual"}
    gen = eng.method(algo, "generate")
    # generator functions reachable from generate(), COMPLETE mode: drop the IO driver
    io = algo.methods.get("_generate_io")
    reach = cg.reachable([gen.fq])
    gens = {}
    for fq in reach:
        f = cg.funcs.get(fq)
        if f is None or not f.is_generator():
            continue
        if io is not None and fq == io.fq:
            continue
        if not f.module.startswith("fandango.evolution"):
            continue  # generators of the parser / grammar / api.parse are not emission points of solutions
        if any("contextmanager" in d for d in f.decorators()):
            continue
        gens[fq] = f
    if len(gens) < 6:
        raise AnalysisError(f"only {len(gens)} generator functions reachable from Fandango.generate")

    clean = set(gens) | base_clean
    out_of_scope = {io.fq} if io is not None else set()  # protocol-mode emissions are C20's R20-d
    api_gen = eng.func("fandango.api", "Fandango.generate_solutions")
    gens[api_gen.fq] = api_gen
    clean.add(api_gen.fq)

    def callable_param_clean(f: FuncInfo, pname: str, depth: int = 0) -> bool:
        """Every call site of f passes a clean generator for parameter pname."""
        ok_any = False
        for caller_fq, sites in cg.sites.items():
            for call, tgs, how in sites:
                if f.fq not in tgs:
                    continue
                arg = get_kwarg(call, pname)
                if arg is None:
                    ps = [p for p in f.params() if p != "self"]
                    if pname in ps and ps.index(pname) < len(call.args):
                        arg = call.args[ps.index(pname)]
                if arg is None:
                    continue
                ok_any = True
                if isinstance(arg, ast.Name) and depth < 3:
                    # the caller hands on its own callable parameter: decided at the caller's call sites
                    caller = cg.funcs.get(caller_fq)
                    if caller is not None and arg.id in caller.params() and callable_param_clean(caller, arg.id, depth + 1):
                        continue
                if not (isinstance(arg, ast.Attribute) and arg.attr == "evaluate_individual"):
                    return False
        return ok_any

    def clean_iterable(f: FuncInfo, e: ast.AST, depth: int = 0) -> bool:
        if isinstance(e, ast.Call):
            if isinstance(e.func, ast.Name) and e.func.id in f.params():
                return callable_param_clean(f, e.func.id)
            if isinstance(e.func, ast.Name) and e.func.id == "GeneratorWithReturn" and e.args:
                return clean_iterable(f, e.args[0], depth)
            tgs, how = cg.resolve_call(f, e)
            gtg = [t for t in tgs if t in cg.funcs and cg.funcs[t].is_generator()]
            if not gtg:
                return False
            return all(t in clean or t in out_of_scope for t in gtg)
        if isinstance(e, ast.Name) and depth < 3:
            # first component of GeneratorWithReturn(<clean>).collect()
            ok = False
            for n in walk_local(f.node):
                if isinstance(n, ast.Assign) and len(n.targets) == 1:
                    t = n.targets[0]
                    if isinstance(t, ast.Tuple) and t.elts and isinstance(t.elts[0], ast.Name) and t.elts[0].id == e.id:
                        v = n.value
                        if isinstance(v, ast.Call) and call_name(v) == "collect" and isinstance(v.func, ast.Attribute):
                            if clean_iterable(f, v.func.value, depth + 1):
                                ok = True
                                continue
                        return False
                    idx = [i for i, x in enumerate(t.elts) if isinstance(x, ast.Name) and x.id == e.id] if isinstance(t, ast.Tuple) else []
                    if idx:
                        # i-th component of the tuple a plain helper returns: clean when every return of the helper puts a clean iterable there
                        v = n.value
                        if isinstance(v, ast.Call) and helper_component_clean(f, v, idx[0], depth + 1):
                            ok = True
                            continue
                        return False
                    if isinstance(t, ast.Name) and t.id == e.id:
                        return False
            return ok
        return False

    def helper_component_clean(f: FuncInfo, call: ast.Call, i: int, depth: int) -> bool:
        tgs, _how = cg.resolve_call(f, call)
        hs = [cg.funcs[t] for t in tgs if t in cg.funcs]
        if not hs or any(h.is_generator() for h in hs):
            return False
        for h in hs:
            rets = [r for r in walk_local(h.node) if isinstance(r, ast.Return)]
            if not rets:
                return False
            for r in rets:
                if not (isinstance(r.value, ast.Tuple) and i < len(r.value.elts) and clean_iterable(h, r.value.elts[i], depth)):
                    return False
        return True

    def clean_value(f: FuncInfo, e: ast.AST, depth: int = 0) -> bool:
        if f.fq in base_clean:
            return isinstance(e, ast.Name) and e.id in f.params()
        # self._initial_solutions.pop(0)
        if isinstance(e, ast.Call) and isinstance(e.func, ast.Attribute) and e.func.attr == "pop":
            a = self_attr(e.func.value)
            if a is not None and f.cls is not None:
                return attr_holds_clean(f.cls, a)
        if isinstance(e, ast.Name):
            # loop variable over a clean iterable
            for n in walk_local(f.node):
                if isinstance(n, ast.For) and isinstance(n.target, ast.Name) and n.target.id == e.id:
                    return clean_iterable(f, n.iter)
            # a local bound (only) to clean values: `tree = self._initial_solutions.pop(0)`
            ds = [n.value for n in walk_local(f.node) if isinstance(n, ast.Assign) and len(n.targets) == 1 and isinstance(n.targets[0], ast.Name) and n.targets[0].id == e.id]
            if ds and depth < 2 and e.id not in f.params() and all(not isinstance(d, ast.Name) and clean_value(f, d, depth + 1) for d in ds):
                return True
        return False

    def attr_holds_clean(c: ClassInfo, attr: str) -> bool:
        found = False
        for m in c.methods.values():
            for n in walk_local(m.node):
                if isinstance(n, ast.Assign) and len(n.targets) == 1:
                    t = n.targets[0]
                    elts = t.elts if isinstance(t, ast.Tuple) else [t]
                    for i, x in enumerate(elts):
                        if self_attr(x) == attr:
                            v = n.value
                            if i == 0 and isinstance(t, ast.Tuple) and isinstance(v, ast.Call) and call_name(v) == "collect" \
                                    and isinstance(v.func, ast.Attribute) and clean_iterable(m, v.func.value):
                                found = True
                            else:
                                return False
                elif isinstance(n, ast.Call) and isinstance(n.func, ast.Attribute) and self_attr(n.func.value) == attr \
                        and n.func.attr in ("append", "extend", "insert", "add"):
                    return False
        return found

    def yield_sites(f: FuncInfo):
        for n in walk_local(f.node):
            if isinstance(n, ast.Yield):
                yield n, False
            elif isinstance(n, ast.YieldFrom):
                yield n, True

    changed = True
    dirty_sites: dict[str, list] = {}
    while changed:
        changed = False
        for fq, f in gens.items():
            if fq not in clean:
                continue
            bad_sites = []
            for y, is_from in yield_sites(f):
                if y.value is None:
                    bad_sites.append(y)
                    continue
                ok = clean_iterable(f, y.value) if is_from else clean_value(f, y.value)
                if not ok:
                    bad_sites.append(y)
            if bad_sites and fq not in base_clean:
                clean.discard(fq)
                dirty_sites[fq] = bad_sites
                changed = True
    # report: only primary causes (a site that is dirty although all generators it delegates to are clean
    # or that yields a plain value)
    for fq, f in sorted(gens.items()):
        if fq in base_clean:
            continue
        sites = list(yield_sites(f))
        if fq in clean:
            for y, is_from in sites:
                chk.ok("R02-d", fq, y.lineno, f"`{short(y)}` forwards evaluator yields only")
        else:
            for y in dirty_sites.get(fq, []):
                primary = True
                if isinstance(y, ast.YieldFrom) and isinstance(y.value, ast.Call):
                    tgs, _ = cg.resolve_call(f, y.value)
                    if any(t in gens and t not in clean for t in tgs):
                        primary = False  # consequence of another dirty generator
                if primary:
                    chk.bad("R02-d", eng.relfile(f), y.lineno, fq, f"`{short(y)}` emits a value that does not come from an evaluator yield",
                            "a tree that never passed the acceptance test is handed out as a solution", keyparts="dirty-yield|" + short(y.value, 60) if y.value is not None else "bare")


def rule_e(chk: Check, eng: Engine) -> None:
    api = eng.cls("fandango.api", "Fandango")
    fuzz = eng.method(api, "fuzz")
    # every value added to the returned list besides generator items must come from the padding helper
    ret_names = {n.value.id for n in walk_local(fuzz.node) if isinstance(n, ast.Return) and isinstance(n.value, ast.Name)}
    if len(ret_names) != 1:
        raise AnalysisError("api.Fandango.fuzz: expected a single returned list variable")
    sol = next(iter(ret_names))
    helper = None
    for n in walk_local(fuzz.node):
        if isinstance(n, ast.Call) and isinstance(n.func, ast.Attribute) and isinstance(n.func.value, ast.Name) and n.func.value.id == sol \
                and n.func.attr in ("append", "extend", "insert"):
            arg = n.args[0] if n.args else None
            if n.func.attr == "append":
                # must be the loop variable of the solution generator loop
                loops = [l for l in walk_local(fuzz.node) if isinstance(l, ast.For) and isinstance(l.target, ast.Name) and isinstance(arg, ast.Name) and l.target.id == arg.id]
                if loops:
                    names, calls = dataflow_closure(fuzz, names_in(loops[0].iter))
                    if "generate_solutions" in calls or any(isinstance(c, ast.Call) and call_name(c) == "generate_solutions" for c in ast.walk(loops[0].iter)):
                        chk.ok("R02-e", fuzz.fq, n.lineno, f"`{short(n)}` appends items of generate_solutions()")
                        continue
                chk.bad("R02-e", eng.relfile(fuzz), n.lineno, fuzz.fq, f"`{short(n)}` adds a tree that does not come from generate_solutions()",
                        "an unevaluated tree is returned as a solution", keyparts="append|" + short(n))
            else:
                names, calls = dataflow_closure(fuzz, names_in(arg) if arg is not None else set())
                pads = [c for c in calls if c.startswith("_print_warnings")]
                if pads:
                    helper = pads[0]
                    chk.ok("R02-e", fuzz.fq, n.lineno, f"`{short(n)}` adds the result of {helper}()")
                else:
                    chk.bad("R02-e", eng.relfile(fuzz), n.lineno, fuzz.fq, f"`{short(n)}` extends the solutions with something else than the padding helper",
                            "an unevaluated tree is returned as a solution", keyparts="extend|" + short(n))
    if helper is None:
        chk.ok("R02-e", fuzz.fq, fuzz.line, "no padding at all", nontrivial=False)
        return
    h = eng.method(api, helper)
    cfg = eng.cfg(h)
    for n in cfg.nodes:
        if n.kind == "stmt" and isinstance(n.ast, ast.Return) and n.ast.value is not None:
            v = n.ast.value
            if isinstance(v, ast.List) and not v.elts:
                chk.ok("R02-e", h.fq, n.line, "returns no padding")
                continue
            # non-empty: must be control dependent on best_effort being true
            ige = set()
            for g in cfg.nodes:
                if g.kind == "if" and isinstance(g.ast.test, ast.Name) and g.ast.test.id == "best_effort":  # type: ignore[union-attr]
                    ige.add((g.id, "true"))
            p = cfg.find_path(cfg.entry, [n.id], ignore_edges=ige)
            defs = [x for x in walk_local(h.node) if isinstance(x, ast.Assign) and any(isinstance(t, ast.Name) and t.id == "best_effort" for t in x.targets)]
            from_setting = all("best_effort" in norm(d.value) and "False" in norm(d.value) for d in defs) and defs
            if p is None and from_setting:
                chk.ok("R02-e", h.fq, n.line, f"`{short(n.ast)}` only under the best_effort setting (default False)")
            else:
                chk.bad("R02-e", eng.relfile(h), n.line, h.fq, f"`{short(n.ast)}` is reachable without best_effort",
                        "population members that violate constraints are returned as solutions by default",
                        path=cfg.describe_path(p) if p else [], keyparts="padding-unguarded")


# ------------------------------------------------------------------ R02-f


class Lin:
    """a*X + b*Y + c*Z + k over exact rationals (X, Y, Z = mean fitness of the hard / repetition /
    soft class, each known to lie in [0, 1])."""

    def __init__(self, coef=None, k=0):
        from fractions import Fraction

        self.coef = {a: Fraction(b) for a, b in (coef or {}).items() if b != 0}
        self.k = Fraction(k)

    def __add__(self, o):
        o = o if isinstance(o, Lin) else Lin(k=o)
        c = dict(self.coef)
        for a, b in o.coef.items():
            c[a] = c.get(a, 0) + b
        return Lin(c, self.k + o.k)

    __radd__ = __add__

    def __mul__(self, o):
        if isinstance(o, Lin):
            if not o.coef:
                o = o.k
            elif not self.coef:
                return o * self.k
            else:
                raise ValueError("non-linear")
        return Lin({a: b * o for a, b in self.coef.items()}, self.k * o)

    __rmul__ = __mul__

    def __truediv__(self, o):
        if isinstance(o, Lin):
            if o.coef:
                raise ValueError("division by a symbolic value")
            o = o.k
        return Lin({a: b / o for a, b in self.coef.items()}, self.k / o)

    def __repr__(self):
        return " + ".join([f"{b}*{a}" for a, b in sorted(self.coef.items())] + ([str(self.k)] if self.k or not self.coef else []))


def lin_eval(fn: FuncInfo, h: int, r: int, s: int):
    """Evaluate Evaluator.evaluate_individual on the path selected by the concrete counts (h, r, s), with
    the class means symbolic.  Returns the Lin value compared with the threshold at the first guard."""
    env: dict = {}
    lens = {"_hard_constraints": h, "_repetition_bounds_constraints": r, "_soft_constraints": s}
    found: list = []

    class Found(Exception):
        pass

    def ev(e):
        if isinstance(e, ast.Constant) and isinstance(e.value, (int, float)) and not isinstance(e.value, bool):
            from fractions import Fraction

            return Lin(k=Fraction(e.value).limit_denominator(10**9))
        if isinstance(e, ast.Name):
            return env.get(e.id)
        if isinstance(e, ast.Call) and isinstance(e.func, ast.Name) and e.func.id == "len" and self_attr(e.args[0]) in lens:
            return Lin(k=lens[self_attr(e.args[0])])
        if isinstance(e, ast.Call) and isinstance(e.func, ast.Name) and e.func.id in ("max", "min", "float", "int", "abs") and e.args:
            vals = [ev(a) for a in e.args]
            if all(isinstance(v, Lin) and not v.coef for v in vals):
                ks = [v.k for v in vals]
                return Lin(k={"max": max, "min": min, "abs": lambda *x: abs(x[0]), "float": lambda *x: x[0], "int": lambda *x: int(x[0])}[e.func.id](*ks))
            return None
        if isinstance(e, ast.BinOp):
            a, b = ev(e.left), ev(e.right)
            if a is None or b is None:
                return None
            if isinstance(e.op, ast.Add):
                return a + b
            if isinstance(e.op, ast.Mult):
                return a * b
            if isinstance(e.op, ast.Div):
                return a / b
            return None
        return None

    def truth(t):
        if isinstance(t, ast.Call):
            t2 = inline_predicate(fn.cls, t)
            if t2 is not t:
                return truth(t2)
        if isinstance(t, ast.BoolOp):
            vs = [truth(v) for v in t.values]
            if isinstance(t.op, ast.And):
                return False if any(v is False for v in vs) else (True if all(v is True for v in vs) else None)
            return True if any(v is True for v in vs) else (False if all(v is False for v in vs) else None)
        if isinstance(t, ast.Compare) and len(t.ops) == 1:
            if isinstance(t.comparators[0], ast.Attribute) and t.comparators[0].attr in THRESHOLD_ATTRS:
                found.append(ev(t.left))
                raise Found()
            a, b = ev(t.left), ev(t.comparators[0])
            if isinstance(a, Lin) and isinstance(b, Lin) and not a.coef and not b.coef:
                op = t.ops[0]
                return {ast.Gt: a.k > b.k, ast.GtE: a.k >= b.k, ast.Lt: a.k < b.k, ast.LtE: a.k <= b.k, ast.Eq: a.k == b.k, ast.NotEq: a.k != b.k}.get(type(op))
            if isinstance(t.ops[0], (ast.In, ast.NotIn)):
                return isinstance(t.ops[0], ast.NotIn)
            return None
        if isinstance(t, ast.Name):
            v = env.get(t.id)
            return v if isinstance(v, bool) else None
        return None

    def block(stmts):
        for st in stmts:
            if isinstance(st, ast.Assign) and isinstance(st.value, ast.Call) and isinstance(st.value.func, ast.Attribute) and self_attr(st.value.func) is not None:
                name = st.value.func.attr
                sym = {"evaluate_hard_constraints": ("X", h), "evaluate_repetition_bounds_constraints": ("Y", r), "evaluate_soft_constraints": ("Z", s)}.get(name)
                tgt = st.targets[0]
                first = tgt.elts[0] if isinstance(tgt, ast.Tuple) else tgt
                if sym and isinstance(first, ast.Name):
                    env[first.id] = Lin({sym[0]: 1}) if sym[1] > 0 else Lin(k=1)
                continue
            if isinstance(st, ast.Assign) and len(st.targets) == 1 and isinstance(st.targets[0], ast.Name):
                if isinstance(st.value, (ast.Compare, ast.BoolOp)):
                    # fully_solved_so_far = fitness == 1.0 ... : unknown in general; soft constraints are evaluated only when true
                    env[st.targets[0].id] = True if s > 0 else None
                else:
                    v = ev(st.value)
                    env[st.targets[0].id] = v
                continue
            if isinstance(st, ast.AugAssign) and isinstance(st.target, ast.Name):
                cur, v = env.get(st.target.id), ev(st.value)
                if isinstance(cur, Lin) and isinstance(v, Lin):
                    env[st.target.id] = cur + v if isinstance(st.op, ast.Add) else cur * v if isinstance(st.op, ast.Mult) else cur / v if isinstance(st.op, ast.Div) else None
                continue
            if isinstance(st, ast.If):
                d = truth(st.test)
                if d is True:
                    block(st.body)
                elif d is False:
                    block(st.orelse)
                else:
                    # undecided branch: only acceptable if it assigns no tracked value
                    for n in ast.walk(st):
                        if isinstance(n, (ast.Assign, ast.AugAssign)):
                            for t in (n.targets if isinstance(n, ast.Assign) else [n.target]):
                                if isinstance(t, ast.Name) and isinstance(env.get(t.id), Lin):
                                    raise ValueError(f"undecided branch `{short(st.test)}` assigns {t.id}")
                continue

    try:
        block(fn.node.body)  # type: ignore[attr-defined]
    except Found:
        return found[0]
    return None


def rule_f(chk: Check, eng: Engine) -> None:
    from fractions import Fraction

    ev_cls = eng.cls(EVAL_MOD, "Evaluator")
    fn = eng.method(ev_cls, "evaluate_individual", inherited=False)
    bad = None
    n = 0
    for h in range(0, 5):
        for r in range(0, 5):
            for s in (0, 2):
                if h + r + s == 0:
                    continue
                try:
                    v = lin_eval(fn, h, r, s)
                except ValueError as e:
                    chk.bad("R02-f", eng.relfile(fn), fn.line, fn.fq, f"for (h, r, s) = ({h}, {r}, {s}) the share of a constraint class depends on a run-time condition: {e}",
                            "whether a class of hard constraints takes part in the acceptance decision depends on something other than its being non-empty",
                            keyparts="conditional-share")
                    return
                if v is None:
                    chk.bad("R02-f", eng.relfile(fn), fn.line, fn.fq, f"for (h, r, s) = ({h}, {r}, {s}) no linear combination of the class means reaches a comparison with the acceptance threshold",
                            "the acceptance decision is not a function of the constraint evaluation", keyparts="no-linear-guard")
                    return
                n += 1
                want_pos = {"X": h > 0, "Y": r > 0, "Z": s > 0}
                total = sum(v.coef.values(), Fraction(0)) + v.k
                problems = []
                if total != 1:
                    problems.append(f"weights sum to {total}")
                if v.k != 0:
                    problems.append(f"constant share {v.k}")
                for sym, need in want_pos.items():
                    c = v.coef.get(sym, Fraction(0))
                    if need and c <= 0:
                        problems.append(f"class {sym} has weight {c}")
                    if c < 0:
                        problems.append(f"class {sym} has negative weight")
                if problems and bad is None:
                    bad = ((h, r, s), v, problems)
    if bad is None:
        chk.ok("R02-f", fn.fq, fn.line, f"for all {n} count combinations (h, r in 0..4, s in {{0, 2}}) the threshold operand is a convex combination of the class means "
                                          "with a positive weight for every non-empty class (exact rational arithmetic)")
        chk.ok("R02-f", fn.fq, fn.line, "e.g. (h, r, s) = (2, 3, 0): " + repr(lin_eval(fn, 2, 3, 0)))
    else:
        (h, r, s), v, problems = bad
        chk.bad("R02-f", eng.relfile(fn), fn.line, fn.fq, f"for (h, r, s) = ({h}, {r}, {s}) the value compared with the threshold is {v}: {'; '.join(problems)}",
                "the combined fitness can reach the threshold although one class of hard constraints is not fully satisfied (or cannot reach it although all are): "
                "a tree violating a constraint is emitted as a solution", keyparts="not-convex|" + "|".join(sorted(p.split(' ')[0] for p in problems)))


def failing_score_rule(chk: Check, eng: Engine, rule: str = "R02-g") -> None:
    """R02-g: the verdict of a scored constraint is `all(score == 1.0)`, and the evaluator compares the mean of the scores
    with the threshold - so a combination that does not hold must never score 1.0 in float arithmetic."""
    cls = eng.cls("fandango.constraints.comparison", "ComparisonConstraint")
    sites, lst = cf.score_sites(eng, cls)
    if not sites:
        raise AnalysisError("ComparisonConstraint.fitness: no score is appended any more")
    loops = [n for n in ast.walk(sites[0].fn.node) if isinstance(n, (ast.For, ast.While))]
    for st in sites:
        fn = st.fn
        in_loop = any(l.lineno <= st.line <= (l.end_lineno or l.lineno) for l in loops)
        if st.via == "literal":
            if st.failing.may_equal(1.0) and in_loop:
                chk.bad(rule, eng.relfile(fn), st.line, fn.fq, f"`{lst}.append({short(st.expr)})` scores a combination 1.0 without evaluating it",
                        "an unevaluated combination counts as satisfied", keyparts="literal-one-in-loop")
            else:
                chk.ok(rule, fn.fq, st.line, f"`{lst}.append({short(st.expr)})`: score {st.failing}" + ("" if in_loop else " (outside the combination loop: vacuous truth, R07-d)"))
            continue
        if st.failing.may_equal(1.0):
            chk.bad(rule, eng.relfile(fn), st.line, fn.fq,
                    f"when the comparison does not hold, the score from {st.via} ranges over {st.failing}, which includes 1.0",
                    "the verdict is `all(score == 1.0)` and the evaluator compares the mean score with the threshold: a violated comparison "
                    "that scores 1.0 (e.g. a distance that rounds to 0) makes the tree a solution", keyparts="failing-score-may-be-one")
        else:
            chk.ok(rule, fn.fq, st.line, f"failing comparison scores {st.failing} via {st.via}: never 1.0")




def rule_g(chk: Check, eng: Engine) -> None:
    failing_score_rule(chk, eng, "R02-g")


def command_options_rule(chk: Check, eng: Engine, rule: str) -> None:
    """R02-k.  The commands of the cli take the spec either from `-f` or from what `set -f` opened before.  The constraint options (`-c`,
    `--maximize`, `--minimize`) are part of the spec the user asks for: a command that consumes them on the `-f` branch must consume them on the
    other branch as well (or refuse) - otherwise the constraint is silently dropped and the emitted solutions violate it.  Sibling branches are
    compared through the helpers they hand `args` to."""
    mod = eng.module("fandango.cli.commands")
    utils = eng.module("fandango.cli.utils")

    def reads(stmts: list, depth: int = 0, seen: Optional[set] = None) -> set[str]:
        seen = seen if seen is not None else set()
        out: set[str] = set()
        for st in stmts:
            for x in ast.walk(st):
                if isinstance(x, ast.Attribute) and isinstance(x.value, ast.Name) and x.value.id == "args" and isinstance(x.ctx, ast.Load):
                    out.add(x.attr)
                if isinstance(x, ast.Call) and isinstance(x.func, ast.Name) and depth < 3 and any(isinstance(a, ast.Name) and a.id == "args" for a in x.args):
                    h = mod.functions.get(x.func.id) or utils.functions.get(x.func.id)
                    if h is not None and h.fq not in seen:
                        seen.add(h.fq)
                        out |= reads(h.node.body, depth + 1, seen)  # type: ignore[attr-defined]
        return out

    n = 0
    for f in mod.functions.values():
        if not f.name.endswith("_command"):
            continue
        for i_ in walk_local(f.node):
            if not (isinstance(i_, ast.If) and norm(i_.test) == "args.fan_files" and i_.orelse):
                continue
            then_r, else_r = reads(i_.body), reads(i_.orelse)
            opts = {o for o in then_r if "constraint" in o}
            if not opts:
                continue
            n += 1
            refuses = any(isinstance(x, ast.Raise) for st in i_.orelse for x in ast.walk(st))
            missing = sorted(opts - else_r)
            if missing and not refuses:
                chk.bad(rule, eng.relfile(f), i_.lineno, f.fq, f"{f.name}: without `-f` the options {missing} are neither used nor refused (the `-f` branch parses them)",
                        "a constraint given on the command line is dropped without a word: `fuzz -c 'int(<n>) > 90'` after `set -f` prints values below 90", keyparts=f"options-dropped|{f.name}")
            else:
                chk.ok(rule, f.fq, i_.lineno, f"{f.name}: {sorted(opts)} are consumed with and without `-f`")
    if n < 3:
        raise AnalysisError(f"only {n} commands with a `-f` / default-content choice found")


def run(chk: Check, eng: Engine) -> None:
    chk.rule("R02-k", "a cli command consumes the constraint options (-c, --maximize, --minimize) whether the spec comes from -f or from `set -f`", floor=3)
    command_options_rule(chk, eng, "R02-k")
    chk.rule("R02-i", "a node installed by replace_multiple inherits the repetition tags (and the parent link) of the node it replaces: the bounds constraints count tags", floor=2)
    from .c01 import position_bookkeeping_rule
    position_bookkeeping_rule(chk, eng, "R02-i")
    chk.rule("R02-j", "selector evaluation never turns an error into 'no match' (no handler without re-raise in the search classes): an unevaluable selector must fail the constraint, "
             "not empty its combinations", floor=20)
    cf.search_errors_surface_rule(chk, eng, "R02-j")
    chk.rule("R02-h", "scope and local variables received by a constraint / search method are passed on to every family method that takes them", floor=20)
    cf.context_forwarding_rule(chk, eng, "R02-h")
    chk.rule("R02-g", "a comparison that does not hold never scores 1.0 (interval interpretation of the scoring helper in float arithmetic)", floor=3)
    rule_g(chk, eng)
    chk.rule("R02-f", "in real arithmetic the value compared with the acceptance threshold is a convex combination of the per-class mean fitness values, "
             "with positive weight for every non-empty constraint class - so it reaches 1 only if every class mean is 1", floor=2)
    rule_f(chk, eng)
    chk.rule("R02-a", "every evaluator yield lies behind the acceptance test on a value that depends on both constraint classes; "
             "no constraint is dropped by the constructor or the evaluation loop", floor=8)
    chk.rule("R02-b", "an evaluation that raises cannot increase the normalised accumulator (evaluator level)", floor=2)
    chk.rule("R02-c", "every handler around spec-code evaluation in a hard constraint's fitness() records a failure on all normal paths", floor=6)
    chk.rule("R02-d", "every value yielded by the COMPLETE-mode pipeline originates from an evaluator yield", floor=8)
    chk.rule("R02-e", "best-effort padding only under the best_effort setting", floor=2)
    chk.rule("R02-l", "the namespace a constraint is evaluated in is one mapping in which the variables bound for this evaluation override the spec's globals "
             "(otherwise the search judges another expression than the one written)", floor=4)
    from .c08 import single_namespace_rule
    single_namespace_rule(chk, eng, "R02-l")
    chk.not_decided += ["that fitness 1.0 coincides with truthiness of arbitrary user expressions", "cache independence (C11)",
                        "protocol-mode emissions (C20)"]
    rule_a(chk, eng)
    rule_b(chk, eng)
    rule_c(chk, eng)
    rule_d(chk, eng)
    rule_e(chk, eng)


# ------------------------------------------------------------------ self-test variants
from ..mutants import M  # noqa: E402

_EV = "src/fandango/evolution/evaluation.py"
_CMP = "src/fandango/constraints/comparison.py"
_EXP = "src/fandango/constraints/expression.py"
_ALG = "src/fandango/evolution/algorithm.py"
_POP = "src/fandango/evolution/population.py"
_API = "src/fandango/api.py"
MUTANTS = [
    M("match-classification-ignores-unknown-kinds", "src/fandango/evolution/evaluation.py", '            if isinstance(constraint, SoftValue):\n                self._soft_constraints.append(constraint)\n            elif isinstance(constraint, RepetitionBoundsConstraint):\n                self._repetition_bounds_constraints.append(constraint)\n            elif isinstance(constraint, Constraint):\n                self._hard_constraints.append(constraint)\n            else:\n                raise ValueError(f"Invalid constraint type: {type(constraint)}")\n', '            match constraint:\n                case SoftValue():\n                    self._soft_constraints.append(constraint)\n                case RepetitionBoundsConstraint():\n                    self._repetition_bounds_constraints.append(constraint)\n                case Constraint():\n                    self._hard_constraints.append(constraint)\n                case _:\n                    pass\n', "R02-a"),
    M("globals-override-bound-variables", "src/fandango/constraints/constraint.py", "        return eval(expression, {**global_variables, **local_variables})\n", "        return eval(expression, dict(local_variables) | global_variables)\n", "R02-l"),
    M("command-line-constraints-only-with-f", "src/fandango/cli/commands.py", "        grammar, constraints = _default_content_with_constraints(args)\n", "        grammar, constraints = DEFAULT_FAN_CONTENT\n", "R02-k", count=3),
    M("item-selector-skips-missing-index", "src/fandango/language/search.py", "        return list(\n            map(\n                Tree,\n                [\n                    t.__getitem__(self.slices)\n                    for base in bases\n                    for t in base.get_trees()\n                ],\n            )\n        )\n",
      "        items = []\n        for base in bases:\n            for t in base.get_trees():\n                try:\n                    items.append(t.__getitem__(self.slices))\n                except IndexError:\n                    continue\n        return list(map(Tree, items))\n", "R02-j"),
    M("replacement-keeps-its-own-repetition-tags", "src/fandango/language/tree.py", "            new_subtree.origin_repetitions = list(self.origin_repetitions)\n", "", "R02-i"),
    M("forall-domain-without-scope", "src/fandango/constraints/forall.py", "        for container in self.search.quantify(tree, scope=scope):\n", "        for container in self.search.quantify(tree):\n", "R02-h"),
    M("implication-consequent-without-locals", "src/fandango/constraints/implication.py", "            fitness = copy(self.consequent.fitness(tree, scope, local_variables))", "            fitness = copy(self.consequent.fitness(tree, scope))", "R02-h"),
    M("base-quantify-drops-scope", "src/fandango/language/search.py", "        return self.find(tree, scope, population)\n", "        return self.find(tree)\n", "R02-h"),
    M("mean-over-successful-evaluations", _EV, "                self._checks_made += 1\n            except Exception as e:", "                self._checks_made += 1\n                evaluated = getattr(self, \"_n_eval\", 0) + 1\n            except Exception as e:", "R02-b",
      more=(("        fitness /= len(constraints)\n        return (", "        fitness /= len(failing_trees) + 1\n        return ("),)),
    M("total-forgets-repetition-bounds", _EV, "            len(self._hard_constraints)\n            + len(self._repetition_bounds_constraints)\n            + len(self._soft_constraints)\n", "            len(self._hard_constraints)\n            + len(self._soft_constraints)\n", "R02-f"),
    M("hard-share-at-least-one", _EV, "            fitness = fitness * len(self._hard_constraints)\n", "            fitness = fitness * max(1, len(self._hard_constraints))\n", "R02-f"),
    M("rep-share-added-unweighted", _EV, "            fitness += rep_fitness * len(self._repetition_bounds_constraints)\n", "            fitness += rep_fitness\n", "R02-f"),
    M("yield-before-test", _EV, "        if fitness >= self._expected_fitness and key not in self._solution_set:\n            self._solution_set.add(key)\n            yield individual\n",
      "        if key not in self._solution_set:\n            self._solution_set.add(key)\n            yield individual\n", "R02-a"),
    M("rep-bounds-only-when-hard-solved", _EV, "        if len(self._repetition_bounds_constraints) > 0:\n            # all hard",
      "        if len(self._repetition_bounds_constraints) > 0 and not fully_solved_so_far:\n            # all hard", "R02-a"),
    M("classification-drops-unknown", _EV, "            else:\n                raise ValueError(f\"Invalid constraint type: {type(constraint)}\")\n",
      "            else:\n                LOGGER.warning(f\"Invalid constraint type: {type(constraint)}\")\n", "R02-a"),
    M("evaluate-first-constraints-only", _EV, "        return self._evaluate_constraints(individual, self._hard_constraints)",
      "        return self._evaluate_constraints(individual, self._hard_constraints[:8])", "R02-a"),
    M("evaluator-handler-counts-success", _EV, "                print_exception(e)\n\n        # normalize to 0 <= fitness <= 1",
      "                print_exception(e)\n                fitness += 1.0\n\n        # normalize to 0 <= fitness <= 1", "R02-b"),
    M("comparison-handler-skips", _CMP, "                print_exception(e, f\"Evaluation failed: {self._right}\")\n                # a combination whose evaluation raises is a failed combination\n                fitness_values.append(0.0)\n",
      "                print_exception(e, f\"Evaluation failed: {self._right}\")\n", "R02-c"),
    M("expression-total-inside-try", _EXP, "                print_exception(e, f\"Evaluation failed: {self.expression}\")\n\n            total += 1\n",
      "                print_exception(e, f\"Evaluation failed: {self.expression}\")\n                continue\n\n            total += 1\n", "R02-c"),
    M("refill-yields-candidate", _POP, "                yield from found_solution\n                yield from new_found_solution\n",
      "                yield from found_solution\n                yield from new_found_solution\n                yield candidate\n", "R02-d"),
    M("crossover-yields-child", _ALG, "                    yield from self.evaluator.evaluate_individual(child)\n                else:\n",
      "                    yield from self.evaluator.evaluate_individual(child)\n                    yield child\n                else:\n", "R02-d"),
    M("padding-without-best-effort", _API, "            if warnings_are_errors:\n                raise FandangoFailedError(\n                    \"Failed to find the required number of perfect solutions\"\n                )\n            elif best_effort:\n",
      "            if warnings_are_errors:\n                raise FandangoFailedError(\n                    \"Failed to find the required number of perfect solutions\"\n                )\n            else:\n", "R02-e"),
    M("distance-made-live", _CMP, "    if dist is float | int:\n", "    if isinstance(dist, (int, float)):\n", "R02-g"),
    M("no-distance-scores-one", _CMP, "        fitness = (1.0 - dist_norm) if dist_norm is not None else 0.0\n", "        fitness = (1.0 - dist_norm) if dist_norm is not None else 1.0\n", "R02-g"),
    M("unevaluated-combination-scores-one", _CMP, "            has_combinations = True\n", "            has_combinations = True\n            if not combination:\n                fitness_values.append(1.0)\n                continue\n", "R02-g"),
]
TWINS = [
    M("twin-classification-by-match-statement", "src/fandango/evolution/evaluation.py", '            if isinstance(constraint, SoftValue):\n                self._soft_constraints.append(constraint)\n            elif isinstance(constraint, RepetitionBoundsConstraint):\n                self._repetition_bounds_constraints.append(constraint)\n            elif isinstance(constraint, Constraint):\n                self._hard_constraints.append(constraint)\n            else:\n                raise ValueError(f"Invalid constraint type: {type(constraint)}")\n', '            match constraint:\n                case SoftValue():\n                    self._soft_constraints.append(constraint)\n                case RepetitionBoundsConstraint():\n                    self._repetition_bounds_constraints.append(constraint)\n                case Constraint():\n                    self._hard_constraints.append(constraint)\n                case _:\n                    raise ValueError(f"Invalid constraint type: {type(constraint)}")\n', None),
    M("twin-distance-live-but-clamped", _CMP, "    if dist is float | int:\n        dist = 2 * (_sigmoid(abs(dist)) - 0.5)\n        return dist\n",
      "    if isinstance(dist, (int, float)):\n        dist = 2 * (_sigmoid(abs(dist)) - 0.5)\n        return max(dist, 1e-9)\n", None),
    M("twin-extract-acceptance-predicate", _EV, "        if fitness >= self._expected_fitness and key not in self._solution_set:\n            self._solution_set.add(key)\n            yield individual\n",
      "        if self._reaches_threshold(fitness) and key not in self._solution_set:\n            self._solution_set.add(key)\n            yield individual\n", None,
      more=(("    def evaluate_population(self, population: list[DerivationTree]) -> Generator[\n        DerivationTree,\n        None,\n        list[tuple[DerivationTree, float, list[FailingTree], Suggestion]],\n    ]:\n        evaluation = []",
             "    def _reaches_threshold(self, value: float) -> bool:\n        return value >= self._expected_fitness\n\n    def evaluate_population(self, population: list[DerivationTree]) -> Generator[\n        DerivationTree,\n        None,\n        list[tuple[DerivationTree, float, list[FailingTree], Suggestion]],\n    ]:\n        evaluation = []"),)),
    M("twin-handler-extra-log", _EV, "                print_exception(e)\n\n        # normalize to 0 <= fitness <= 1", "                print_exception(e)\n                LOGGER.debug(\"continuing\")\n\n        # normalize to 0 <= fitness <= 1", None),
    M("twin-comparison-order", _CMP, "                fitness_values.append(0.0)\n                for _, container in combination:\n                    failing_trees.extend(\n                        FailingTree(node, self) for node in container.get_trees()\n                    )\n                continue\n\n            try:\n                right",
      "                for _, container in combination:\n                    failing_trees.extend(\n                        FailingTree(node, self) for node in container.get_trees()\n                    )\n                fitness_values.append(0.0)\n                continue\n\n            try:\n                right", None),
]
