"""C18 - Fandango instances in one process do not influence each other (shared-state inventory).

R18-a  Every binding that outlives an instance is enumerated from the source:
         (i)   module-level names re-bound from a function body (`global X`, `module.X = ...`),
               class attributes assigned through the class (`Class.x = ...`, `cls.x = ...`);
         (ii)  module-level / class-level mutable containers mutated in place from a function body,
               ContextVar objects at module/class level (`.set` = write, `.get` = read);
         (iii) mutable default arguments that are mutated in place or stored on an instance.
       For each binding the call graph decides whether a writer and a reader are both reachable
       from the public API (methods of api.Fandango, evolution.algorithm.Fandango, Grammar, and
       parse()).  Such a live channel must be in the frozen table with the reason why it cannot
       change solutions or parse results; anything else is a violation.
R18-b  Per-instance limits that adapt during a run (node budget, repetition cap as seen by the
       tuner) are instance attributes: the AdaptiveTuner writes only `self.*`.
"""

from __future__ import annotations

import ast
from typing import Optional

from ..core import AnalysisError, ClassInfo, FuncInfo, ModuleInfo, call_name, norm, self_attr, short, walk_local
from ..engine import Engine
from ..report import Check

MUT = {"append", "extend", "insert", "add", "update", "pop", "remove", "clear", "discard", "setdefault", "popitem", "sort", "reverse", "appendleft"}

# live channels that are accepted, with the reason confirmed by reading.  key = binding id
ACCEPTED = {
    "fandango.logger.LINE_IS_CLEAR": "progress-line bookkeeping of the terminal visualisation; read only by logging helpers",
    "fandango.logger.USE_VISUALIZATION": "UI switch for the progress visualisation; read only by logging helpers",
    "fandango.logger.COLUMNS": "terminal width cache for the progress visualisation",
    "fandango.language.parser.FandangoLexerBase.lexer": "lexer singleton that the generated lexer calls back into; re-bound by every FandangoLexerBase.__init__ "
                                                        "before the new lexer produces its first token, so a spec is always lexed by its own lexer",
    "fandango.language.parser.sa_fandango.USE_CPP_IMPLEMENTATION": "front-end selection flag, switched off for the process when the C++ parser cannot be loaded; both front "
                                                                  "ends read the same language (C14), so results do not depend on it",
    "fandango.io:FandangoIO._instances": "registry of IO singletons keyed by the per-spec environment key (uuid4 per FandangoSpec): entries of different specs never meet",
    "fandango.io:ProcessManager._instances": "registry keyed by the per-spec environment key, as FandangoIO._instances",
    "fandango.language.parse.spec:FandangoSpec.__init__(used_symbols)": "the shared default set only ever feeds `given_used_symbols`, which suppresses the warning "
                                                                        "'Symbol defined, but not used' in check_grammar_consistency; it reaches no decision that changes a grammar, constraint or result",
    "fandango.language.parse.parse_spec:parse_content(used_symbols)": "as FandangoSpec.__init__(used_symbols): warning suppression only",
    "fandango.language.parse.parse:check_grammar_consistency(given_used_symbols)": "read-only use of the default set (membership test for a warning)",
}


def is_mutable_ctor(v: ast.AST) -> bool:
    if isinstance(v, (ast.List, ast.Dict, ast.Set, ast.ListComp, ast.DictComp, ast.SetComp)):
        return True
    if isinstance(v, ast.Call) and call_name(v) in ("list", "dict", "set", "defaultdict", "deque", "OrderedDict", "Counter"):
        return True
    return False


def local_names(f: FuncInfo) -> set[str]:
    out = set(f.params())
    for n in walk_local(f.node):
        if isinstance(n, (ast.Assign, ast.AnnAssign, ast.AugAssign)):
            for t in (n.targets if isinstance(n, ast.Assign) else [n.target]):
                for x in ast.walk(t):
                    if isinstance(x, ast.Name) and isinstance(x.ctx, ast.Store):
                        out.add(x.id)
        elif isinstance(n, (ast.For, ast.comprehension)):
            for x in ast.walk(n.target):
                if isinstance(x, ast.Name):
                    out.add(x.id)
        elif isinstance(n, ast.With):
            for it in n.items:
                if it.optional_vars is not None:
                    for x in ast.walk(it.optional_vars):
                        if isinstance(x, ast.Name):
                            out.add(x.id)
        elif isinstance(n, ast.ExceptHandler) and n.name:
            out.add(n.name)
    return out


def run(chk: Check, eng: Engine) -> None:
    chk.rule("R18-a", "every binding that outlives an instance and has a writer and a reader reachable from the public API is in the frozen table of harmless channels", floor=12)
    chk.rule("R18-c", "module-level containers of the command layer are written only by the commands that declare them global; helpers they are lent to do not write into them", floor=3)
    lent_globals_rule(chk, eng, "R18-c")
    chk.rule("R18-b", "the adaptive tuner keeps the limits it adapts on the instance (writes only self.*)", floor=3)
    chk.not_decided += ["leakage through the on-disk spec cache (disabled in parse_content) or third-party modules", "the process-global `random` state (the property is stated under fixed seeds)"]

    ix = eng.ix
    cg = eng.cg
    # ---- inventory -----------------------------------------------------------
    bindings: dict[str, dict] = {}

    def B(bid: str, kind: str) -> dict:
        return bindings.setdefault(bid, {"kind": kind, "writers": {}, "readers": {}})

    containers: dict[tuple[str, str], str] = {}  # (module, name) -> bid ; (classfq, attr) -> bid
    ctxvars: set[str] = set()
    for m in ix.hand_written():
        for st in m.tree.body:  # type: ignore[union-attr]
            tg = v = None
            if isinstance(st, ast.Assign) and len(st.targets) == 1 and isinstance(st.targets[0], ast.Name):
                tg, v = st.targets[0].id, st.value
            elif isinstance(st, ast.AnnAssign) and isinstance(st.target, ast.Name) and st.value is not None:
                tg, v = st.target.id, st.value
            if tg and v is not None and is_mutable_ctor(v) and tg != "__all__":
                containers[(m.name, tg)] = f"{m.name}.{tg}"
        for c in m.classes.values():
            for k, v in c.class_attrs.items():
                if is_mutable_ctor(v):
                    containers[(c.fq, k)] = f"{c.fq}.{k}"
                if isinstance(v, ast.Call) and call_name(v) == "ContextVar":
                    containers[(c.fq, k)] = f"{c.fq}.{k}"
                    ctxvars.add(f"{c.fq}.{k}")

    # instance attributes that alias a module-/class-level container: self.x = SHARED
    alias: dict[tuple[str, str], str] = {}

    def resolve_binding(f: FuncInfo, e: ast.AST, locs: set[str]) -> Optional[str]:
        """binding id denoted by expression e (a Name or dotted attribute), if any."""
        mod = ix.modules[f.module]
        if isinstance(e, ast.Attribute) and isinstance(e.value, ast.Name) and e.value.id == "self" and f.cls is not None:
            for c in f.cls.mro():
                if (c.fq, e.attr) in alias:
                    return alias[(c.fq, e.attr)]
        if isinstance(e, ast.Name):
            if e.id in locs:
                return None
            if (f.module, e.id) in containers:
                return containers[(f.module, e.id)]
            if e.id in mod.imports:
                base, attr = mod.imports[e.id]
                if attr is not None and (base, attr) in containers:
                    return containers[(base, attr)]
            return None
        if isinstance(e, ast.Attribute):
            if isinstance(e.value, ast.Name) and e.value.id in locs and e.value.id not in ("cls", "self"):
                # instance of a module-level singleton object? (CURRENT_ENV_KEY.contextVar)
                return None
            if isinstance(e.value, ast.Name) and e.value.id == "cls" and f.cls is not None:
                for c in f.cls.mro():
                    if (c.fq, e.attr) in containers:
                        return containers[(c.fq, e.attr)]
                return None
            if isinstance(e.value, ast.Name) and e.value.id == "self" and f.cls is not None:
                for c in f.cls.mro():
                    if (c.fq, e.attr) in containers and not _assigned_on_instance(c, e.attr):
                        return containers[(c.fq, e.attr)]
                return None
            r = ix.resolve_dotted(mod, e.value)
            if isinstance(r, ModuleInfo) and (r.name, e.attr) in containers:
                return containers[(r.name, e.attr)]
            if isinstance(r, ClassInfo):
                for c in r.mro():
                    if (c.fq, e.attr) in containers:
                        return containers[(c.fq, e.attr)]
            # module-level instance of a class holding a class-level container: X.attr where X = Class()
            if isinstance(e.value, ast.Name) and e.value.id not in locs:
                inst_cls = _module_instance_class(ix, mod, e.value.id)
                if inst_cls is not None:
                    for c in inst_cls.mro():
                        if (c.fq, e.attr) in containers:
                            return containers[(c.fq, e.attr)]
        return None

    for f in ix.all_functions:
        if f.cls is None:
            continue
        locs0 = local_names(f)
        for n in walk_local(f.node):
            if isinstance(n, (ast.Assign, ast.AnnAssign)) and n.value is not None:
                for t in (n.targets if isinstance(n, ast.Assign) else [n.target]):
                    if isinstance(t, ast.Attribute) and isinstance(t.value, ast.Name) and t.value.id == "self" and isinstance(n.value, (ast.Name, ast.Attribute)):
                        b0 = resolve_binding(f, n.value, locs0)
                        if b0 is not None and b0 not in ctxvars:
                            alias[(f.cls.fq, t.attr)] = b0
                            B(b0, "container")["writers"].setdefault(f.fq, n.lineno)
    for f in ix.all_functions:
        locs = local_names(f)
        globs = {n for st in walk_local(f.node) if isinstance(st, ast.Global) for n in st.names}
        locs -= globs
        mod = ix.modules[f.module]
        for n in walk_local(f.node):
            # (i) re-binding
            if isinstance(n, (ast.Assign, ast.AugAssign, ast.AnnAssign)):
                for t in (n.targets if isinstance(n, ast.Assign) else [n.target]):
                    if isinstance(t, ast.Name) and t.id in globs:
                        B(f"{f.module}.{t.id}", "global")["writers"].setdefault(f.fq, n.lineno)
                    elif isinstance(t, ast.Attribute):
                        if isinstance(t.value, ast.Name) and t.value.id in locs and t.value.id != "cls":
                            continue
                        r = ix.resolve_dotted(mod, t.value) if not (isinstance(t.value, ast.Name) and t.value.id == "cls") else f.cls
                        if isinstance(r, ModuleInfo):
                            B(f"{r.name}.{t.attr}", "module attribute")["writers"].setdefault(f.fq, n.lineno)
                        elif isinstance(r, ClassInfo):
                            B(f"{r.fq}.{t.attr}", "class attribute")["writers"].setdefault(f.fq, n.lineno)
                    elif isinstance(t, ast.Subscript):
                        bid = resolve_binding(f, t.value, locs)
                        if bid:
                            B(bid, "container")["writers"].setdefault(f.fq, n.lineno)
            # (ii) in-place mutation / ContextVar.set
            if isinstance(n, ast.Call) and isinstance(n.func, ast.Attribute):
                bid = resolve_binding(f, n.func.value, locs)
                if bid:
                    if bid in ctxvars:
                        if n.func.attr == "set":
                            B(bid, "ContextVar")["writers"].setdefault(f.fq, n.lineno)
                        elif n.func.attr == "get":
                            B(bid, "ContextVar")["readers"].setdefault(f.fq, n.lineno)
                    elif n.func.attr in MUT:
                        B(bid, "container")["writers"].setdefault(f.fq, n.lineno)
            if isinstance(n, ast.Delete):
                for t in n.targets:
                    if isinstance(t, ast.Subscript):
                        bid = resolve_binding(f, t.value, locs)
                        if bid:
                            B(bid, "container")["writers"].setdefault(f.fq, n.lineno)
        # (iii) mutable defaults
        a = f.node.args  # type: ignore[attr-defined]
        allp = a.posonlyargs + a.args
        for p, d in list(zip(allp[len(allp) - len(a.defaults):], a.defaults)) + [(p, d) for p, d in zip(a.kwonlyargs, a.kw_defaults) if d is not None]:
            if not is_mutable_ctor(d):
                continue
            uses = []
            stored_attrs: set[str] = set()
            for n in walk_local(f.node):
                if isinstance(n, ast.Call) and isinstance(n.func, ast.Attribute) and n.func.attr in MUT and isinstance(n.func.value, ast.Name) and n.func.value.id == p.arg:
                    uses.append(("mutated", n.lineno))
                if isinstance(n, ast.Assign) and isinstance(n.value, ast.Name) and n.value.id == p.arg and any(isinstance(t, ast.Attribute) for t in n.targets):
                    uses.append(("stored", n.lineno))
                    stored_attrs.update(t.attr for t in n.targets if isinstance(t, ast.Attribute))
                if isinstance(n, (ast.Assign, ast.AugAssign)) and any(isinstance(t, ast.Subscript) and isinstance(t.value, ast.Name) and t.value.id == p.arg
                                                                      for t in (n.targets if isinstance(n, ast.Assign) else [n.target])):
                    uses.append(("mutated", n.lineno))
                if isinstance(n, ast.Call):
                    # handed on to another function: look one level down whether the callee stores / mutates it
                    for pos, arg in [(i, a_) for i, a_ in enumerate(n.args)] + [(k.arg, k.value) for k in n.keywords]:
                        if isinstance(arg, ast.Name) and arg.id == p.arg:
                            tgs, _how = cg.resolve_call(f, n)
                            for t in sorted(tgs)[:6]:
                                callee = cg.funcs.get(t)
                                if callee is None:
                                    continue
                                cps = [x for x in callee.params() if x not in ("self", "cls")]
                                pn = pos if isinstance(pos, str) else (cps[pos] if pos < len(cps) else None)
                                if pn is None:
                                    continue
                                for cn in walk_local(callee.node):
                                    if isinstance(cn, ast.Call) and isinstance(cn.func, ast.Attribute) and cn.func.attr in MUT and isinstance(cn.func.value, ast.Name) and cn.func.value.id == pn:
                                        uses.append(("mutated by callee " + callee.qualname, n.lineno))
                                    if isinstance(cn, ast.Assign) and isinstance(cn.value, ast.Name) and cn.value.id == pn and any(isinstance(t_, ast.Attribute) for t_ in cn.targets):
                                        uses.append(("stored by callee " + callee.qualname, n.lineno))
                                        stored_attrs.update(t_.attr for t_ in cn.targets if isinstance(t_, ast.Attribute))
            # rebinding guard `x = x or {}` makes the default harmless
            rebind = any(isinstance(n, ast.Assign) and any(isinstance(t, ast.Name) and t.id == p.arg for t in n.targets) for n in walk_local(f.node))
            if uses and not rebind:
                b = B(f"{f.fq}({p.arg})", "mutable default")
                b["writers"].setdefault(f.fq, f.line)
                b["readers"].setdefault(f.fq, f.line)
                b["uses"] = sorted({u for u, _ in uses})
                b["stored_attrs"] = sorted(stored_attrs)
    # (iii-b) defaults that are *objects* of a repository class (`mutation_method=SimpleMutation()`): one object serves every instance
    n_obj_defaults = 0
    for f in ix.all_functions:
        a = f.node.args  # type: ignore[attr-defined]
        allp = a.posonlyargs + a.args
        for p, d in list(zip(allp[len(allp) - len(a.defaults):], a.defaults)) + [(p, d) for p, d in zip(a.kwonlyargs, a.kw_defaults) if d is not None]:
            if not (isinstance(d, ast.Call) and isinstance(d.func, (ast.Name, ast.Attribute))):
                continue
            dcls = ix.resolve_class_expr(ix.modules[f.module], d.func)
            if dcls is None:
                continue
            n_obj_defaults += 1
            fam = [dcls] + dcls.all_subclasses()
            stored = {t.attr for n in walk_local(f.node) if isinstance(n, ast.Assign) and isinstance(n.value, ast.Name) and n.value.id == p.arg for t in n.targets if isinstance(t, ast.Attribute)}
            writers: dict[str, int] = {}
            fields: set[str] = set()
            # the object's own methods keep state
            for k in fam + dcls.mro():
                for m in k.methods.values():
                    if m.name in ("__init__", "__post_init__"):
                        continue
                    for n in walk_local(m.node):
                        tg = []
                        if isinstance(n, (ast.Assign, ast.AugAssign, ast.AnnAssign)):
                            tg = n.targets if isinstance(n, ast.Assign) else [n.target]
                        for t in tg:
                            b0 = t.value if isinstance(t, ast.Subscript) else t
                            if self_attr(b0):
                                writers.setdefault(m.fq, n.lineno)
                                fields.add(self_attr(b0))  # type: ignore[arg-type]
                        if isinstance(n, ast.Call) and isinstance(n.func, ast.Attribute) and n.func.attr in MUT and self_attr(n.func.value):
                            writers.setdefault(m.fq, n.lineno)
                            fields.add(self_attr(n.func.value))  # type: ignore[arg-type]
            # somebody else writes a field of the stored object: x.<stored>.<field> = ... / <param>.<field> = ...
            for g in ix.all_functions:
                for n in walk_local(g.node):
                    tg = []
                    if isinstance(n, (ast.Assign, ast.AugAssign, ast.AnnAssign)):
                        tg = n.targets if isinstance(n, ast.Assign) else [n.target]
                    for t in tg:
                        b0 = t.value if isinstance(t, ast.Subscript) else t
                        if isinstance(b0, ast.Attribute) and ((isinstance(b0.value, ast.Attribute) and b0.value.attr in stored) or
                                                              (g is f and isinstance(b0.value, ast.Name) and b0.value.id == p.arg)):
                            writers.setdefault(g.fq, n.lineno)
                            fields.add(b0.attr)
            bid = f"{f.fq}({p.arg}={short(d, 30)})"
            if writers:
                b = B(bid, "default object")
                for wq, ln in writers.items():
                    b["writers"].setdefault(wq, ln)
                b["readers"].setdefault(f.fq, f.line)
                for k in fam:
                    for m in k.methods.values():
                        if any(isinstance(n, ast.Attribute) and isinstance(n.ctx, ast.Load) and self_attr(n) in fields for n in walk_local(m.node)):
                            b["readers"].setdefault(m.fq, m.line)
                b["fields"] = sorted(fields)
            else:
                chk.ok("R18-a", bid, 0, f"default object `{short(d, 30)}` is shared by every instance but stateless: no field of {dcls.name} is written outside __init__", nontrivial=False)
    # aliased instance attributes: every load is a read
    for f in ix.all_functions:
        if f.cls is None:
            continue
        for n in walk_local(f.node):
            if isinstance(n, ast.Attribute) and isinstance(n.ctx, ast.Load) and isinstance(n.value, ast.Name) and n.value.id == "self":
                for c in f.cls.mro():
                    if (c.fq, n.attr) in alias:
                        B(alias[(c.fq, n.attr)], "container")["readers"].setdefault(f.fq, n.lineno)
    # readers of re-bound names and containers
    rebound = {bid for bid, b in bindings.items() if b["kind"] in ("global", "module attribute", "class attribute", "container")}
    by_mod_name: dict[tuple[str, str], str] = {}
    for bid in rebound:
        if ":" in bid:
            cfq, attr = bid.rsplit(".", 1)
            by_mod_name[(cfq, attr)] = bid
        else:
            modn, nm = bid.rsplit(".", 1)
            by_mod_name[(modn, nm)] = bid
    for f in ix.all_functions:
        locs = local_names(f)
        globs = {n for st in walk_local(f.node) if isinstance(st, ast.Global) for n in st.names}
        locs -= globs
        mod = ix.modules[f.module]
        for n in walk_local(f.node):
            if isinstance(n, ast.Name) and isinstance(n.ctx, ast.Load) and n.id not in locs:
                if (f.module, n.id) in by_mod_name:
                    bindings[by_mod_name[(f.module, n.id)]]["readers"].setdefault(f.fq, n.lineno)
                elif n.id in mod.imports:
                    base, attr = mod.imports[n.id]
                    if attr is not None and (base, attr) in by_mod_name:
                        bindings[by_mod_name[(base, attr)]]["readers"].setdefault(f.fq, n.lineno)
            elif isinstance(n, ast.Attribute) and isinstance(n.ctx, ast.Load):
                if isinstance(n.value, ast.Name) and n.value.id in locs and n.value.id not in ("cls", "self"):
                    continue
                r = None
                if isinstance(n.value, ast.Name) and n.value.id in ("cls", "self") and f.cls is not None:
                    for c in f.cls.mro():
                        if (c.fq, n.attr) in by_mod_name and (n.value.id == "cls" or not _assigned_on_instance(c, n.attr)):
                            bindings[by_mod_name[(c.fq, n.attr)]]["readers"].setdefault(f.fq, n.lineno)
                    continue
                r = ix.resolve_dotted(mod, n.value)
                if isinstance(r, ModuleInfo) and (r.name, n.attr) in by_mod_name:
                    bindings[by_mod_name[(r.name, n.attr)]]["readers"].setdefault(f.fq, n.lineno)
                elif isinstance(r, ClassInfo):
                    for c in r.mro():
                        if (c.fq, n.attr) in by_mod_name:
                            bindings[by_mod_name[(c.fq, n.attr)]]["readers"].setdefault(f.fq, n.lineno)
    if len(bindings) < 10:
        raise AnalysisError(f"shared-state inventory found only {len(bindings)} bindings")

    # ---- reachability -------------------------------------------------------------
    roots: list[str] = []
    for modn, cn in (("fandango.api", "Fandango"), ("fandango.evolution.algorithm", "Fandango"), ("fandango.language.grammar.grammar", "Grammar")):
        c = eng.cls(modn, cn)
        roots += [m.fq for n, m in c.methods.items() if not n.startswith("__") or n == "__init__"]
    roots.append(eng.func("fandango.language.parse.parse", "parse").fq)
    reach = cg.reachable(roots)
    n_live = 0
    for bid in sorted(bindings):
        b = bindings[bid]
        w = sorted(x for x in b["writers"] if x in reach)
        r = sorted(x for x in b["readers"] if x in reach)
        where = f"{len(b['writers'])} writer(s), {len(b['readers'])} reader(s)"
        if not w or not r:
            chk.ok("R18-a", bid, 0, f"{b['kind']} `{bid}`: {where}; no writer+reader pair reachable from the public API", nontrivial=False)
            continue
        n_live += 1
        if b["kind"] == "mutable default" and b.get("stored_attrs") and all(u.startswith("stored") for u in b.get("uses", [])):
            muts = attr_mutations(ix, set(b["stored_attrs"]))
            if not muts:
                chk.ok("R18-a", bid, 0, f"mutable default `{bid}` is stored as {b['stored_attrs']} but no function mutates an attribute of that name in place "
                                        f"(scanned {len(ix.all_functions)} functions): the shared object is never changed")
                continue
        if bid in ACCEPTED:
            chk.ok("R18-a", bid, 0, f"{b['kind']} `{bid}`: live channel accepted - {ACCEPTED[bid]}")
            continue
        wf = cg.funcs[w[0]]
        rf = cg.funcs[r[0]]
        wp = cg.path(next(x for x in roots if w[0] in cg.reachable([x])), w[0]) or []
        chk.bad("R18-a", eng.relfile(wf), b["writers"][w[0]], bid,
                f"{b['kind']} `{bid}` outlives an instance: written by {[x.split(':')[1] for x in w][:4]}, read by {[x.split(':')[1] for x in r][:6]}",
                "state changed while one spec object is used (e.g. the repetition cap raised by the adaptive tuner) is seen by every other spec object "
                "and by later parsing in the same process: their solutions and parse results depend on what ran before",
                path=["writer reachable via: " + " -> ".join(x.split(':')[1] for x in wp)] if wp else [],
                keyparts="shared-state")
    chk.extra["inventory"] = {bid: {"kind": b["kind"], "writers": sorted(b["writers"]), "readers": sorted(b["readers"])[:12]} for bid, b in sorted(bindings.items())}
    chk.extra["live_channels"] = n_live

    # ---- R18-b ---------------------------------------------------------------
    tuner = eng.cls("fandango.evolution.adaptation", "AdaptiveTuner")
    for name, m in sorted(tuner.methods.items()):
        locs = local_names(m)
        bad = []
        for n in walk_local(m.node):
            if isinstance(n, (ast.Assign, ast.AugAssign)):
                for t in (n.targets if isinstance(n, ast.Assign) else [n.target]):
                    if isinstance(t, ast.Attribute) and not (isinstance(t.value, ast.Name) and (t.value.id == "self" or t.value.id in locs)):
                        bad.append(n)
            if isinstance(n, ast.Global):
                bad.append(n)
        if bad:
            chk.bad("R18-b", eng.relfile(m), bad[0].lineno, m.fq, f"`{short(bad[0])}` writes state outside the tuner instance",
                    "an adapted limit leaks out of the instance", keyparts="tuner-write|" + short(bad[0], 40))
        else:
            chk.ok("R18-b", m.fq, m.line, f"AdaptiveTuner.{name} writes only self.* / locals")


def lent_globals_rule(chk: Check, eng: Engine, rule: str) -> None:
    """Module-level containers of the command layer (`DEFAULT_SETTINGS`, `DEFAULT_CONSTRAINTS`) are what `set` stores for later commands.  A
    command hands them to helpers as *defaults*; a helper that writes into the mapping it was given - directly, through `x = p or {}` / `x = p`,
    or by passing that alias to another helper that writes - turns one command's options into every later command's defaults (`-S <sym>` of
    one parse becomes the start symbol of the next).  Only the functions that declare the global (`global X`) may write it."""
    MUT = {"update", "setdefault", "pop", "clear", "append", "extend", "insert", "add", "remove", "__setitem__"}

    def param_writes(f: FuncInfo, param: str, depth: int = 0, seen: Optional[set] = None) -> Optional[tuple[int, str]]:
        seen = seen if seen is not None else set()
        if (f.fq, param) in seen or depth > 3:
            return None
        seen.add((f.fq, param))
        aliases = {param}
        grew = True
        while grew:
            grew = False
            for a in walk_local(f.node):
                if isinstance(a, ast.Assign) and len(a.targets) == 1 and isinstance(a.targets[0], ast.Name) and a.targets[0].id not in aliases:
                    v = a.value
                    cands = [v] + (list(v.values) if isinstance(v, ast.BoolOp) else []) + ([v.body, v.orelse] if isinstance(v, ast.IfExp) else [])
                    if any(isinstance(c, ast.Name) and c.id in aliases for c in cands):
                        aliases.add(a.targets[0].id)
                        grew = True
        mod = eng.ix.modules[f.module]
        for x in walk_local(f.node):
            if isinstance(x, ast.Assign):
                for t in x.targets:
                    if isinstance(t, ast.Subscript) and isinstance(t.value, ast.Name) and t.value.id in aliases:
                        return x.lineno, f"`{short(x, 50)}` in {f.qualname}"
            if isinstance(x, ast.Call) and isinstance(x.func, ast.Attribute) and x.func.attr in MUT and isinstance(x.func.value, ast.Name) and x.func.value.id in aliases:
                return x.lineno, f"`{short(x, 50)}` in {f.qualname}"
            if isinstance(x, ast.Call) and isinstance(x.func, ast.Name):
                g = eng.ix.resolve_name(mod, x.func.id)
                if isinstance(g, FuncInfo):
                    ps = g.params()
                    for i, a in enumerate(x.args):
                        if isinstance(a, ast.Name) and a.id in aliases and i < len(ps):
                            r = param_writes(g, ps[i], depth + 1, seen)
                            if r:
                                return r
        return None

    n = 0
    for mod in eng.ix.modules.values():
        if not mod.name.startswith("fandango.cli"):
            continue
        containers = {nm for nm, vals in mod.globals_assigned.items() if any(isinstance(getattr(v, "value", v), (ast.Dict, ast.List, ast.Set)) for v in vals)}
        if not containers:
            continue
        for f in mod.functions.values():
            declared = {g_ for st in walk_local(f.node) if isinstance(st, ast.Global) for g_ in st.names}
            for c in walk_local(f.node):
                if not (isinstance(c, ast.Call) and isinstance(c.func, ast.Name)):
                    continue
                callee = eng.ix.resolve_name(mod, c.func.id)
                if not isinstance(callee, FuncInfo):
                    continue
                ps = callee.params()
                bound = [(ps[i], a) for i, a in enumerate(c.args) if i < len(ps)] + [(k.arg, k.value) for k in c.keywords if k.arg]
                for pname, a in bound:
                    if isinstance(a, ast.Name) and a.id in containers and a.id not in declared:
                        n += 1
                        w = param_writes(callee, pname)
                        if w:
                            chk.bad(rule, eng.relfile(f), c.lineno, f.fq, f"`{short(c, 60)}` lends the module-level `{a.id}` to {callee.qualname}, which writes into it ({w[1]})",
                                    "what one command was given on its command line becomes the default of every later command of the session: after `parse -S <word> ...` a plain `parse` "
                                    "parses from <word> - it accepts inputs outside the language of <start> and rejects valid ones", keyparts=f"lent-global-written|{a.id}|{callee.qualname}")
                        else:
                            chk.ok(rule, f.fq, c.lineno, f"`{short(c, 50)}`: {callee.qualname} does not write into the `{a.id}` it is lent")
    if n < 3:
        raise AnalysisError(f"only {n} call sites lending a module-level container of the command layer found")


def attr_mutations(ix, attrs: set[str]) -> list[str]:
    out = []
    for f in ix.all_functions:
        for n in walk_local(f.node):
            if isinstance(n, ast.Call) and isinstance(n.func, ast.Attribute) and n.func.attr in MUT and isinstance(n.func.value, ast.Attribute) and n.func.value.attr in attrs:
                out.append(f"{f.fq}:{n.lineno}")
            elif isinstance(n, (ast.Assign, ast.AugAssign)):
                for t in (n.targets if isinstance(n, ast.Assign) else [n.target]):
                    if isinstance(t, ast.Subscript) and isinstance(t.value, ast.Attribute) and t.value.attr in attrs:
                        out.append(f"{f.fq}:{n.lineno}")
                    if isinstance(n, ast.AugAssign) and isinstance(t, ast.Attribute) and t.attr in attrs:
                        out.append(f"{f.fq}:{n.lineno}")
            elif isinstance(n, ast.Delete):
                for t in n.targets:
                    if isinstance(t, ast.Subscript) and isinstance(t.value, ast.Attribute) and t.value.attr in attrs:
                        out.append(f"{f.fq}:{n.lineno}")
    return out


def _assigned_on_instance(c: ClassInfo, attr: str) -> bool:
    for m in c.methods.values():
        for n in ast.walk(m.node):
            if isinstance(n, (ast.Assign, ast.AnnAssign)):
                for t in (n.targets if isinstance(n, ast.Assign) else [n.target]):
                    if isinstance(t, ast.Attribute) and isinstance(t.value, ast.Name) and t.value.id == "self" and t.attr == attr:
                        return True
    return False


def _module_instance_class(ix, mod: ModuleInfo, name: str) -> Optional[ClassInfo]:
    """Class of a module-level singleton `NAME = Class()` / `NAME: Class = Class()` (possibly imported)."""
    target_mod, nm = mod, name
    if name in mod.imports:
        base, attr = mod.imports[name]
        if attr is None or base not in ix.modules or ix.modules[base].tree is None:
            return None
        target_mod, nm = ix.modules[base], attr
    for st in target_mod.globals_assigned.get(nm, []):
        v = getattr(st, "value", None)
        if isinstance(v, ast.Call):
            r = ix.resolve_class_expr(target_mod, v.func)
            if isinstance(r, ClassInfo):
                return r
    return None


# ------------------------------------------------------------------ self-test variants
from ..mutants import M  # noqa: E402

_AD = "src/fandango/evolution/adaptation.py"
_EV = "src/fandango/evolution/evaluation.py"
_G = "src/fandango/language/grammar/grammar.py"
_P = "src/fandango/language/grammar/parser/parser.py"
_CMP = "src/fandango/constraints/comparison.py"
MUTANTS = [
    M("settings-helper-writes-into-the-defaults", "src/fandango/cli/utils.py", "    settings = initial_settings.copy()\n", "    settings = initial_settings or {}\n", "R18-c"),
    M("shared-default-operator-gets-state", "src/fandango/evolution/algorithm.py", "        self.mutation_method = mutation_method\n",
      "        self.mutation_method = mutation_method\n        self.mutation_method.max_nodes = min(getattr(self.mutation_method, \"max_nodes\", 50), max_nodes)\n", "R18-a"),
    M("module-level-solution-set", _EV, "        self._solution_set: set[int] = set()\n", "        self._solution_set: set[int] = _SEEN_SOLUTIONS\n", "R18-a",
      more=(("class Evaluator:\n    def __init__(", "_SEEN_SOLUTIONS: set[int] = set()\n\n\nclass Evaluator:\n    def __init__("),)),
    M("class-level-parse-cache", _P, "class Parser:\n    def __init__(self, grammar_rules: dict[NonTerminal, Node]):\n        self._iter_parser = IterativeParser(grammar_rules)\n",
      "class Parser:\n    _shared: dict = {}\n\n    def __init__(self, grammar_rules: dict[NonTerminal, Node]):\n        self._iter_parser = IterativeParser(grammar_rules)\n        Parser._shared[len(grammar_rules)] = self\n", "R18-a"),
    M("mutable-default-mutated", _CMP, "        searches: dict[str, NonTerminalSearch] = {}\n        searches.update(", "        searches: dict[str, NonTerminalSearch] = {}\n        left_searches.setdefault(\"__seen__\", None)  # type: ignore\n        searches.update(", "R18-a"),
    M("tuner-writes-global-cap", _AD, "                self.current_max_repetition = new_max_repetition\n", "                self.current_max_repetition = new_max_repetition\n                Evaluator.shared_max_repetition = new_max_repetition\n", "R18-b"),

]
TWINS = [
    M("twin-default-operator-configured-in-init", "src/fandango/evolution/mutation.py", "class SimpleMutation(MutationOperator):\n    def mutate(\n",
      "class SimpleMutation(MutationOperator):\n    def __init__(self) -> None:\n        self.default_budget = 50\n\n    def mutate(\n", None),
]
