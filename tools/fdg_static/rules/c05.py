"""C05 - what Fandango generates, Fandango parses back (two structural clauses only).

The round trip as a whole - every word of the language is accepted - rests on the agreement of two regex engines and on the
completeness of the Earley closure; neither is visible in the shape of the code and neither is decided here.  Two necessary
conditions are:

R05-a  zero-length instances.  The generator can instantiate a terminal with the empty string (`r'a*'`, `r'b?'`, `''`).  A byte-aligned
       scanner (a method of IterativeParser that takes `(match, match_length) = state.dot.check(<word>)`) must therefore advance a *fresh*
       item over a successful full match of length 0: on no path from that match to the end of the scanner is the match thrown away before
       `state.next()` has been added to the table.  Decided by constant propagation over the scanner's statements from the abstract entry
       state {state.is_incomplete = False, match = True, match_length = 0}; every other value is unknown and forks the walk.  Bit scanners are
       exempt when Terminal.check returns the constant length 1 for bit terminals (they never see a zero-length match).
R05-b  byte-regex codec.  exrex expands text patterns only, so TerminalNode.fuzz decodes a bytes pattern, expands it and encodes the
       instance.  The two codecs must be the same bijective single-byte codec (Latin-1): with any other pair an instance of a pattern that
       mentions bytes >= 0x80 is not what the scanner - which matches the bytes pattern itself - accepts.
"""

from __future__ import annotations

import ast
from typing import Any, Optional

from ..core import AnalysisError, call_name, norm, short, walk_local
from ..engine import Engine
from ..report import Check

PMOD = "fandango.language.grammar.parser"
UNK = object()
NEXT, COPY = "<state.next()>", "<state.copy()>"
LATIN1 = {"latin-1", "latin1", "latin_1", "iso-8859-1", "iso8859-1", "iso_8859_1", "l1", "8859"}


class _Path:
    def __init__(self, env: dict[str, Any]):
        self.env = env
        self.seen_check = False
        self.match_var: Optional[str] = None
        self.advanced = False
        self.discard: Optional[ast.AST] = None
        self.trace: list[str] = []

    def fork(self) -> "_Path":
        p = _Path(dict(self.env))
        p.seen_check, p.match_var, p.advanced, p.discard, p.trace = self.seen_check, self.match_var, self.advanced, self.discard, list(self.trace)
        return p


def _ev(e: ast.AST, env: dict[str, Any]) -> Any:
    if isinstance(e, ast.Constant):
        return e.value
    if isinstance(e, ast.Name):
        return env.get(e.id, UNK)
    if isinstance(e, ast.Attribute) and norm(e) == "state.is_incomplete":
        return False
    if isinstance(e, ast.Attribute) and norm(e) == "state.incomplete_idx":
        return 0  # a fresh item has matched nothing of its terminal yet
    if isinstance(e, ast.UnaryOp) and isinstance(e.op, ast.Not):
        v = _ev(e.operand, env)
        return UNK if v is UNK else (not v)
    if isinstance(e, ast.BoolOp):
        vals = [_ev(v, env) for v in e.values]
        if isinstance(e.op, ast.And):
            if any(v is not UNK and not v for v in vals):
                return False
            return UNK if any(v is UNK for v in vals) else True
        if any(v is not UNK and v for v in vals):
            return True
        return UNK if any(v is UNK for v in vals) else False
    if isinstance(e, ast.Compare) and len(e.ops) == 1:
        l, r = _ev(e.left, env), _ev(e.comparators[0], env)
        if l is UNK or r is UNK or isinstance(l, str) or isinstance(r, str) or l is None or r is None:
            return UNK
        op = e.ops[0]
        try:
            if isinstance(op, ast.LtE):
                return l <= r
            if isinstance(op, ast.Lt):
                return l < r
            if isinstance(op, ast.GtE):
                return l >= r
            if isinstance(op, ast.Gt):
                return l > r
            if isinstance(op, ast.Eq):
                return l == r
            if isinstance(op, ast.NotEq):
                return l != r
        except TypeError:
            return UNK
        return UNK
    if isinstance(e, ast.BinOp):
        l, r = _ev(e.left, env), _ev(e.right, env)
        if isinstance(l, int) and isinstance(r, int) and not isinstance(l, bool) and not isinstance(r, bool):
            if isinstance(e.op, ast.Add):
                return l + r
            if isinstance(e.op, ast.Sub):
                return l - r
            if isinstance(e.op, ast.Mult):
                return l * r
        return UNK
    if isinstance(e, ast.Call) and isinstance(e.func, ast.Attribute) and norm(e.func) == "state.next" and not e.args:
        return NEXT
    if isinstance(e, ast.Call) and isinstance(e.func, ast.Attribute) and norm(e.func) == "state.copy":
        return COPY
    return UNK


def _is_check_call(v: ast.AST) -> Optional[bool]:
    """None: not a terminal check; True: a full check; False: a check with incomplete=True"""
    if isinstance(v, ast.Call) and isinstance(v.func, ast.Attribute) and v.func.attr == "check" and norm(v.func.value) == "state.dot":
        inc = next((k.value for k in v.keywords if k.arg == "incomplete"), v.args[1] if len(v.args) > 1 else None)
        return not (inc is not None and not (isinstance(inc, ast.Constant) and inc.value is False))
    return None


def _run_block(stmts: list[ast.stmt], paths: list[_Path], done: list[_Path], fq: str) -> list[_Path]:
    for st in stmts:
        if not paths:
            break
        nxt: list[_Path] = []
        for p in paths:
            nxt += _run_stmt(st, p, done, fq)
        if len(nxt) > 4096:
            raise AnalysisError(f"{fq}: more than 4096 abstract paths")
        paths = nxt
    return paths


def _run_stmt(st: ast.stmt, p: _Path, done: list[_Path], fq: str) -> list[_Path]:
    if isinstance(st, (ast.Assert, ast.Pass)) or (isinstance(st, ast.Expr) and isinstance(st.value, ast.Constant)):
        return [p]
    if isinstance(st, ast.AnnAssign):
        if isinstance(st.target, ast.Name) and st.value is not None:
            p.env[st.target.id] = _ev(st.value, p.env)
        return [p]
    if isinstance(st, ast.Assign) and len(st.targets) == 1:
        t, v = st.targets[0], st.value
        if isinstance(t, ast.Tuple) and len(t.elts) == 2 and all(isinstance(x, ast.Name) for x in t.elts):
            full = _is_check_call(v)
            a, b = t.elts[0].id, t.elts[1].id  # type: ignore[union-attr]
            if full is True and not p.seen_check:
                p.env[a], p.env[b] = True, 0
                p.seen_check, p.match_var = True, a
                p.trace.append(f"line {st.lineno}: `{short(st, 60)}` -> ({a}, {b}) = (True, 0)")
            else:
                p.env[a], p.env[b] = UNK, UNK
            return [p]
        if isinstance(t, ast.Name):
            val = _ev(v, p.env)
            if p.seen_check and t.id == p.match_var and val is False and not p.advanced:
                p.discard = st
                p.trace.append(f"line {st.lineno}: `{short(st, 60)}`")
            p.env[t.id] = val
            return [p]
        if isinstance(t, ast.Tuple):
            for x in ast.walk(t):
                if isinstance(x, ast.Name):
                    p.env[x.id] = UNK
        return [p]  # attribute / subscript stores do not matter here
    if isinstance(st, ast.AugAssign):
        if isinstance(st.target, ast.Name):
            p.env[st.target.id] = UNK
        return [p]
    if isinstance(st, ast.Expr):
        c = st.value
        # `table[...].add(next_state)`, or any helper that is handed the advanced item (an extracted `self._enter(table, k, next_state)`)
        if isinstance(c, ast.Call) and p.seen_check and any(_ev(a, p.env) == NEXT for a in list(c.args) + [k.value for k in c.keywords]):
            p.advanced = True
            p.trace.append(f"line {st.lineno}: `{short(st, 60)}` hands on the advanced item")
        return [p]
    if isinstance(st, ast.If):
        v = _ev(st.test, p.env)
        out: list[_Path] = []
        branches = [(True, st.body), (False, st.orelse)] if v is UNK else [(bool(v), st.body if v else st.orelse)]
        for i, (taken, body) in enumerate(branches):
            q = p.fork() if i < len(branches) - 1 else p
            q.trace.append(f"line {st.lineno}: `if {short(st.test, 50)}` is {'unknown, taken as ' if v is UNK else ''}{taken}")
            out += _run_block(body, [q], done, fq)
        return out
    if isinstance(st, ast.Return):
        p.trace.append(f"line {st.lineno}: `{short(st, 40)}`")
        if p.discard is None and not p.advanced and p.seen_check:
            p.discard = st
        done.append(p)
        return []
    if isinstance(st, ast.Raise):
        return []  # an error is not a silent rejection
    if isinstance(st, (ast.For, ast.While, ast.Try, ast.With, ast.Match)):
        raise AnalysisError(f"{fq}: statement kind {type(st).__name__} at line {st.lineno} is not modelled by the zero-length walk")
    return [p]


def rule_a(chk: Check, eng: Engine) -> None:
    ip = eng.cls(f"{PMOD}.iterative_parser", "IterativeParser")
    term = eng.cls("fandango.language.symbols.terminal", "Terminal")
    tcheck = eng.method(term, "check")
    # length of a bit match, as Terminal.check states it
    bit_len: Optional[int] = None
    for st in tcheck.node.body:  # type: ignore[attr-defined]
        if isinstance(st, ast.If) and "TRAILING_BITS_ONLY" in norm(st.test):
            for r in st.body:
                if isinstance(r, ast.Return) and isinstance(r.value, ast.Tuple) and len(r.value.elts) == 2 and isinstance(r.value.elts[1], ast.Constant):
                    bit_len = r.value.elts[1].value
    lens = [r.value.elts[1] for r in walk_local(tcheck.node) if isinstance(r, ast.Return) and isinstance(r.value, ast.Tuple) and len(r.value.elts) == 2]
    if not any(isinstance(x, ast.Call) and call_name(x) == "len" for x in lens):
        raise AnalysisError("Terminal.check: no return of the form (True, len(...)) found - the length domain of a match is unknown")
    n = 0
    for m in sorted(ip.methods.values(), key=lambda m: m.line):
        if not any(isinstance(a, ast.Assign) and _is_check_call(a.value) is True for a in walk_local(m.node)):
            continue
        eng.consult(m.module)
        n += 1
        # bit scanner?
        asserts_bits = any(isinstance(a, ast.Assert) and norm(a.test).startswith("state.dot.is_type(") and "TRAILING_BITS_ONLY" in norm(a.test) for a in m.node.body)  # type: ignore[attr-defined]
        if asserts_bits:
            if isinstance(bit_len, int) and bit_len >= 1:
                chk.ok("R05-a", m.fq, m.line, f"bit scanner: Terminal.check returns the constant length {bit_len} for bit terminals, a zero-length match does not occur")
                continue
            raise AnalysisError("Terminal.check: the length returned for bit terminals is not a positive constant")
        done: list[_Path] = []
        rest = _run_block(m.node.body, [_Path({})], done, m.fq)  # type: ignore[attr-defined]
        for p in rest:  # fell off the end
            if p.discard is None and not p.advanced and p.seen_check:
                p.discard = m.node
            done.append(p)
        relevant = [p for p in done if p.seen_check]
        if not relevant:
            raise AnalysisError(f"{m.fq}: no path reaches the terminal check")
        bad = [p for p in relevant if not p.advanced]
        if not bad:
            chk.ok("R05-a", m.fq, m.line, f"a fresh item is advanced over a full match of length 0 on all {len(relevant)} abstract paths")
            continue
        seen: set[int] = set()
        for p in bad:
            site = p.discard if p.discard is not None else m.node
            if id(site) in seen:
                continue
            seen.add(id(site))
            first = next((q for q in bad if q.discard is site), p)
            chk.bad("R05-a", eng.relfile(m), getattr(site, "lineno", m.line), m.fq,
                    f"`{short(site, 70)}` throws away a successful full match of length 0 of a fresh item",
                    "a terminal the generator instantiates with the empty string (r'a*', r'b?') is never advanced over: `<start> ::= <a> 'b'`, `<a> ::= r'a*'` produces "
                    "the word 'b' and the parser rejects it", path=first.trace, keyparts="zero-length-discarded|" + norm(site)[:80] if not isinstance(site, ast.FunctionDef) else "zero-length-falls-through")
    if n < 2:
        raise AnalysisError(f"only {n} byte-aligned scanner(s) with a terminal check found in IterativeParser")


def _const_str(eng: Engine, modname: str, e: Optional[ast.AST]) -> Optional[str]:
    if isinstance(e, ast.Constant) and isinstance(e.value, str):
        return e.value
    if isinstance(e, ast.Name):
        mod = eng.ix.modules.get(modname)
        if mod is not None and mod.tree is not None:
            for st in mod.tree.body:
                if isinstance(st, ast.Assign) and any(isinstance(t, ast.Name) and t.id == e.id for t in st.targets) and isinstance(st.value, ast.Constant) and isinstance(st.value.value, str):
                    return st.value.value
            r = eng.ix.resolve_name(mod, e.id)
            v = getattr(r, "value", None)
            if isinstance(v, ast.Constant) and isinstance(v.value, str):
                return v.value
    return None


def rule_b(chk: Check, eng: Engine) -> None:
    tn = eng.cls("fandango.language.grammar.nodes.terminal", "TerminalNode")
    fz = eng.method(tn, "fuzz")
    n = 0
    # the branch of fuzz() for bytes regexes - or, when that code was extracted, the body of a helper of the class / module that fuzz() calls
    regions: list[tuple[int, list[ast.stmt]]] = [(iff.lineno, iff.body) for iff in walk_local(fz.node) if isinstance(iff, ast.If) and "BYTES" in norm(iff.test)]
    called = {call_name(c) for c in walk_local(fz.node) if isinstance(c, ast.Call)}
    mod = eng.ix.modules.get(fz.module)
    helpers = [m for m in tn.methods.values() if m is not fz and m.name in called]
    if mod is not None:
        helpers += [g for nm, g in mod.functions.items() if nm in called and hasattr(g, "node")]
    for h in helpers:
        regions.append((h.line, list(h.node.body)))  # type: ignore[attr-defined]
    for lineno_, stmts in regions:
        iff = ast.If(test=ast.Constant(value=True), body=stmts, orelse=[], lineno=lineno_, col_offset=0)
        body = ast.Module(body=iff.body, type_ignores=[])
        dec = [c for c in ast.walk(body) if isinstance(c, ast.Call) and isinstance(c.func, ast.Attribute) and c.func.attr in ("to_string", "decode")]
        enc = [c for c in ast.walk(body) if isinstance(c, ast.Call) and isinstance(c.func, ast.Attribute) and c.func.attr in ("encode", "to_bytes")]
        if not dec or not enc:
            continue
        n += 1
        d = dec[0].args[0] if dec[0].args else next((k.value for k in dec[0].keywords if k.arg == "encoding"), None)
        e = enc[0].args[0] if enc[0].args else next((k.value for k in enc[0].keywords if k.arg == "encoding"), None)
        ds, es = _const_str(eng, fz.module, d), _const_str(eng, fz.module, e)
        if d is None or e is None or ds is None or es is None:
            chk.bad("R05-b", eng.relfile(fz), iff.lineno, fz.fq, f"the codec of `{short(dec[0], 40)}` / `{short(enc[0], 40)}` is not an explicit constant",
                    "a default codec (UTF-8 for str.encode, the package default for to_string) is not a bijection between bytes and text: byte patterns >= 0x80 are "
                    "expanded into other bytes than the scanner matches", keyparts="byte-regex-codec-implicit")
        elif ds.lower() in LATIN1 and es.lower() in LATIN1:
            chk.ok("R05-b", fz.fq, iff.lineno, f"bytes pattern decoded with {ds!r}, instance encoded with {es!r}: the same bijective single-byte codec")
        else:
            chk.bad("R05-b", eng.relfile(fz), iff.lineno, fz.fq, f"bytes pattern decoded with {ds!r}, instance encoded with {es!r}",
                    "only Latin-1 maps every byte to one character and back: with another codec a pattern that mentions bytes >= 0x80 (rb'[\\x80-\\xff]+') is expanded into "
                    "different bytes than the scanner, which matches the bytes pattern itself, accepts - the generated word does not parse back", keyparts="byte-regex-codec")
    if n < 1:
        raise AnalysisError("TerminalNode.fuzz: no branch for bytes regexes (decode the pattern, expand, encode the instance) found")


def run(chk: Check, eng: Engine) -> None:
    chk.rule("R05-a", "every byte-aligned scanner advances a fresh item over a successful full match of length 0 (the generator can instantiate a terminal with the empty string)", floor=2)
    chk.rule("R05-b", "a bytes regex is expanded through one bijective single-byte codec (decode the pattern, encode the instance: both Latin-1)", floor=1)
    chk.not_decided += ["that every word of the grammar's language is accepted (agreement of exrex with re / regex on the language of a pattern, completeness of the Earley closure)",
                        "the --validate loop (its error accounting is not a condition of the round trip itself)",
                        "ambiguous splits of regex matches between neighbouring symbols (excluded by the property)"]
    rule_a(chk, eng)
    rule_b(chk, eng)


# ------------------------------------------------------------------ self-test variants
from ..mutants import M  # noqa: E402

_IP = "src/fandango/language/grammar/parser/iterative_parser.py"
_TN = "src/fandango/language/grammar/nodes/terminal.py"
MUTANTS = [
    M("extracted-helper-encodes-utf8", _TN, '                    # Exrex can\'t do bytes, so we decode to str and back\n                    pattern = self.symbol.value().to_string("latin-1")\n                    instance = get_one(pattern).encode("latin-1")\n', '                    instance = self._expand_bytes_pattern(get_one)\n', "R05-b", more=(('    def accept(\n        self,\n        visitor: "fandango.language.grammar.node_visitors', '    def _expand_bytes_pattern(self, get_one: Any) -> bytes:\n        # Exrex can\'t do bytes, so we decode to str and back\n        pattern = self.symbol.value().to_string("latin-1")\n        return get_one(pattern).encode("utf-8")\n\n    def accept(\n        self,\n        visitor: "fandango.language.grammar.node_visitors'),)),
    M("byte-scanner-rejects-empty-literal", _IP, "        match, match_length = state.dot.check(check_word)\n        table_idx_multiplier = 8\n\n        if not match:\n",
      "        match, match_length = state.dot.check(check_word)\n        table_idx_multiplier = 8\n        if match_length == 0:\n            return False\n\n        if not match:\n", "R05-a"),
    M("byte-scanner-advances-only-over-progress", _IP, "        else:\n            next_state = state.next()\n            next_state.is_incomplete = False\n            next_state.incomplete_idx = 0\n            tree = ParserDerivationTree(Terminal(check_word[:match_length]))\n            if state.is_incomplete:\n                next_state.children[-1] = tree\n            else:\n                next_state.append_child(tree)\n        table[k + ((match_length - state.incomplete_idx) * table_idx_multiplier)].add(\n            next_state\n        )\n",
      "        else:\n            next_state = state.next()\n            next_state.is_incomplete = False\n            next_state.incomplete_idx = 0\n            tree = ParserDerivationTree(Terminal(check_word[:match_length]))\n            if state.is_incomplete:\n                next_state.children[-1] = tree\n            else:\n                next_state.append_child(tree)\n        if match_length > state.incomplete_idx:\n            table[k + ((match_length - state.incomplete_idx) * table_idx_multiplier)].add(\n                next_state\n            )\n", "R05-a"),
    M("pattern-decoded-as-utf8", _TN, "                    pattern = self.symbol.value().to_string(\"latin-1\")\n", "                    pattern = self.symbol.value().to_string(\"utf-8\")\n", "R05-b"),
    M("instance-encoded-with-default-codec", _TN, "                    instance = get_one(pattern).encode(\"latin-1\")\n", "                    instance = get_one(pattern).encode()\n", "R05-b"),
]
TWINS = [
    M("twin-bytes-branch-extracted-into-a-helper", _TN, '                    # Exrex can\'t do bytes, so we decode to str and back\n                    pattern = self.symbol.value().to_string("latin-1")\n                    instance = get_one(pattern).encode("latin-1")\n', '                    instance = self._expand_bytes_pattern(get_one)\n', None, more=(('    def accept(\n        self,\n        visitor: "fandango.language.grammar.node_visitors', '    def _expand_bytes_pattern(self, get_one: Any) -> bytes:\n        # Exrex can\'t do bytes, so we decode to str and back\n        pattern = self.symbol.value().to_string("latin-1")\n        return get_one(pattern).encode("latin-1")\n\n    def accept(\n        self,\n        visitor: "fandango.language.grammar.node_visitors'),)),
    M("twin-regex-scanner-keeps-new-full-matches", _IP, "        if match and match_length <= prev_match_length:\n", "        if match and state.is_incomplete and match_length <= prev_match_length:\n", None),
    M("twin-codec-through-a-module-constant", _TN, "                    pattern = self.symbol.value().to_string(\"latin-1\")\n                    instance = get_one(pattern).encode(\"latin-1\")\n",
      "                    pattern = self.symbol.value().to_string(_BYTE_REGEX_CODEC)\n                    instance = get_one(pattern).encode(_BYTE_REGEX_CODEC)\n", None,
      more=(("class TerminalNode(Node):\n", "_BYTE_REGEX_CODEC = \"iso-8859-1\"\n\n\nclass TerminalNode(Node):\n"),)),
]
